"""C04 - START/END pairing.
 (1) TLC: Pairing_MC - every event sequence over 2 threads x codes of every kind x 4 qualifiers up to MaxLen;
     mechanism (Step) == property stated on the history (RefEmit); negative control "nopop".
 (2) spec -> code: behaviours exported by TLC (Pairing_MBT, exhaustive at small depth + -simulate deeper) are
     concretised with rotating real decoders and stepped through the real TracesParser; emission and window are
     compared after every step.
 (3) code -> spec: seeded random streams over all decoder families, 3 threads, nesting / crossing / re-opening /
     stray ENDs; recorded per-step and validated by Pairing_Val (fold of Pairing!Step) in TLC."""
import json
import random

from . import gen
from .pairing import World, run_stream, observation, describe, AUDIT
from .tlc import run_tlc, validate_observations, simulate_behaviours

MC_CFG = '''SPECIFICATION Spec
CONSTANTS MaxLen = %d
 Tids = {%s}
 Codes = {%s}
 SwallowFragments = TRUE
 Variant = "%s"
INVARIANT EmitExact
INVARIANT WindowShape
INVARIANT OpenMatchesHistory
PROPERTY StrayEndIsNoOp
CHECK_DEADLOCK FALSE
'''
MBT_CFG = '''SPECIFICATION MSpec
CONSTANTS MaxLen = %d
 Tids = {1, 2}
 Codes = {%s}
 SwallowFragments = TRUE
 Variant = "ok"
INVARIANT Export
CHECK_DEADLOCK FALSE
'''
VAL_CONSTS = 'CONSTANT Variant = "ok"\n'

TRC_SIMPLE = ['PEXIT', 'TPID', 'EXD', 'TERM', 'NTD']


def concretise(world, rot, beh, known=None):
    """abstract (tid, code, q) of Pairing_MC -> AEv list with rotating concrete decoders."""
    names = {}
    stream = []
    for tid, code, q in beh:
        if code == 1:
            n = names.setdefault(1, world.by_cls['SYS0'][rot % len(world.by_cls['SYS0'])])
            stream.append(world.sys(n, q, tid))
        elif code == 2:
            n = names.setdefault(2, world.by_cls['SYS1'][rot % len(world.by_cls['SYS1'])])
            stream.append(world.sys(n, q, tid))
        elif code == 3:
            k = TRC_SIMPLE[rot % len(TRC_SIMPLE)]
            if k == 'PEXIT':
                stream.append(world.pexit(tid, 'nm', q))
            elif k == 'TPID':
                stream.append(world.tpid(tid, 5, q))
            elif k == 'EXD':
                stream.append(world.exd(tid, 6, q))
            elif k == 'TERM':
                stream.append(world.term(tid, 3 - tid, q))
            else:
                stream.append(world.ntd(tid, 3, 8, q))
        elif code == 4:
            data = (b'\x11' * 8 + b'/some/path').ljust(32, b'\x00') if q & 1 else b'cont'.ljust(32, b'\x00')
            stream.append(world.chunk('VFS_LOOKUP', 'LKP', q, tid, data))
        elif code == 5:
            n = names.setdefault(5, known or world.known_names[rot % len(world.known_names)])
            stream.append(world.known(q, tid, n))
        else:
            e = names.setdefault(6, world.unknown_ids[rot % len(world.unknown_ids)])
            stream.append(world.unknown(q, tid, e))
    return stream


def compare_behaviour(ctx, world, rot, b, known=None):
    stream = concretise(world, rot, b['h'], known)
    ex = run_stream(world, stream)
    strays = set()
    for i, exp in enumerate(b['o'], 1):
        if i > len(ex.steps):
            break
        got = ex.steps[i - 1]
        if exp['stray']:
            strays.add(i)
        bad = None
        if 'err' in got:
            bad = 'raised'
        elif exp['swallow']:
            if got['emit'] and got['win'] != [i]:
                bad = 'window'
        elif got['emit'] != exp['emit']:
            bad = 'spurious-trace' if got['emit'] else 'missing-trace'
        elif got['emit']:
            w = [k for k in got['win'] if k not in strays]
            if w != exp['win'] or got['win'] != sorted(set(got['win'])):
                bad = 'window'
        if bad:
            name = stream[i - 1].name or hex(stream[i - 1].debugid)
            ctx.violation('C04/replay/%s' % bad,
                          'spec behaviour %s: step %d (%s) code=%s spec=%s' % (b['h'], i, name, got, exp),
                          {'kind': 'spec->code', 'behaviour': b, 'rot': rot, 'known': known, 'stream': describe(world, stream)})
            return False
    return True


def run(ctx):
    rnd = random.Random(ctx.seed)
    # which decoder serves a record is a function of the fed object's OWN code table (spec/Dispatch_MC.tla): design
    # model-checked with its misplaced-memo variants, behaviours replayed on real parser and dict objects
    from . import dispatch
    dispatch.model_check(ctx, ['memoByTableId'])
    dispatch.run(ctx)
    # ---- (1) M |= P
    if ctx.quick:
        ctx.expect_ok(run_tlc('Pairing_MC', MC_CFG % (4, '1, 2', '1, 3, 4, 5', 'ok'), ctx.workdir, name='core_d4',
                              timeout=900))
    else:
        ctx.expect_ok(run_tlc('Pairing_MC', MC_CFG % (4, '1, 2', '1, 2, 3, 4, 5, 6', 'ok'), ctx.workdir,
                              name='core6_d4', timeout=3000))
        ctx.expect_ok(run_tlc('Pairing_MC', MC_CFG % (5, '1, 2', '1, 3, 5', 'ok'), ctx.workdir, name='core3_d5',
                              timeout=3000))
        ctx.expect_ok(run_tlc('Pairing_MC', MC_CFG % (4, '1, 2, 3', '1, 3, 5', 'ok'), ctx.workdir, name='core3t_d4',
                              timeout=3000))
    ctx.expect_violation(run_tlc('Pairing_MC', MC_CFG % (3, '1, 2', '1, 3', 'nopop'), ctx.workdir, name='neg_nopop',
                                 timeout=600, allow_error=True), 'END does not close its window')
    # ---- (2) spec -> code
    world = World(rnd)
    depth = 3 if ctx.quick else 4
    r = run_tlc('Pairing_MBT', MBT_CFG % (depth, '1, 3, 4, 5' if ctx.quick else '1, 3, 4, 5'), ctx.workdir,
                name='mbt_d%d' % depth, timeout=3000)
    ctx.add_tlc(r, counts=False)
    behs = [json.loads(t[1]) for t in r.tuples('BEH')]
    sim_n = 4000 if ctx.quick else 60000
    tuples, info = simulate_behaviours('Pairing_MBT', MBT_CFG % (10, '1, 2, 3, 4, 5, 6'), ctx.workdir, sim_n,
                                       name='mbt_sim', depth=12, seed=ctx.seed + 1)
    sims = [json.loads(t[1]) for t in tuples]
    ctx.tlc_runs.append(info)
    if len(behs) < 32 ** depth or not sims:
        raise RuntimeError('behaviour export incomplete: %d exhaustive, %d simulated' % (len(behs), len(sims)))
    n_ok = extra = 0
    for i, b in enumerate(behs + sims):
        if compare_behaviour(ctx, world, i, b):
            n_ok += 1
        # a named code WITHOUT decoder inside the behaviour: also every such code of the trace class (lost events,
        # panic, timestamps ...), whose records must be as inert as any other undecoded record
        if any(c == 5 for _, c, _ in b['h']) and (len(b['h']) <= 3 or i % 4 == 0):
            for kn in world.trace_known:
                extra += 1
                compare_behaviour(ctx, world, i, b, known=kn)
    ctx.traces += len(behs) + len(sims)
    ctx.extra['spec_to_code'] = {'exhaustive_depth': depth, 'exhaustive_behaviours': len(behs),
                                 'simulated_behaviours': len(sims), 'simulated_depth': 10, 'agreeing': n_ok,
                                 'reruns_with_each_undecoded_trace_class_code': extra}
    ctx.sample({'spec_behaviour': behs[len(behs) // 2]})
    # ---- (3) code -> spec
    obs = []
    streams = {}
    n = 1500 if ctx.quick else 20000
    names_seen = set()
    from .pairing import run_streams_alternating
    pend = []
    for i in range(n):
        # every other stream reuses the world (same thread ids, same codes) of the one before: the two run on SEPARATE
        # parser objects fed alternately - what one object pairs must not depend on the other object
        w = World(rnd, ts='any') if i % 2 == 0 else pend[-1][1]
        g = gen.ProgGen(w, rnd, ntids=3, noise=0.2, ood=0.15 if i % 3 == 0 else 0.0)
        w.feed_pieces = rnd.random() < 0.3      # handed to the parser in consecutive pieces through feed_generator
        progs = [g.program(t, rnd.randrange(1, 4)) for t in (1, 2, 3)]
        stream = gen.interleave(rnd, progs)[:60]
        pend.append(('s%d' % i, w, stream))
        if len(pend) == 2 or i == n - 1:
            exs = run_streams_alternating(w, [c[2] for c in pend], rnd) if len(pend) == 2 else [run_stream(w, stream)]
            for (oid, w_, st_), ex in zip(pend, exs):
                streams[oid] = (w_, st_)
                obs.append(observation(oid, st_, ex, 'win'))
                names_seen.update(a.name for a in st_ if a.name)
            pend = []
    nv, rej, results = validate_observations('Pairing_Val', obs, ctx.workdir, name='c04val', consts=VAL_CONSTS,
                                            timeout=3000)
    ctx.traces += nv
    ctx.extra['code_to_spec'] = {'streams': nv, 'events': sum(len(o['events']) for o in obs),
                                 'distinct_decoders_exercised': len(names_seen), 'registered_decoders': len(AUDIT)}
    ctx.sample({'random_stream': describe(*streams['s0'])[:8]})
    # SCALE: windows as long as the size-like constants of the parser's sources suggest still come out whole
    from .pairing import long_windows
    long_windows(ctx, 'C04', report_lost=True, report_raised=True)
    ctx.assumptions += ['event identity = object identity of the Kevent fed (timestamps increasing, coarse with ties, or all equal)',
                        'stray ENDs inside a delivered window and swallowed continuation fragments are accepted either way',
                        'decoder classification from the frozen audit (harness/audit.json)']
    for oid, clause in rej:
        w, stream = streams[oid]
        cl, _, at = clause.partition('@')
        k = int(at) if at else 0
        name = stream[k - 1].name if k else None
        sig = 'C04/%s' % cl + ('@%s' % name if cl == 'raised' else '')
        ctx.violation(sig, 'stream %s: %s at step %s (%s)' % (oid, cl, at, name),
                      {'kind': 'code->spec', 'clause': clause, 'stream': describe(w, stream, k)})


def replay(ctx, path):
    rp = json.load(open(path))['replay']
    print(json.dumps(rp, indent=1)[:4000])
    if rp.get('kind') == 'spec->code':
        world = World(random.Random(ctx.seed))
        ok = compare_behaviour(ctx, world, rp['rot'], rp['behaviour'], rp.get('known'))
        return 0 if ok else 1
    return replay_stream(ctx, rp)


def replay_stream(ctx, rp):
    """Re-feed the recorded concrete stream into the current tree and show what it does."""
    from .encode import make_event
    from .pairing import new_parser
    w = World(random.Random(0))
    p = new_parser(w)
    rc = 0
    for d in rp['stream']:
        words = tuple(int(x, 16) for x in d['words']) if d['words'] else (0, 0, 0, 0)
        e = make_event(d.get('ts', 1000 + 10 * d['k']), int(d['debugid'], 16), 5000 + d['tid'], words,
                       bytes.fromhex(d['data']) if d['data'] else None)
        try:
            r = p.feed(e)
            print(d['k'], d['name'], d['q'], '->', None if r is None else str(r))
        except Exception as ex:
            print(d['k'], d['name'], d['q'], 'RAISED', repr(ex))
            rc = 1
    return rc
