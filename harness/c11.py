"""C11 - flag words and packed fields decode to exactly the names of the bits set.
 (1) TLC Flags_MC over the frozen Darwin tables of Flags.tla: for every family every subset of the declared bits
     (<= 16 declared bits exhaustively, larger families all subsets of size <= 2 and their complements) x {no, one}
     undeclared bit x every value of the multi-bit field: the transcription of the helper algorithms satisfies
     FlagVerdict; every ioctl direction x length class x group x number satisfies IocVerdict.  Negative controls:
     O_ASYNC missing, multi-bit file types skipped (Python >= 3.11 iteration), direction mask 0xf0000000.
 (2) code -> spec: the real helpers (serialize_*_flags, to_*) and the inline comprehensions through str(trace) are
     evaluated on the same word sets plus seeded random words; names shown are validated by Flags_Val in TLC (names
     must be Darwin's: a changed enum value shows a name for bits that are not set)."""
import itertools
import json
import os
import random
import re

from . import mine
from .render import Prober, tokenize
from .tlc import run_tlc, validate_observations

CFG = '''SPECIFICATION Spec
CONSTANTS Variant = "%s"
 MaskVariant = "%s"
 MaxExh = %d
INVARIANT FlagRule
INVARIANT IocRule
CHECK_DEADLOCK FALSE
'''
HERE = os.path.dirname(os.path.abspath(__file__))
FAM = json.load(open(os.path.join(HERE, 'darwin_flags.json')))


def helpers():
    from pykdebugparser.trace_handlers import bsd, mach, perf, dyld
    return {
        'open': lambda w: bsd.serialize_open_flags(w), 'mode': lambda w: bsd.serialize_stat_flags(w),
        'access': lambda w: bsd.serialize_access_flags(w), 'vmprot': lambda w: mach.to_vm_prot(w),
        'ast': lambda w: mach.to_ast_reasons(w), 'thstate': lambda w: mach.to_thread_state(w),
        'sampler': lambda w: perf.to_sampler_action(w), 'kperfti': lambda w: perf.to_kperf_ti_state(w),
        'callstack': lambda w: perf.to_callstack_flags(w), 'rtld': lambda w: dyld.to_rtld_flags(w),
    }


# families reached only (or also) through a rendering: (decoder, START word index, parameter index)
VIA_TEXT = {'open': [('BSC_open', 1, 1), ('BSC_openat', 2, 2), ('BSC_sem_open', 1, 1), ('BSC_shm_open', 1, 1)],
            'mode': [('BSC_chmod', 1, 1), ('BSC_fchmod', 1, 1), ('BSC_mkdir', 1, 1), ('BSC_mkdirat', 2, 2), ('BSC_mkfifo', 1, 1),
                     ('BSC_fchmodat', 2, 2)],
            'access': [('BSC_access', 1, 1), ('BSC_faccessat', 2, 2)],
            'msg': [('BSC_recvfrom', 3, 3), ('BSC_recvfrom_nocancel', 3, 3)], 'flock': [('BSC_sys_flock', 1, 1)],
            'chflags': [('BSC_fchflags', 1, 1), ('BSC_chflags', 1, 1)]}
# flag words that reach a family through an event rendering: (decoder, 'S'|'E' word source, word index, shift, prefix)
VIA_EVENT = {'ast': [('MACH_SCHED', 'S', 0, 0), ('MACH_BLOCK', 'S', 0, 0), ('MACH_DISPATCH', 'S', 1, 0),
                     ('MACH_IDLE', 'E', 3, 0)],
             'thstate': [('MACH_DISPATCH', 'S', 2, 0)],
             'vmprot': [('RealFaultAddressInternal', 'S', 1, 8), ('RealFaultAddressSharedCache', 'S', 1, 8)],
             'sampler': [('PERF_Event', 'S', 0, 0)], 'kperfti': [('PERF_THD_Data', 'S', 3, 0)],
             'callstack': [('PERF_STK_UHdr', 'S', 0, 0)], 'rtld': [('DBG_DYLD_TIMING_DLOPEN', 'S', 2, 0)]}
PREFIX = {'ast': 'AST_', 'thstate': 'TH_', 'vmprot': 'VM_PROT_', 'sampler': 'SAMPLER_', 'kperfti': 'KPERF_TI_',
          'callstack': 'CALLSTACK_', 'rtld': 'RTLD_'}
NAME_RE = re.compile(r'[A-Za-z_][A-Za-z_0-9]*')


def words_of(fam, rnd, quick):
    d = FAM[fam]
    bits = sorted({v.bit_length() - 1 for v in d['single'].values()} |
                  ({i for i in range(32) if d['field'] and d['field']['mask'] >> i & 1}))
    undecl = next(b for b in range(32) if b not in bits)
    out = set()
    if len(bits) <= (12 if quick else 16):
        for r in range(len(bits) + 1):
            for c in itertools.combinations(bits, r):
                out.add(sum(1 << b for b in c))
    else:
        for r in (0, 1, 2):
            for c in itertools.combinations(bits, r):
                w = sum(1 << b for b in c)
                out.add(w)
                out.add(sum(1 << b for b in bits) & ~w)
    out |= {w | (1 << undecl) for w in list(out)[:4096]}
    for _ in range(300 if quick else 5000):
        out.add(rnd.getrandbits(32))
    return sorted(out)


def run(ctx):
    rnd = random.Random(ctx.seed)
    ctx.expect_ok(run_tlc('Flags_MC', CFG % ('ok', 'e', 13 if ctx.quick else 16), ctx.workdir, name='flags', timeout=3600))
    for v, m, what in (('noasync', 'e', 'O_ASYNC never shown'), ('singlebit', 'e', 'multi-bit file types never shown'),
                       ('ok', 'f', 'ioctl direction mask includes length bit 28')):
        ctx.expect_violation(run_tlc('Flags_MC', CFG % (v, m, 8), ctx.workdir, name='neg_%s_%s' % (v, m), timeout=900,
                                     allow_error=True), what)
    obs = []
    hs = helpers()
    pr = Prober(rnd)
    for fam in sorted(FAM):
        for w in words_of(fam, rnd, ctx.quick):
            bits = [i for i in range(32) if w >> i & 1]
            if fam in hs:
                o = {'id': '%s/helper/%x' % (fam, w), 'kind': 'flags', 'fam': fam, 'bits': bits, 'via': 'helper'}
                try:
                    o['shown'] = [x.name for x in hs[fam](w)]
                except Exception as ex:
                    o['shown'] = []
                    o['err'] = type(ex).__name__
                obs.append(o)
            vias = VIA_TEXT.get(fam)
            if vias and (w < 4096 or rnd.random() < 0.2):
                name, si, pi = vias[len(obs) % len(vias)]
                S = [3, 4, 5, 6] if len(obs) % 2 else list(pr.w.words(name, 'start'))      # the other words: small / any in-domain
                S[si] = w
                # a third of the renderings come after other syscalls (umask, ...) of the same thread
                prefix = pr.history(3, same=name) if len(obs) % 3 == 0 else ()
                o = {'id': '%s/%s/%x%s' % (fam, name, w, '/after-history' if prefix else ''), 'kind': 'flags', 'fam': fam,
                     'bits': bits, 'via': name + (' after %s' % [h[0] for h in prefix] if prefix else '')}
                try:
                    t = pr.render(name, S, [0, 1, 2, 3], [b'/p'], prefix=prefix)
                    o['shown'] = NAME_RE.findall(tokenize(t)[1][pi])
                except Exception as ex:
                    o['shown'] = []
                    o['err'] = type(ex).__name__
                obs.append(o)
    # the flag word next to constants the decoder's own code mentions (mined from the working tree), planted into
    # the OTHER words of the record: which word holds the flags must not depend on their values
    from .pairing import AUDIT
    planted = 0
    for fam, vias in sorted(VIA_TEXT.items()):
        ws = words_of(fam, rnd, True)
        for name, si, pi in vias:
            ok = mine.audit_allowed(AUDIT[name], skip=(si, 4))
            base = lambda: list(pr.w.words(name, 'start')) + [0, 1, 2, 3]      # noqa
            for vec, pl in mine.plant_vectors(name, base, ok, rnd, budget=15 if ctx.quick else 150,
                                              max_singles=200 if ctx.quick else 1200):
                for w in [0, ws[-1]] + rnd.sample(ws, 2 if ctx.quick else 6):
                    S = list(vec[:4])
                    S[si] = w
                    planted += 1
                    o = {'id': '%s/%s/%x/planted%d' % (fam, name, w, planted), 'kind': 'flags', 'fam': fam,
                         'bits': [i for i in range(32) if w >> i & 1], 'via': '%s START %s' % (name, [hex(x) for x in S])}
                    try:
                        t = pr.render(name, S, list(vec[4:]), [b'/p'])
                        tk = tokenize(t)
                        o['shown'] = NAME_RE.findall(tk[1][pi]) if tk and len(tk[1]) > pi else ['<no such parameter>']
                    except Exception as ex:
                        o['shown'] = []
                        o['err'] = type(ex).__name__
                    obs.append(o)
    ctx.extra['planted_flag_renderings'] = planted
    # the same families through the renderings of the events that carry them
    for fam, sites in VIA_EVENT.items():
        d = FAM[fam]
        declared = sum(d['single'].values())
        words = [w for w in words_of(fam, rnd, True) if w < (1 << 32)][:600 if ctx.quick else 5000]
        for name, src, wi, shift in sites:
            for w in words:
                if fam == 'vmprot':
                    w &= 0xff
                if fam == 'kperfti':
                    w &= 0xffff
                S = [3, 4, 5, 6]
                E = [0, 1, 2, 3]
                base = AUDIT[name]['base']
                S, E = list(base[:4]), list(base[4:])
                tgt = S if src == 'S' else E
                tgt[wi] = (tgt[wi] & ~(0xffffffff << shift) & ((1 << 64) - 1)) | (w << shift) if shift else w
                if fam == 'vmprot':
                    tgt[wi] = (w << 8) | 2            # low byte = fault type, must stay a defined one
                o = {'id': '%s/%s/%x' % (fam, name, w), 'kind': 'flags', 'fam': fam,
                     'bits': [i for i in range(32) if w >> i & 1], 'via': name}
                try:
                    t = pr.render(name, S, E, [])
                    o['shown'] = [n for n in NAME_RE.findall(t) if n.startswith(PREFIX[fam])]
                except Exception as ex:
                    o['shown'] = []
                    o['err'] = type(ex).__name__
                obs.append(o)
    # the protection of a page fault is the one of ITS OWN first decoded real-fault record - not of a record left over
    # by an earlier fault of the thread (failed, cut off at the start of the dump, or outside any fault)
    from .pairing import World, new_parser
    nfault = 0
    for rep in range(60 if ctx.quick else 1000):
        w = World(rnd)
        pa, pb = rnd.randrange(0, 8), rnd.randrange(0, 8)
        kind = rep % 5
        left = [[w.rfa(1, 90, pa, kind=rnd.randrange(3))],                                        # outside any fault
                [w.vmf(1, 1), w.rfa(1, 90, pa, kind=rnd.randrange(3)), w.vmf(2, 1, 5, 1)],       # a failed fault
                [w.rfa(1, 90, pa, kind=rnd.randrange(3)), w.vmf(2, 1, 0, 1)]][rep % 3]           # dump starts inside a fault
        if kind == 0:
            body, want = [w.vmf(1, 1), w.rfau(1), w.vmf(2, 1, 0, 2)], None              # only an undecoded kind nested
        elif kind == 1:
            body, want = [w.vmf(1, 1), w.vmf(2, 1, 0, 2)], None                         # nothing nested
        elif kind == 2:
            body, want = [w.vmf(1, 1), w.rfa(1, 91, pb, kind=rnd.randrange(3)), w.vmf(2, 1, 0, 2)], pb
        elif kind == 3:
            body, want = [w.vmf(1, 1), w.rfa(1, 91, pb), w.rfa(1, 92, pa ^ 7), w.vmf(2, 1, 0, 2)], pb     # the first one
        else:
            body, want = [w.vmf(1, 1), w.rfau(1), w.rfa(1, 91, pb), w.vmf(2, 1, 0, 2)], None     # undecoded kind first: nothing shown
        stream = left + body
        o = {'id': 'vmprot/fault-after-history/%d' % rep, 'kind': 'flags', 'fam': 'vmprot',
             'bits': [] if want is None else [i for i in range(8) if want >> i & 1],
             'via': 'MACH_vmfault after %s, nested %s' % ([a.abs['cls'] for a in left], [a.abs['cls'] for a in body[1:-1]])}
        try:
            p_ = new_parser(w)
            last = None
            for k, a in enumerate(stream, 1):
                r = p_.feed(w.concrete(a, k))
                if r is not None:
                    last = r
            o['shown'] = [n for n in NAME_RE.findall(str(last)) if n.startswith('VM_PROT_')] if want is not None or True else []
            if want is None and 'vm_prot' not in str(last):
                o['shown'] = []
        except Exception as ex:
            o['shown'] = []
            o['err'] = type(ex).__name__
        nfault += 1
        obs.append(o)
    ctx.extra['faults_after_history'] = nfault
    # ioctl request words: every field exhaustively against representative values of the others
    # (a rendering may put the request's NAME in front: "/* FIONREAD = _IOC(...) */")
    IOC = re.compile(r"/\* (?:(\w+) = )?_IOC\((.*?), '(.|\n)', (\d+), (\d+)\) \*/", re.S)
    reqs = set()
    dirs = [1, 2, 4, 6, 7]
    for d in dirs:
        for ln in (list(range(0, 8192)) if not ctx.quick else list(range(0, 8192, 17)) + [4095, 4096, 4097, 8191]):
            reqs.add((d, ln, 0x66, 1))
        for g in range(256):
            reqs.add((d, 8, g, 3))
            reqs.add((d, 4100, g, 200))
        for n in range(256):
            reqs.add((d, 0, 0x74, n))
    for _ in range(500 if ctx.quick else 20000):
        reqs.add((rnd.choice(dirs), rnd.randrange(8192), rnd.randrange(256), rnd.randrange(256)))
    for num in (1, 2, 122, 123, 124, 125, 126, 127):          # sys/filio.h requests under every direction and length 0 / 4
        for d in dirs:
            for ln in (0, 4):
                reqs.add((d, ln, 0x66, num))
    for d, ln, g, n in sorted(reqs):
        req = (d << 29) | (ln << 16) | (g << 8) | n
        o = {'id': 'ioctl/%08x' % req, 'kind': 'ioctl', 'd': d, 'len': ln, 'group': g, 'num': n}
        try:
            t = pr.render('BSC_ioctl', [3, req, 5, 6], [0, 1, 2, 3], [])
            m = IOC.search(t)
            o['sh'] = {'ok': True, 'name': m.group(1) or '', 'params': m.group(2), 'group': ord(m.group(3)), 'num': int(m.group(4)),
                       'len': int(m.group(5))}
        except Exception as ex:
            o['sh'] = {'ok': False, 'params': type(ex).__name__, 'group': -1, 'num': -1, 'len': -1}
        obs.append(o)
    from .render import report_unstable
    report_unstable(ctx, pr)
    nv, rej, _ = validate_observations('Flags_Val', obs, ctx.workdir, name='c11val', timeout=3000)
    ctx.traces += nv
    by = {o['id']: o for o in obs}
    for oid, clause in rej:
        o = by[oid]
        if o['kind'] == 'flags':
            exp_missing = [n for n, v in FAM[o['fam']]['single'].items() if (v.bit_length() - 1) in o['bits'] and n not in o['shown']]
            sig = 'C11/%s/%s%s' % (clause, o['fam'], ('/' + exp_missing[0]) if exp_missing and 'not-shown' in clause else '')
            if clause.endswith('not-shown') and not exp_missing:
                sig = 'C11/%s/%s/multi-bit-field' % (clause, o['fam'])
            ctx.violation(sig, 'family %s word %s via %s shows %s: %s' % (o['fam'], hex(sum(1 << b for b in o['bits'])), o['via'], o['shown'], clause),
                          {'kind': 'flags', 'obs': o})
        else:
            ctx.violation('C11/ioctl/%s' % clause, 'ioctl request %s (dir %d, len %d, group %d, num %d) shows %s'
                          % (oid, o['d'], o['len'], o['group'], o['num'], o['sh']), {'kind': 'flags', 'obs': o})
    ctx.sample({'obs': obs[100]})
    ctx.extra['code_to_spec'] = {'words_evaluated': nv, 'families': sorted(FAM), 'ioctl_words': len(reqs)}
    ctx.assumptions += ['access mode 3 and file-type values the headers do not define: rendering not pinned',
                        'ioctl direction bits other than VOID / OUT / IN / INOUT / DIRMASK: not generated (undefined)',
                        'not all 2^32 ioctl words: each of the four fields exhaustively against representatives of the others']


def replay(ctx, path):
    rp = json.load(open(path))['replay']
    print(json.dumps(rp, indent=1))
    return 0
