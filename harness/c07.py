"""C07 - missing or unexpected context never aborts the trace stream.
 (1) TLC Context_MC: every history (<= MaxLen) over consumers of context and their providers - the state space is
     the set of omissions / repetitions / nestings; the mechanism must be total (no TLC evaluation error) and obey
     the omit rule.
 (2) code -> spec: (a) every registered decoder alone (no context at all) in every qualifier shape, in-domain
     arguments from the frozen audit; (b) consumers x provider subsets (full mode: missing piece = empty field);
     (c) seeded noisy streams and every dropped prefix of them; (d) the same streams through
     PyKdebugParser.formatted_traces on a v2 file (colour on and off).  Any exception is a divergence: the spec has
     no error state."""
import io
import random

from . import gen, mine
from .encode import encode_v2, kd_buf
from .pairing import World, validate_streams, AUDIT, describe
from .tlc import run_tlc
from .c04 import replay  # noqa

CFG = '''SPECIFICATION Spec
CONSTANTS MaxLen = %d
 Tids = {%s}
 Alphabet = {%s}
 Variant = "ok"
INVARIANT OmitRule
INVARIANT TablesOnlyFromProviders
CHECK_DEADLOCK FALSE
'''
PATHS = '"S1s","S1e","S2s","S2e","SPs","SPe","RAs","RAe","LAs","LAe","SLs","SLe","FSs","FSe","LK","LKs","LKn","LKe","K"'
STRINGS = '"NTD","NTS","EXD","EXS","GS","GSn","U5","U9","U0","U5s","U5e","TERM","TN","TNn","K"'
COMPOS = '"VS","VE","RFA","RFAU","PS","PE","THD","H2","D","K"'


def pipeline_run(ctx, w, stream, oid):
    """the same events through the public pipeline on a v2 file"""
    from pykdebugparser.pykdebugparser import PyKdebugParser
    recs = []
    for k, a in enumerate(stream, 1):
        import struct
        data = a.data if a.data is not None else struct.pack('<QQQQ', *[x & ((1 << 64) - 1) for x in a.words])
        recs.append(kd_buf(1000 + 10 * k, tid=a.ctid, debugid=a.debugid, data=data))
    blob, _ = encode_v2([(w.ctid(1), 11, b'proc')], 0, recs)
    for color in (False, True):
        p = PyKdebugParser()
        p.color = color
        try:
            n = sum(1 for _ in p.formatted_traces(io.BytesIO(blob), w.codes))
        except Exception as ex:
            ctx.violation('C07/pipeline-raised@%s' % type(ex).__name__,
                          'formatted_traces(color=%s) raised %r on stream %s' % (color, ex, oid),
                          {'kind': 'code->spec', 'stream': describe(w, stream)})
            return 0
    return n


def run(ctx):
    rnd = random.Random(ctx.seed)
    # trace listings of one object read alternately with other requests (spec/Sessions.tla): records whose context another
    # request wiped in between are "missing context" too - nothing may raise
    from . import sessions
    from . import c13 as _c13
    for i_ in range(2):
        sessions.run_sessions(ctx, random.Random(ctx.seed * 2 + 31 + i_), 200 if ctx.quick else 3000, ('tr', 'tr', 'kev', 'cs'),
                              lambda r, world=None: _c13.gen_dump(r, world=world, orphans=0.2, samples=0.1, learn=0.35),
                              sessions.cfg_light, 'ses%d_' % i_,
                              scenarios=['interleave', 'interleave', 'interleave', 'random', 'peek', 'abandon'])
    # which decoder serves a record is a function of the fed object's OWN code table (spec/Dispatch_MC.tla): design
    # model-checked with its misplaced-memo variants, behaviours replayed on real parser and dict objects
    from . import dispatch
    dispatch.model_check(ctx, ['memoOnClass'])
    dispatch.run(ctx)
    d = 4 if ctx.quick else 5
    ctx.expect_ok(run_tlc('Context_MC', CFG % (d, '1', PATHS), ctx.workdir, name='ctx_paths_d%d' % d, timeout=7200))
    ctx.expect_ok(run_tlc('Context_MC', CFG % (d + 1 if ctx.quick else 6, '1', STRINGS), ctx.workdir,
                          name='ctx_strings', timeout=7200))
    ctx.expect_ok(run_tlc('Context_MC', CFG % (5 if ctx.quick else 6, '1', COMPOS), ctx.workdir, name='ctx_composite',
                          timeout=7200))
    ctx.expect_ok(run_tlc('Context_MC', CFG % (4, '1, 2', '"NTD","NTS","EXD","EXS","LK","S1s","S1e","TERM"'),
                          ctx.workdir, name='ctx_two_threads', timeout=7200))
    # ---- (a) every decoder alone
    win_cases, full_cases = [], []
    names = sorted(n for n, a in AUDIT.items() if a.get('cls'))
    reps = 2 if ctx.quick else 12
    for name in names:
        a = AUDIT[name]
        cls = a['cls']
        for rep in range(reps):
            w = World(rnd, ts='any')
            g = gen.ProgGen(w, rnd)
            if cls in ('SYS0', 'SYS1', 'SYS2', 'SPAWN', 'RENAMEAT', 'LINKAT', 'SYMLINKAT', 'FSSNAP'):
                mk = lambda q, t=1: w.sys(name, q, t)
            elif cls == 'USESTR':
                sid = rnd.choice([0, 5, 77])
                if sid == 0 and name in ('DBG_DYLD_TIMING_DLOPEN_PREFLIGHT', 'DBG_DYLD_TIMING_DLSYM'):
                    sid = 77
                mk = lambda q, t=1, sid=sid: w.usestr(name, q, t, sid)
            else:
                mk = None
            if mk is not None:
                shapes = [[mk(1), mk(2)], [mk(0)], [mk(3)], [mk(2)], [mk(1)], [mk(1), mk(1), mk(2), mk(2)],
                          [mk(1), mk(0), mk(3), mk(2)], [mk(1, 1), mk(1, 2), mk(2, 1), mk(2, 2)]]
                for si, sh in enumerate(shapes):
                    win_cases.append(('alone_%s_%d_%d' % (name, rep, si), w, sh))
            else:
                # class-specific constructors: one program item in isolation, then with noise
                stream = {
                    'LKP': lambda: w.lookup(1, g.text()), 'GSTR': lambda: w.gstr(1, g.text(maxlen=100), 9),
                    'TNAME': lambda: w.tname(1, g.text(maxlen=90)), 'TNAMEP': lambda: w.tname(1, g.text(maxlen=90), True),
                    'NTD': lambda: [w.ntd(1, 2, 5)], 'EXD': lambda: [w.exd(1, 5)], 'NTS': lambda: [w.nts(1, 'lonely')],
                    'EXS': lambda: [w.exs(1, 'lonely')], 'PEXIT': lambda: [w.pexit(1, 'bye')],
                    'TERM': lambda: [w.term(1, 3)], 'TPID': lambda: [w.tpid(1, 9)],
                    'RFA': lambda: [w.rfa(1, 5, 3, kind=AUDIT_RFA.index(name))],
                    'VMF': lambda: [w.vmf(1, 1), w.rfau(1), w.rfa(1, 4, 1), w.vmf(2, 1, 0, 2)],
                    'MAPA': lambda: [w.img(1, 3, 4)], 'SCA': lambda: [w.img(1, 3, 4, True)],
                    'LAUNCH': lambda: [w.launch(1, 1), w.launch(2, 1)],
                    'PERF': lambda: [w.perf(1, 1, True, True), w.perf(2, 1)], 'THD': lambda: [w.thd(1, 5, 1)],
                    'UHDR': lambda: [w.uhdr(1, 7)], 'UDATA': lambda: [w.udata(1, [1, 2, 3, 4])],
                }[cls]()
                full_cases.append(('alone_%s_%d' % (name, rep), w, stream))
                # a window of ONE record (NONE / ALL qualified) and START-only / END-only of the composite openers
                if cls in ('VMF', 'LAUNCH', 'PERF'):
                    for q in (0, 3, 1, 2):
                        one = {'VMF': lambda: w.vmf(q, 1, rnd.choice([0, 0, 2]), rnd.randrange(1, 12)),
                               'LAUNCH': lambda: w.launch(q, 1),
                               'PERF': lambda: w.perf(q, 1, rnd.random() < 0.5, rnd.random() < 0.5)}[cls]()
                        full_cases.append(('alone_%s_%d_q%d' % (name, rep, q), w, [one]))
                        full_cases.append(('alone_%s_%d_q%d_nested' % (name, rep, q), w, [w.rfa(1, 4, 3), one, w.thd(1, 5, 1)]))
                # every proper suffix: the dump starts in the middle of the operation
                for cut in range(1, len(stream)):
                    win_cases.append(('alone_%s_%d_cut%d' % (name, rep, cut), w, stream[cut:]))
    # ---- (b) consumers x providers
    for i in range(200 if ctx.quick else 3000):
        w = World(rnd, ts='any')
        g = gen.ProgGen(w, rnd, noise=0.0)
        t = 1
        kind = i % 5
        if kind == 0:      # page fault x nested records of every kind in every order
            inner = []
            for _ in range(rnd.randrange(0, 4)):
                inner.append(w.rfau(t) if rnd.random() < 0.5 else w.rfa(t, rnd.choice([3, 4]), rnd.choice([1, 3, 7]),
                                                                        kind=rnd.randrange(3)))
                if rnd.random() < 0.3:
                    inner += g.ord_single(t)
            stream = [w.vmf(1, t)] + inner + [w.vmf(2, t, rnd.choice([0, 0, 1]), rnd.randrange(1, 12))]
        elif kind == 1:    # string id users with / without the announcement, before / after it
            ann = w.gstr(t, g.text(maxlen=80), 5)
            use = g.use_string(t) + [w.usestr(g.pick('USESTR'), 3, t, 5)]
            stream = rnd.choice([use, ann + use, use + ann + use, ann[1:] + use])
        elif kind == 2:    # new-thread / exec strings with and without data record, other thread's data record
            stream = rnd.choice([[w.nts(1, 'a')], [w.ntd(2, 3, 7), w.nts(1, 'b')], [w.exs(1, 'c')],
                                 [w.exd(2, 7), w.exs(1, 'd')], [w.ntd(1, 3, 7), w.exs(1, 'e'), w.nts(1, 'f')],
                                 [w.term(1, 9), w.tpid(1, 3), w.term(2, 1)]])
        elif kind == 3:    # sampler with any subset of its nested records
            stream = g.composite(t) + g.composite(t)
        else:              # path takers with 0..7 lookups, truncated lookups
            name = g.pick(rnd.choice(['SYS1', 'SYS2', 'SPAWN', 'RENAMEAT', 'LINKAT', 'SYMLINKAT', 'FSSNAP']))
            body = g.lookups(t, rnd.choice([0, 0, 1, 2, 5, 6, 7]))
            stream = [w.sys(name, 1, t)] + body + [w.sys(name, 2, t)]
        full_cases.append(('ctx%d' % i, w, stream))
    # ---- (c) noisy streams and all their dropped prefixes
    pipeline_traces = 0
    for i in range(150 if ctx.quick else 3000):
        w = World(rnd, ts='any')
        g = gen.ProgGen(w, rnd, ntids=3, noise=0.3)
        progs = [g.program(t, rnd.randrange(1, 4)) for t in (1, 2, 3)]
        stream = gen.interleave(rnd, progs)[:50]
        win_cases.append(('noisy%d' % i, w, stream))
        if i % 3 == 0:
            for cut in range(1, len(stream), 1 if not ctx.quick else 3):
                win_cases.append(('noisy%d_drop%d' % (i, cut), w, stream[cut:]))
        if i % (5 if ctx.quick else 2) == 0:
            pipeline_traces += pipeline_run(ctx, w, stream, 'noisy%d' % i)
    # ---- (e) constants the decoder's own code mentions (mined from the working tree) in its START / END words, the
    # operation with and without its lookups (absolute, relative, empty path), whole and as a single record
    planted = 0
    for name in names:
        if AUDIT[name]['cls'] not in ('SYS0', 'SYS1', 'SYS2', 'SPAWN', 'RENAMEAT', 'LINKAT', 'SYMLINKAT', 'FSSNAP'):
            continue
        w = World(rnd, ts='any')
        ok = mine.audit_allowed(AUDIT[name])
        base = lambda: tuple(w.words(name, 'start')) + tuple(w.words(name, 'end'))      # noqa
        for vec, pl in mine.plant_vectors(name, base, ok, rnd, budget=12 if ctx.quick else 120,
                                          max_singles=150 if ctx.quick else 1200):
            S, E = tuple(vec[:4]), tuple(vec[4:])
            for shape in ((0, 1, 2, 3) if len(pl) == 1 else ((planted + 1) % 4,)):
              planted += 1
              if shape == 0:
                  st = [w.sys(name, 1, 1, S), w.sys(name, 2, 1, E)]
              elif shape == 1:
                  st = [w.sys(name, 1, 1, S)] + w.lookup(1, rnd.choice([b'rel/path', b'/abs/path', b'x', b''])) + [w.sys(name, 2, 1, E)]
              elif shape == 2:
                  st = [w.sys(name, 1, 1, S)] + w.lookup(1, b'/a/b') + w.lookup(1, b'c/d') + [w.sys(name, 2, 1, E)]
              else:
                  # ONE record is both START and END word source: the planted words must be in both domains
                  one = list(w.words(name, 'single'))
                  for pos, wv in pl:
                      if ok(pos % 4, wv) and ok(pos % 4 + 4, wv):
                          one[pos % 4] = wv
                  st = [w.sys(name, rnd.choice([0, 3]), 1, tuple(one))]
              win_cases.append(('planted_%s_%d' % (name, planted), w, st))
    ctx.extra['planted_cases'] = planted
    # SCALE: an operation whose START and END are as many records apart as a size-like constant of the parser's sources
    # suggests: nothing raises (that the trace comes out with its whole window is C04's statement, checked there)
    from .pairing import long_windows
    long_windows(ctx, 'C07', report_lost=False, report_raised=True)
    # C07 pins: nothing raises, a missing piece is an empty / omitted FIELD.  Which traces appear and what their windows hold
    # is C04's statement (Pairing_Val sees those deviations too; they are left to C04's check)
    own = lambda cl, cls: cl in ('raised', 'fields', 'shape')
    validate_streams(ctx, win_cases, 'win', 'c07win', own=own)
    validate_streams(ctx, full_cases, 'full', 'c07full', own=own)
    ctx.sample({'case': win_cases[0][0], 'events': [a.abs for a in win_cases[0][2]]})
    ctx.extra['code_to_spec'] = {'decoders_alone': len(names), 'window_mode_cases': len(win_cases),
                                 'full_mode_cases': len(full_cases), 'pipeline_traces_rendered': pipeline_traces}
    ctx.assumptions += ['"individually in-domain" = the frozen audit of accepted argument values per decoder and word '
                        '(harness/audit.json), host-typed enums restricted to values valid on Linux and Darwin',
                        'strings are valid UTF-8']


AUDIT_RFA = ['RealFaultAddressInternal', 'RealFaultAddressExternal', 'RealFaultAddressSharedCache']
