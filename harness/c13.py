"""C13 - trace filters commute with decoding and leave no residue in the parser.
 (1) TLC Pipeline_MC: every dump (<= MaxEvs templates on 2 threads) x every filter configuration: MechEqRef (the
     mechanism - pre-filter with helper classes, decode, post-filters - selects exactly what the property's
     reference selects from the unfiltered run), RepeatSame, SettingsKept, HelpersNotReported,
     CallstacksRepeatSame.  Negative controls: the four designs of the pinned tree (caller's list mutated,
     thread filter before decoding, no PERF helper class, image table kept between requests).
 (2) code -> spec: seeded dumps (BSD syscalls with lookups, parent-written new-thread records, sampler thread-info,
     global strings used by another thread, samples with images) x filter configurations x histories of 1..3
     requests (traces / callstacks / kevents, option changes in between, lists and tuples) on ONE PyKdebugParser;
     selection, order, process column and settings validated by Pipeline_Val in TLC; the text of every reported
     trace is compared with the same trace of an unfiltered run of the code."""
import io
import json
import random

from . import gen
from .pairing import World, describe
from .pipeline import Dump, apply_cfg, request
from .tlc import run_tlc, validate_observations

MC_CFG = '''SPECIFICATION Spec
CONSTANTS MaxEvs = %d
 Templates = {%s}
 FTids = {%s}
 FProcs <- %s
 FClasses <- %s
 FSubs <- %s
 Variant = "ok"
 PVariant = "%s"
%s
CHECK_DEADLOCK FALSE
'''
T7 = '"Bs","Be","LK","NTDo","NTS","THD","M"'
INV_ALL = '''INVARIANT MechEqRef
INVARIANT RepeatSame
INVARIANT KeventsExact
INVARIANT HelpersNotReported
PROPERTY SettingsKept'''
VAL_CONSTS = 'CONSTANTS Variant = "ok"\n PVariant = "ok"\n'

CLASS_LISTS = [[], [4], [3, 4], [4, 4], [7], [1], [37], [31], [4, 7, 3], [7, 37]]
SUB_LISTS = [[], [0x40c], [0x40c, 0x40e], [0x401]]      # BSD subclasses only (the scope of the statement)


def gen_ubd_dump(r2, world=None, sid=None):
    """USE BEFORE DEFINITION: records whose text reads what LATER records of the same dump teach (a terminate record about a
    thread that names itself afterwards, a string used before it is announced, an END whose START comes last)"""
    w = world or World(r2, big_tids=False, allow_zero_tid=False)
    g2 = gen.ProgGen(w, r2, ntids=3, noise=0.0)
    a, b = r2.sample([1, 2, 3], 2)
    sid = r2.randrange(60, 90) if sid is None else sid
    name = g2.pick('SYS1')
    if not name.startswith('BSC_'):
        name = 'BSC_open'
    early = [[w.term(a, b)], [w.usestr(g2.pick('USESTR'), 3, a, sid)], [w.sys(name, 2, b)], [w.term(b, b)]]
    late = [w.tname(b, r2.choice([b'worker', b'main thread', b'a' * 40])), w.gstr(b, b'/late/string', sid), [w.sys(name, 1, b)],
            w.tname(a, b'other', prev=r2.random() < 0.5)]
    r2.shuffle(early)
    r2.shuffle(late)
    mid = [g2.ord_single(r2.randrange(1, 4)) for _ in range(r2.randrange(0, 3))]
    stream = [e for it in early + mid + late for e in it]
    dump = Dump(w, stream, [(1, 11, 'alpha'), (2, 12, 'beta'), (3, 13, 'gamma')])
    dump.ubd = (a, b)
    return w, dump


def gen_dump(rnd, big=False, allow_zero_tid=True, residue_case=False, world=None, orphans=0.0, samples=0.0, learn=0.0, logs=False, declared_terminate=False, remap_in_sample=False, foreign_decl=False):
    w = world or World(rnd, big_tids=False, allow_zero_tid=allow_zero_tid)
    g = gen.ProgGen(w, rnd, ntids=3, noise=0.02)
    pids = {1: 11, 2: 12, 3: rnd.choice([13, 0])}
    # a process NAME may consist of digits and coincide with another process's pid
    names = {11: rnd.choice(['alpha', 'alpha', '12']), 12: 'beta', 13: rnd.choice(['gamma', '2048']), 14: 'delta', 0: 'kernel_task'}
    items = []
    # parent threads announce other threads; strings announced on one thread are used on another
    for _ in range(rnd.randrange(3, 8 if not big else 16)):
        t = rnd.randrange(1, 4)
        o = rnd.choice([x for x in (1, 2, 3, 4) if x != t])
        r = rnd.random()
        if learn and rnd.random() < learn:
            # a parent announces another thread: data record, (other records,) string record
            items.append([w.ntd(t, o, rnd.choice([11, 12, 14, 0]))] + (g.ord_single(t) if rnd.random() < 0.5 else []) + [w.nts(t, rnd.choice(['alpha', 'delta', 'newp']))])
            continue
        if orphans and rnd.random() < orphans:
            # halves of the two-record announcements on their own: a string record whose data record is not in THIS dump
            # (it must learn nothing), a data record whose string never comes
            items.append([rnd.choice([lambda: w.nts(t, rnd.choice(['alpha', 'stray', 'newp'])),
                                      lambda: w.exs(t, rnd.choice(['beta', 'stray2'])),
                                      lambda: w.ntd(t, o, rnd.choice([11, 12, 14])),
                                      lambda: w.exd(t, rnd.choice([11, 13, 14]))])()])
            continue
        if samples and rnd.random() < samples:
            fr = [rnd.randrange(0, 9) for _ in range(4)]
            items.append(rnd.choice([lambda: [w.img(t, rnd.randrange(0, 8), rnd.randrange(1, 6))],
                                     lambda: [w.perf(1, t, ti=False, us=True), w.uhdr(t, 4), w.udata(t, fr), w.perf(2, t, us=True)]])())
            continue
        if r < 0.3:
            name = g.pick(rnd.choice(['SYS1', 'SYS1', 'SYS0', 'SYS2']))
            if not name.startswith('BSC_'):
                name = 'BSC_open'
            items.append([w.sys(name, 1, t)] + g.lookups(t, rnd.choice([0, 1, 2])) + [w.sys(name, 2, t)])
        elif r < 0.45:
            items.append([w.ntd(t, o, rnd.choice([11, 12, 14, 0])), w.nts(t, rnd.choice(['alpha', 'delta', 'newp', '14', '2048']))])
        elif r < 0.55:
            items.append([w.thd(t, rnd.choice([12, 14]), rnd.choice([t, o]))])
        elif r < 0.65:
            sid = 50 + len(items)
            items.append(w.gstr(t, g.text(maxlen=60) or b'/lib', sid))
            items.append([w.usestr(g.pick('USESTR'), 3, o if o < 4 else t, sid)])
        elif r < 0.72:
            items.append([w.term(t, o), w.tpid(t, rnd.choice([11, 14]))])
        elif r < 0.8:
            items.append(g.ord_single(t))
        elif r < 0.9:
            items.append([w.img(t, rnd.randrange(0, 8), rnd.randrange(1, 6))])
        else:
            fr = [rnd.randrange(0, 9) for _ in range(4)]
            # (a sampler may describe ANOTHER thread than the one that writes the sample: profile-every-thread style)
            items.append([w.perf(1, t, ti=rnd.random() < 0.5, us=True), w.uhdr(t, 3), w.udata(t, fr),
                          w.thd(t, 12, rnd.choice([t, t, o])), w.perf(2, t, us=True)])
    rnd.shuffle(items)
    if remap_in_sample:
        # INSIDE a sampler window of thread t (after its thread-info record) another thread re-announces t with another
        # process; the sample's END re-asserts the sampler's mapping (unfiltered run) - later records of t show it
        t, o = rnd.sample([1, 2, 3], 2)
        fr = [rnd.randrange(0, 9) for _ in range(4)]
        items = [[w.perf(1, t, ti=True, us=True), w.uhdr(t, 3), w.udata(t, fr), w.thd(t, 12, t), w.ntd(o, t, 14), w.nts(o, 'remapped'),
                  w.perf(2, t, ti=True, us=True)], [w.sys('BSC_getpid', 0, t)], [w.term(o, t)], [w.sys('BSC_getpid', 3, t)]] + items
    hint = None
    if foreign_decl:
        # thread o is NOT in the thread map; the only record that declares its process is a sampler thread-info record written
        # by ANOTHER thread t (profile-every-thread style, class PERF); then o works.  A listing restricted to thread o (and to
        # that process) still knows the process: the records of every thread are read whatever the thread filter
        t, o = rnd.sample([1, 2, 3], 2)
        items = [[w.thd(t, 14, o)], g.ord_single(o), [w.sys('BSC_getpid', 0, o)], g.ord_single(t), [w.sys('BSC_getpid', 3, o)]] + items
        hint = {'tid': o, 'pid': 14}
    if declared_terminate:
        # a sampler thread-info record (helper class PERF) declares thread 3's process; later a record of another thread NAMES
        # thread 3 (its text reads the table)
        items += [[w.thd(1, 14, 3)], g.ord_single(2), [w.term(2, 3)], g.ord_single(3)]
    if residue_case:      # a sample BEFORE the image that covers its frames is announced, then the announcement, then a sample
        t = rnd.randrange(1, 4)
        fr = [rnd.randrange(2, 9) for _ in range(4)]
        smp = lambda: [w.perf(1, t, ti=False, us=True), w.uhdr(t, 4), w.udata(t, fr), w.perf(2, t, us=True)]
        items = [smp(), [w.img(t, rnd.randrange(0, 3), rnd.randrange(1, 6))], smp()] + items
    stream = [e for it in items for e in it]
    if not residue_case and not declared_terminate and not remap_in_sample and not foreign_decl and rnd.random() < 0.5:
        # the per-CPU buffers merged: every thread's records keep their order, records of OTHER threads fall inside its
        # windows (a parent's announcement inside a sampler window of the announced thread ...)
        per = {}
        for it in items:
            if it:
                per.setdefault(it[0].abs['tid'], []).extend(it)
        stream = gen.interleave(rnd, list(per.values()), burst=rnd.choice([1, 2, 4]))
    # DOMAIN: a string record names the data record that precedes it on its thread.  A SECOND string record for the same data
    # record (the kernel never writes one) is outside what the statements pin - renaming the process again or ignoring it are
    # both defensible - such records are not generated.  (A string record with NO data record in this dump stays: it must
    # learn nothing.)
    slot, kept = {}, []
    for e in stream:
        c, t_ = e.abs['cls'], e.abs['tid']
        if c in ('NTD', 'EXD'):
            slot[(t_, c[:2])] = 'fresh'
        elif c in ('NTS', 'EXS'):
            if slot.get((t_, c[:2])) == 'used':
                continue
            if slot.get((t_, c[:2])) == 'fresh':
                slot[(t_, c[:2])] = 'used'
        kept.append(e)
    stream = kept
    tmap = [(t, pids[t], names[pids[t]]) for t in rnd.sample([1, 2, 3], rnd.randrange(0, 4)) if not (hint and t == hint['tid'])]
    if logs:
        # a version-3 dump with log records (thread 0 = no thread; a record naming a process and a thread extends the tables)
        lg = [(rnd.choice([0, 1, 2, 3, 5]), rnd.choice([11, 12, 14, 0, 44]), rnd.choice(['alpha', 'beta', '', 'kernel_task', 'logger', '12']))
              for _ in range(rnd.randrange(0, 7))]
        return w, Dump(w, stream, tmap, lg, nchunks=rnd.choice([1, 2, 3]))
    d_ = Dump(w, stream, tmap)
    d_.hint = hint
    return w, d_


def gen_cfg(rnd):
    return {'ftid': rnd.choice([0, 0, 1, 2, 3, 9]),
            'fproc': rnd.choice([{'kind': 'none'}, {'kind': 'none'}, {'kind': 'pid', 'pid': rnd.choice([11, 12, 14, 0])},
                                 {'kind': 'name', 'name': rnd.choice(['alpha', 'beta', 'delta', 'newp', '', '12', '14', '2048', '014'])}]),
            'fclass': list(rnd.choice(CLASS_LISTS)), 'fsub': list(rnd.choice(SUB_LISTS))}


def run(ctx):
    from pykdebugparser.pykdebugparser import PyKdebugParser
    rnd = random.Random(ctx.seed)
    # generator-grain sessions on one object (spec/Sessions.tla): listings read alternately, abandoned half way, options
    # edited in place between requests; every next() validated by Sessions_Val, design model-checked by Sessions_MC
    from . import sessions
    sessions.model_check(ctx)
    for i_ in range(2):
        sessions.run_sessions(ctx, random.Random(ctx.seed * 2 + 77 + i_), 120 if ctx.quick else 2500, ('kev', 'fkev', 'tr', 'cs'),
                              lambda r, world=None: gen_dump(r, world=world, orphans=0.2, samples=0.2),
                              gen_cfg if i_ % 2 else sessions.cfg_light, 'ses%d_' % i_)
    if ctx.quick:
        ctx.expect_ok(run_tlc('Pipeline_MC', MC_CFG % (2, T7, '0, 1', 'FProcAll', 'FClassAll', 'FSubAll', 'ok', INV_ALL),
                              ctx.workdir, name='pipe_d2', timeout=3000))
        ctx.expect_ok(run_tlc('Pipeline_MC', MC_CFG % (3, '"Bs","Be","LK","NTDo","THD"', '0, 1', 'FProcAll',
                                                       'FClassSmall', 'FClassNone', 'ok', INV_ALL),
                              ctx.workdir, name='pipe_d3_small', timeout=3000))
    else:
        ctx.expect_ok(run_tlc('Pipeline_MC', MC_CFG % (3, T7, '0, 1', 'FProcAll', 'FClassAll', 'FSubAll', 'ok', INV_ALL),
                              ctx.workdir, name='pipe_d3', timeout=7200))
    ctx.expect_ok(run_tlc('Pipeline_MC', MC_CFG % (4 if ctx.quick else 5, '"PS","PE","H2","D","IMG"', '0', 'FProcNone',
                                                   'FClassNone', 'FClassNone', 'ok', 'INVARIANT CallstacksRepeatSame'),
                          ctx.workdir, name='pipe_callstacks', timeout=7200))
    for pv, what in (('mutates', "helper classes appended to the caller's list"),
                     ('tidprefilter', 'thread filter applied to events before decoding'),
                     ('noperfhelper', 'PERF class not read under a class filter')):
        ctx.expect_violation(run_tlc('Pipeline_MC', MC_CFG % (2, T7, '0, 1', 'FProcAll', 'FClassAll', 'FSubAll', pv, INV_ALL),
                                     ctx.workdir, name='neg_' + pv, timeout=3000, allow_error=True), what)
    ctx.expect_violation(run_tlc('Pipeline_MC', MC_CFG % (5, '"PS","PE","H2","D","IMG"', '0', 'FProcNone', 'FClassNone',
                                                          'FClassNone', 'imgresidue', 'INVARIANT CallstacksRepeatSame'),
                                 ctx.workdir, name='neg_imgresidue', timeout=3000, allow_error=True),
                         'image table kept between callstack requests')
    # ---- code -> spec
    obs, info = [], {}
    ncli = [0]
    ntext = 0
    for i in range(250 if ctx.quick else 5000):
        w, dump = gen_dump(rnd, big=not ctx.quick and i % 4 == 0, residue_case=(i % 10 == 5), remap_in_sample=(i % 10 == 7),
                           foreign_decl=(i % 10 == 3))
        # the unfiltered run of the code (fresh object): identity -> text
        ref = PyKdebugParser()
        base, btexts = request(w, ref, dump, 'traces')
        text_of = {(o['k'], o['first']): t for o, t in zip(base['out'], btexts)}
        p = PyKdebugParser()
        reqs = []
        cfg = gen_cfg(rnd)
        if getattr(dump, 'hint', None):
            # a thread declared only by another thread's sampler record: listed alone / by its process
            cfg = {'ftid': dump.hint['tid'], 'fproc': rnd.choice([{'kind': 'none'}, {'kind': 'pid', 'pid': dump.hint['pid']}]),
                   'fclass': [], 'fsub': []}
        same_twice = i % 5 == 0                        # the SAME request repeated on the same object
        if same_twice and i % 10 in (0, 5):
            cfg = {'ftid': 0, 'fproc': {'kind': 'none'}, 'fclass': [], 'fsub': []}
        op0 = 'callstacks' if i % 10 == 5 else rnd.choice(['traces', 'callstacks'])
        for j in range(2 if same_twice else rnd.choice([1, 2, 2, 3])):
            if j and rnd.random() < 0.4 and not same_twice:
                cfg = gen_cfg(rnd)                     # the caller changes options between requests
            apply_cfg(w, p, cfg, as_tuple=(i + j) % 3 == 0)
            for flag in ('show_timestamp', 'show_name', 'show_func_qual', 'show_tid', 'show_process', 'show_args', 'color'):
                setattr(p, flag, rnd.random() < 0.5)       # presentation options must not change WHAT is selected
            op = op0 if same_twice else rnd.choice(['traces', 'traces', 'traces', 'callstacks', 'kevents'])
            if j and not same_twice and i % 3 == 1:
                # the same parser object is pointed at ANOTHER dump: nothing of the first may leak into the listing
                _, dump2 = gen_dump(rnd, world=w)      # same world: same thread-id mapping, settings keep their meaning
                r, texts = request(w, p, dump2, op)
                r['dump'] = dump2.abstract()
                reqs.append(r)
                continue
            r, texts = request(w, p, dump, op)
            reqs.append(r)
            if op == 'traces' and 'err' not in r:
                for o, t in zip(r['out'], texts):
                    ntext += 1
                    want = text_of.get((o['k'], o['first']))
                    if want is not None and want != t:
                        ctx.violation('C13/text-differs-from-unfiltered-run',
                                      'cfg %s: trace completed by event %d reads %r, in the unfiltered run %r'
                                      % (cfg, o['k'], t, want),
                                      {'kind': 'pipeline', 'cfg': cfg, 'file_hex': dump.blob.hex(),
                                       'stream': describe(w, dump.stream)})
        if i % 5 == 4:
            # ANOTHER object of the caller lists another dump (same threads, other processes) while a listing of this object is
            # in flight: every object has its own tables - the listing reads as it reads alone
            from .pipeline import Dump as _Dump
            other = _Dump(w, list(dump.stream[:6]), [(t_, 900 + t_, 'elsewhere') for t_ in (1, 2, 3)])
            try:
                ps_ = PyKdebugParser()
                ps_.color = False
                solo_ = [str(x) for x in ps_.formatted_traces(io.BytesIO(dump.blob))]
                pa_ = PyKdebugParser()
                pa_.color = False
                it_ = iter(pa_.formatted_traces(io.BytesIO(dump.blob)))
                got_ = []
                for k_ in range(len(solo_) + 2):
                    if k_ in (1, 3):
                        pb_ = PyKdebugParser()
                        for _x in pb_.formatted_traces(io.BytesIO(other.blob)):
                            pass
                    try:
                        got_.append(str(next(it_)))
                    except StopIteration:
                        break
            except Exception as ex:
                solo_, got_ = [], ['raised %r' % ex]
            if got_ != solo_:
                d_ = next((k for k in range(max(len(got_), len(solo_))) if k >= len(got_) or k >= len(solo_) or got_[k] != solo_[k]), 0)
                ctx.violation('C13/another-object-changes-listing', 'line %d reads %r; read alone %r (another PyKdebugParser object listed another dump in between)'
                              % (d_, got_[d_] if d_ < len(got_) else None, solo_[d_] if d_ < len(solo_) else None),
                              {'kind': 'pipeline', 'cfg': {}, 'file_hex': dump.blob.hex(), 'stream': describe(w, dump.stream)})
        if i % (8 if ctx.quick else 3) == 0:      # command line == library for the same options
            from .pipeline import cli_lines, api_lines
            cmd = rnd.choice(['traces', 'traces', 'callstacks'])
            col = rnd.choice([True, False])
            st = rnd.random() < 0.5
            cnt = rnd.choice([None, 2, 1000])
            rc, got, args = cli_lines(w, dump, cmd, cfg, ctx.workdir, count=cnt, show_tid=st, color=col)
            want = api_lines(w, dump, cmd, cfg, count=cnt, show_tid=st, color=col if cmd == 'traces' else True)
            ncli[0] += 1
            if rc != 0 or got != want:
                ctx.violation('C13/cli-differs-from-library/%s' % cmd,
                              'command line `%s %s` (exit %d) printed %d lines, the library lists %d for the same options'
                              % (cmd, ' '.join(args), rc, len(got), len(want)),
                              {'kind': 'pipeline', 'cfg': cfg, 'file_hex': dump.blob.hex(), 'stream': describe(w, dump.stream)})
        oid = 'h%d' % i
        obs.append({'id': oid, 'dump': dump.abstract(), 'reqs': reqs})
        info[oid] = (w, dump, reqs)
    # ---- use BEFORE definition: a record whose text reads what a LATER record of the same dump teaches (a thread named after a
    # record about it, a string announced after its use, an END whose START is the dump's last record).  Read once, the early
    # record sees nothing; whatever the first listing learned must not be there when the request is repeated on the same object.
    # (Own random stream: the histories above stay the histories they were.)
    import random as _random
    nubd = 0
    for n_ in range(12 if ctx.quick else 120):
        r2 = _random.Random(ctx.seed * 7919 + 1000 + n_)
        w, dump = gen_ubd_dump(r2, sid=70 + n_)
        a, b = dump.ubd
        ref = PyKdebugParser()
        base, btexts = request(w, ref, dump, 'traces')
        text_of = {(o['k'], o['first']): t for o, t in zip(base['out'], btexts)}
        p = PyKdebugParser()
        cfgs = [{'ftid': 0, 'fproc': {'kind': 'none'}, 'fclass': [], 'fsub': []},
                r2.choice([{'ftid': 0, 'fproc': {'kind': 'none'}, 'fclass': [], 'fsub': []},
                           {'ftid': a, 'fproc': {'kind': 'none'}, 'fclass': [], 'fsub': []},
                           {'ftid': 0, 'fproc': {'kind': 'pid', 'pid': 10 + b}, 'fclass': [], 'fsub': []}]),
                {'ftid': 0, 'fproc': {'kind': 'none'}, 'fclass': [], 'fsub': []}]
        for j, cfg in enumerate(cfgs):
            apply_cfg(w, p, cfg)
            r, texts = request(w, p, dump, 'traces')
            nubd += 1
            got = {(o['k'], o['first']): t for o, t in zip(r.get('out', []), texts)}
            bad = None
            if 'err' in r:
                bad = 'raised %s' % r['err']
            else:
                for key, t in got.items():
                    if key not in text_of:
                        bad = 'lists a trace (first event %d, completed by event %d) the unfiltered run of a fresh object does not have' % (key[1], key[0])
                    elif text_of[key] != t:
                        bad = 'trace completed by event %d reads %r, in the run of a fresh object %r' % (key[0], t, text_of[key])
                    if bad:
                        break
                if not bad and j in (0, 2) and set(got) != set(text_of):
                    bad = 'lists %d traces, the run of a fresh object %d' % (len(got), len(text_of))
            if bad:
                ctx.violation('C13/repeat-differs/use-before-definition', 'request %d on the same object (cfg %s): %s' % (j + 1, cfg, bad),
                              {'kind': 'pipeline', 'cfg': cfg, 'request_index': j + 1, 'file_hex': dump.blob.hex(),
                               'stream': describe(w, dump.stream)})
                break
    ctx.extra['use_before_definition_requests'] = nubd
    # spec -> code for the same behaviour: TLC's schedules of Open / Advance / SetCfg (Sessions_MBT, dump set 'names') performed on a
    # real object over two use-before-definition dumps; Sessions_Val judges every next(), incl. the name a terminate record shows
    from . import sessions as _sessions
    _sessions.replay_tlc_schedules(ctx, _random.Random(ctx.seed + 77), 120 if ctx.quick else 3000, '"kev", "tr"', 'names',
                                   lambda r, world=None: gen_ubd_dump(r, world=world), 'mbtn')
    nv, rej, _ = validate_observations('Pipeline_Val', obs, ctx.workdir, name='c13val', consts=VAL_CONSTS, timeout=3000)
    ctx.traces += nv
    for oid, clause in rej:
        w, dump, reqs = info[oid]
        cl, _, at = clause.partition('@')
        r = reqs[int(at) - 1]
        if ctx.prop == 'C13' and cl.startswith('kevents'):
            continue                                   # judged by C12
        ctx.violation('%s/%s/%s' % (ctx.prop, cl, r['op']), 'history %s request %s (%s, cfg %s): %s%s'
                      % (oid, at, r['op'], r['cfg'], cl, (' ' + r['err']) if 'err' in r else ''),
                      {'kind': 'pipeline', 'request_index': int(at), 'requests': [(x['op'], x['cfg']) for x in reqs],
                       'file_hex': dump.blob.hex(), 'stream': describe(w, dump.stream)})
    ctx.sample({'dump_events': [(e['tid'], e['cls'], e['q']) for e in obs[0]['dump']['evs']][:12],
                'requests': [(r['op'], r['cfg'], len(r['out'])) for r in obs[0]['reqs']]})
    ctx.extra['code_to_spec'] = {'histories': nv, 'requests': sum(len(o['reqs']) for o in obs),
                                 'trace_texts_compared_with_unfiltered_run': ntext,
                                 'command_line_runs_compared_with_library': ncli[0]}
    ctx.assumptions += ['subclass filters outside BSD are out of the statement\'s scope (not generated for non-BSD '
                        'composites)', 'trace identity = (completing event, first event); text compared code vs code']


def replay(ctx, path):
    import io
    from pykdebugparser.pykdebugparser import PyKdebugParser
    rp = json.load(open(path))['replay']
    print(json.dumps({k: v for k, v in rp.items() if k not in ('file_hex', 'stream')}, indent=1)[:2000])
    blob = bytes.fromhex(rp['file_hex'])
    p = PyKdebugParser()
    print('unfiltered traces:')
    for t in p.traces(io.BytesIO(blob)):
        print('  ', t.ktraces[0].tid, str(t))
    return 0
