"""C18 - output is a function of the dump, not of the host operating system.
 (1) TLC Host_MC over DarwinTables.tla: the rendering takes no host parameter (HostIndependent, NamesAreDarwins for
     every error number x host pair); negative control: host-indexed tables (pinned tree) rejected at errno 11.
 (2) code -> spec: the decoders are re-imported under four host platforms - the real host, Linux tables, Darwin
     tables and a synthetic third platform - by substituting the interpreter's errno / signal / socket modules before
     the import; every error code 0..110, signal 1..31, Darwin address family, socket type and option level is
     rendered under each; the texts must be identical across hosts (harness) and the names Darwin's (Host_Val, TLC)."""
import enum
import importlib
import json
import random
import sys
import types

from .common import REPO
from .tlc import run_tlc, validate_observations

CFG = '''SPECIFICATION Spec
CONSTANTS HostIndexedTables = %s
 Hosts = {"linux", "darwin", "other"}
INVARIANT HostIndependent
INVARIANT NamesAreDarwins
INVARIANT TablesWellFormed
CHECK_DEADLOCK FALSE
'''
_REAL_IDENT = None
DARWIN_ERRNO = None  # read from the spec module at run time (single source of truth)


def darwin_tables():
    import re
    src = open(__file__.replace('harness/c18.py', 'spec/DarwinTables.tla')).read()
    err = re.search(r'Errno == <<(.*?)>>', src, re.S).group(1)
    sig = re.search(r'Signal == <<(.*?)>>', src, re.S).group(1)
    return re.findall(r'"(\w+)"', err), re.findall(r'"(\w+)"', sig)


def fake_host(kind):
    """(errno, signal, socket) module substitutes for a platform"""
    import errno as real_errno
    import signal as real_signal
    import socket as real_socket
    derr, dsig = darwin_tables()
    if kind == 'real':
        return None
    if kind == 'darwin':
        errs = {i + 1: n for i, n in enumerate(derr)}
        sigs = {n: i + 1 for i, n in enumerate(dsig)}
        afs = {'AF_UNSPEC': 0, 'AF_UNIX': 1, 'AF_INET': 2, 'AF_SNA': 11, 'AF_DECnet': 12, 'AF_APPLETALK': 16, 'AF_ROUTE': 17,
               'AF_LINK': 18, 'AF_IPX': 23, 'AF_NDRV': 27, 'AF_ISDN': 28, 'AF_INET6': 30, 'AF_NATM': 31, 'AF_SYSTEM': 32,
               'AF_NETBIOS': 33, 'AF_PPP': 34}
        socks = {'SOCK_STREAM': 1, 'SOCK_DGRAM': 2, 'SOCK_RAW': 3, 'SOCK_RDM': 4, 'SOCK_SEQPACKET': 5}
        sol = 0xffff
    elif kind == 'linux':
        errs = dict(real_errno.errorcode)
        sigs = {s.name: s.value for s in real_signal.Signals}
        afs = {a.name: a.value for a in real_socket.AddressFamily}
        socks = {a.name: a.value for a in real_socket.SocketKind}
        sol = 1
    else:                      # synthetic third platform: every number means something else
        errs = {i: 'EOTHER%d' % i for i in range(1, 200)}
        sigs = {'SIGOTHER%d' % i: i for i in range(1, 65)}
        afs = {'AF_OTHER%d' % i: i for i in range(0, 64)}
        socks = {'SOCK_OTHER%d' % i: i for i in range(0, 16)}
        sol = 7

    def proxy(real, **over):
        m = types.ModuleType(real.__name__)
        m.__dict__.update(real.__dict__)
        if kind != 'linux':
            # the REAL host's named integer constants (SOCK_NONBLOCK, SO_*, MSG_*, E*, SIG* ... of Linux) do not exist on the
            # modelled host unless the model defines them
            for k_, v_ in list(m.__dict__.items()):
                if k_.isupper() and isinstance(v_, int) and not isinstance(v_, bool) and k_ not in over:
                    del m.__dict__[k_]
        m.__dict__.update(over)
        return m
    # the platform's named constants (errno.ETIMEDOUT, signal.SIGBUS, socket.AF_INET6, socket.SOCK_STREAM ...)
    econst = {n: i for i, n in errs.items()}
    if kind == 'darwin':
        # Darwin's ALIASES (two names, one number): on a Darwin host errno.EWOULDBLOCK is EAGAIN's 35, not Linux's 11
        for alias, name in (('EWOULDBLOCK', 'EAGAIN'), ('EOPNOTSUPP', 'ENOTSUP'), ('ELAST', 'EQFULL'), ('EDEADLOCK', 'EDEADLK')):
            if name in econst:
                econst[alias] = econst[name]
    elif kind == 'other':
        for alias in ('EWOULDBLOCK', 'EAGAIN', 'EDEADLOCK', 'EDEADLK', 'ENOTSUP', 'EOPNOTSUPP', 'ETIMEDOUT', 'EINTR', 'ENOENT'):
            econst.setdefault(alias, 150 + len(alias))
    sconst = dict(sigs)
    kconst = dict(afs)
    kconst.update(socks)
    return (proxy(real_errno, errorcode=errs, **econst),
            proxy(real_signal, Signals=enum.IntEnum('Signals', sigs), **sconst),
            proxy(real_socket, AddressFamily=enum.IntEnum('AddressFamily', afs),
                  SocketKind=enum.IntEnum('SocketKind', socks), SOL_SOCKET=sol, **kconst))


def import_under(host):
    for m in list(sys.modules):
        if m == 'pykdebugparser' or m.startswith('pykdebugparser.'):
            del sys.modules[m]
    import errno, signal, socket  # noqa: the real ones must be loaded before they are substituted
    saved = {k: sys.modules[k] for k in ('errno', 'signal', 'socket')}
    fake = fake_host(host)
    # the host's IDENTITY too (sys.platform, os.name, platform.system(), os.uname): a decoder must not branch on it
    import os as _os
    import platform as _platform
    ident = {'real': None, 'linux': ('linux', 'posix', 'Linux'), 'darwin': ('darwin', 'posix', 'Darwin'),
             'other': ('freebsd14', 'posix', 'FreeBSD')}[host]
    global _REAL_IDENT
    if _REAL_IDENT is None:
        _REAL_IDENT = (sys.platform, _os.name, _platform.system)
    sys.platform, _os.name, _platform.system = _REAL_IDENT        # (the identity stays substituted WHILE the host's renderings
    try:                                                          # are made - call-time branches see it too - until the next host)
        if ident:
            sys.platform, _os.name = ident[0], ident[1]
            _platform.system = lambda s_=ident[2]: s_
        if fake:
            sys.modules['errno'], sys.modules['signal'], sys.modules['socket'] = fake
        importlib.import_module('pykdebugparser.traces_parser')
        importlib.import_module('pykdebugparser.pykdebugparser')      # the formatter (colour path) is imported under the host too
    finally:
        for k, v in saved.items():
            sys.modules[k] = v
    from . import pairing
    pairing._DEFAULT_CODES = None


def mined_pools():
    """constants the BSD decoders' code mentions under the CURRENTLY imported host platform (errno.ETIMEDOUT is 60 on
    Darwin and 110 on Linux: a decoder comparing with it behaves differently per host)"""
    from . import mine
    from .pairing import AUDIT
    mine.reset()
    pools = {}
    for name in sorted(n for n, a in AUDIT.items() if n.startswith('BSC_') and a.get('cls')):
        m = mine.mined(name)
        if m['specific'] or m['tuples'] or m['common']:
            pools[name] = m
    return pools


def renderings(rnd, pools=None, flood=0):
    from .render import Prober, tokenize
    from . import mine
    pr = Prober(rnd)
    out = {}
    # mined constants (union over the host platforms) planted into START words, every small error number they hold
    from .pairing import AUDIT as _A
    prnd = random.Random(4711)
    for name, m in sorted((pools or {}).items()):
        ok = mine.audit_allowed(_A[name], skip=(4,))
        dom = _A[name]['dom']
        b0 = [p if dom[j] is None else (dom[j][0] if isinstance(dom[j], list) and dom[j] else 0x20006601 if dom[j] == 'ioctl' else 0)
              for j, p in enumerate([3, 1 << 40, 77, 5])] + [0, 1, 2, 3]
        base = lambda: list(b0)      # noqa
        errs = sorted({0, 4, 35, 60, 110} | {v for v in m['specific'] + m['common'] if 0 < v < 256})[:24]
        for i, (vec, pl) in enumerate(mine.plant_vectors(name, base, ok, prnd, budget=25, max_singles=80, pool=m)):
            if len(pl) < 2 and i % 4:
                continue
            for err in errs:
                try:
                    out[('plant:%s:%d' % (name, i), err)] = pr.render(name, list(vec[:4]), [err] + list(vec[5:]), [b'/p']) or 'none'
                except Exception as ex:
                    out[('plant:%s:%d' % (name, i), err)] = 'RAISED:' + type(ex).__name__

    for name, m in sorted((pools or {}).items()):
        for ci, c in enumerate(m.get('host_dependent', ())):
            for j in range(4):
                for v in (0, 1, 2, 5):
                    S_ = [3, 1, 2, 5]
                    S_[j] = c | v
                    for err in (0, 35):
                        key = ('hostconst:%s:%d:%d:%d' % (name, ci, j, v), err)
                        try:
                            out[key] = pr.render(name, S_, [err, 1, 2, 3], [b'/p']) or 'none'
                        except Exception as ex:
                            out[key] = 'RAISED:' + type(ex).__name__

    def param(name, S, k):
        try:
            t = pr.render(name, S, [0, 1, 2, 3], [])
            return tokenize(t)[1][k]
        except Exception as ex:
            return 'RAISED:' + type(ex).__name__
    for code in list(range(0, 111)) + [9999]:
        try:
            t = pr.render('BSC_read', [3, 4, 5, 6], [code, 1, 2, 3], [])
            out[('errno', code)] = tokenize(t)[2]
            t = pr.render('BSC_pipe', [3, 4, 5, 6], [code, 1, 2, 3], [])
            out[('errno_pipe', code)] = tokenize(t)[2]
        except Exception as ex:
            out[('errno', code)] = 'RAISED:' + type(ex).__name__
    for s in range(1, 32):
        out[('signal', s)] = param('BSC_sigaction', [s, 4, 5, 6], 0)
    for af in (0, 1, 2, 11, 12, 16, 17, 18, 23, 27, 28, 30, 31, 32, 33, 34):
        for name in ('BSC_socket', 'BSC_socketpair', 'BSC_socket_delegate'):
            out[('af:' + name, af)] = param(name, [af, 1, 5, 6], 0)
    for st in range(1, 6):
        out[('sock', st)] = param('BSC_socket', [2, st, 5, 6], 1)
    # every BSD decoder under a few argument patterns and the error numbers on which platforms disagree
    from .pairing import AUDIT
    pats = [[0, 0, 0, 0], [1, 1, 1, 1], [1, 0, 1, 0], [0, 1, 0, 1], [3, 1 << 40, 77, 5], [9, 0, 1, 1], [9, 1, 0, 0]]
    for name in sorted(n for n, a in AUDIT.items() if n.startswith('BSC_') and a.get('cls')):
        dom = AUDIT[name]['dom']
        for pi, pat in enumerate(pats):
            S = [pat[j] if dom[j] is None else (dom[j][0] if isinstance(dom[j], list) and dom[j] else 0x20006601 if dom[j] == 'ioctl' else 0)
                 for j in range(4)]
            for err in (0, 4, 11, 35, 36, 45, 60, 102, 110):
                try:
                    out[('all:%s:%d' % (name, pi), err)] = pr.render(name, S, [err, 1, 2, 3], [b'/p']) or 'none'
                except Exception as ex:
                    out[('all:%s:%d' % (name, pi), err)] = 'RAISED:' + type(ex).__name__
    if flood:
        # SCALE: tens of thousands of DISTINCT error words in one process (arbitrary words of cut or foreign traces), then
        # every error number again: what was shown before must still be shown (a bounded memo trimmed by a host table ...)
        from .pairing import new_parser
        w = pr.w
        p_ = new_parser(w)
        k = 0
        for word in range(200, 200 + flood):
            k += 2
            try:
                p_.feed(w.concrete(w.sys('BSC_read', 1, 1, (3, 4, 5, 6)), k))
                r = p_.feed(w.concrete(w.sys('BSC_read', 2, 1, (word * 7919 + (word << 33), 1, 2, 3)), k + 1))
                str(r)
            except Exception:
                pass
        for code in list(range(0, 111)):
            try:
                t = pr.render('BSC_read', [3, 4, 5, 6], [code, 1, 2, 3], [])
                out[('errno_after_flood', code)] = tokenize(t)[2]
                t = pr.render('BSC_pipe', [3, 4, 5, 6], [code, 1, 2, 3], [])
                out[('errno_pipe_after_flood', code)] = tokenize(t)[2]
            except Exception as ex:
                out[('errno_after_flood', code)] = 'RAISED:' + type(ex).__name__
    # the COLOURED lines of the formatter (the library's and the command line's default): escape sequences included, they are
    # a function of the dump
    try:
        import io as _io
        from .pipeline import Dump
        from pykdebugparser.pykdebugparser import PyKdebugParser
        w2 = pr.w
        stream = []
        for code in range(0, 111):
            stream += [w2.sys('BSC_read', 1, 1, (3, 4, 5, 6)), w2.sys('BSC_read', 2, 1, (code, 1, 2, 3))]
        for sg in range(1, 32):
            stream += [w2.sys('BSC_kill', 1, 1, (77, sg, 0, 0)), w2.sys('BSC_kill', 2, 1, (0, 0, 0, 0))]
        d = Dump(w2, stream, [(1, 5, 'proc')])
        pk = PyKdebugParser()
        pk.color = True
        for i, ln in enumerate(pk.formatted_traces(_io.BytesIO(d.blob), w2.codes)):
            out[('coloured-line', i)] = ln
    except Exception as ex:
        out[('coloured-line', -1)] = 'RAISED:' + type(ex).__name__
    for lvl in (1, 6, 0xffff):
        for name in ('BSC_setsockopt', 'BSC_getsockopt'):
            out[('level:' + name, lvl)] = param(name, [3, lvl, 0x80, 6], 1)
            out[('option:' + name, lvl)] = param(name, [3, lvl, 0x80, 6], 2)
    return out


def run(ctx):
    import re
    rnd = random.Random(ctx.seed)
    ctx.expect_ok(run_tlc('Host_MC', CFG % 'FALSE', ctx.workdir, name='host', timeout=600))
    ctx.expect_violation(run_tlc('Host_MC', CFG % 'TRUE', ctx.workdir, name='neg_host_indexed', timeout=600,
                                 allow_error=True), 'names taken from the host interpreter')
    per_host = {}
    pools = {}
    per_host_pools = {}
    for host in ('real', 'linux', 'darwin', 'other'):
        import_under(host)
        for name, m in mined_pools().items():
            u = pools.setdefault(name, {'specific': set(), 'common': set(), 'tuples': set()})
            for k in u:
                u[k] |= set(m[k])
            per_host_pools.setdefault(name, []).append(set(m['specific']) | set(m['common']))
    pools = {n: {k: sorted(v) for k, v in u.items()} for n, u in pools.items()}
    # a decoder whose mined constants DIFFER between the host models reads something of the host: those constants (each of
    # their bits, alone and OR-ed with small numbers) are planted at every START position whatever the decoder's domain says -
    # the outcome (text or exception) must be the same on every host
    for name, hs_ in per_host_pools.items():
        vals = [set(x) for x in hs_]
        sus = set().union(*vals) - set.intersection(*vals) if vals else set()
        sus = {v for v in sus if isinstance(v, int) and 0 < v < (1 << 40)}
        if sus:
            bits = {1 << b for v in sus for b in range(v.bit_length()) if v >> b & 1}
            pools[name]['host_dependent'] = sorted(sus | bits)[:40]
    ctx.extra['decoders_with_host_dependent_constants'] = sorted(n for n, u in pools.items() if u.get('host_dependent'))
    for host in ('real', 'linux', 'darwin', 'other'):
        import_under(host)
        per_host[host] = renderings(random.Random(ctx.seed), pools, flood=70000)
    import_under('real')
    from . import mine
    mine.reset()
    ctx.extra['decoders_with_mined_constants'] = len(pools)
    obs = []
    ref = per_host['real']
    for key in ref:
        texts = {h: per_host[h].get(key) for h in per_host}
        if len(set(texts.values())) != 1:
            ctx.violation('C18/host-dependent/%s' % key[0].split(':')[0],
                          '%s %s renders differently per host platform: %s' % (key[0], key[1], texts),
                          {'kind': 'host', 'key': list(key), 'texts': texts})
    for host, rs in per_host.items():
        for (kind, num), text in rs.items():
            o = {'id': '%s/%s/%d' % (host, kind, num), 'host': host, 'num': num}
            if text.startswith('RAISED'):
                o.update(kind=kind.split(':')[0], shown='', err=text)
            elif kind.startswith('errno'):
                m = re.match(r'^errno: (?:(\w+)\((\d+)\)|(\d+))$', text)
                o.update(kind='errno', shown=(m.group(1) or '') if m else text)
                if num == 0:
                    continue
            elif kind == 'signal':
                o.update(kind='signal', shown=text)
            elif kind.startswith('af:'):
                o.update(kind='af', shown=text)
            elif kind == 'sock':
                o.update(kind='sock', shown=text)
            elif kind.startswith('level:'):
                o.update(kind='level', shown=text)
            else:
                continue
            obs.append(o)
    nv, rej, _ = validate_observations('Host_Val', obs, ctx.workdir, name='c18val', timeout=600)
    ctx.traces += nv
    by = {o['id']: o for o in obs}
    for oid, clause in rej:
        o = by[oid]
        ctx.violation('C18/%s' % clause, 'under host platform %r %s %d is shown as %r' % (o['host'], o['kind'], o['num'], o['shown']),
                      {'kind': 'host', 'obs': o})
    ctx.sample({'errno 35 per host': {h: per_host[h][('errno', 35)] for h in per_host},
                'signal 10 per host': {h: per_host[h][('signal', 10)] for h in per_host}})
    ctx.extra['code_to_spec'] = {'hosts': list(per_host), 'renderings_per_host': len(ref), 'names_validated': nv}
    ctx.assumptions += ['a host platform is modelled by the errno / signal / socket modules visible when the decoders '
                        'are imported', 'Darwin constants in spec/DarwinTables.tla (from XNU headers, from memory)']


def replay(ctx, path):
    rp = json.load(open(path))['replay']
    print(json.dumps(rp, indent=1))
    return 0
