"""C20 - composite traces reflect exactly the records nested in their window.
 (1) TLC Composite_MC: every sequence (<= MaxLen) over composite openers/closers, nested records of every kind
     and unrelated records (one thread exhaustively, two threads at lower depth): VmfExact, LaunchExact, PerfExact,
     HeaderlessCarriesNothing stated on the history window.
 (2) code -> spec (Pairing_Val full mode): systematic windows - 0..3 nested records of each relevant kind in every
     order, mixed with unrelated same-thread records and the same kinds of records on another thread, all flag
     combinations, header-less variants - plus seeded random composites."""
import itertools
import random

from . import gen
from .pairing import UNDECODED_RFA as UNDECODED_RFA_NAME, World, validate_streams, describe, new_parser
from .tlc import run_tlc
from .c04 import replay  # noqa

CFG = '''SPECIFICATION Spec
CONSTANTS MaxLen = %d
 Tids = {%s}
 Alphabet = {%s}
 Variant = "ok"
INVARIANT VmfExact
INVARIANT LaunchExact
INVARIANT PerfExact
INVARIANT HeaderlessCarriesNothing
CHECK_DEADLOCK FALSE
'''
VMF = '"VS","VE0","VE1","RFA1","RFA2","RFAU","X"'
LAUNCH = '"LS","LE","M1","M3","C2","C3","X"'
PERF = '"PS00","PS10","PS01","PS11","PE","THD","H1","H5","D","X"'


def run(ctx):
    rnd = random.Random(ctx.seed)
    # which decoder serves a record is a function of the fed object's OWN code table (spec/Dispatch_MC.tla): design
    # model-checked with its misplaced-memo variants, behaviours replayed on real parser and dict objects
    from . import dispatch
    dispatch.model_check(ctx, ['lazyModuleNames'])
    dispatch.run(ctx)
    d = 5 if ctx.quick else 6
    ctx.expect_ok(run_tlc('Composite_MC', CFG % (d, '1', VMF), ctx.workdir, name='vmf_d%d' % d, timeout=7200))
    ctx.expect_ok(run_tlc('Composite_MC', CFG % (d, '1', LAUNCH), ctx.workdir, name='launch_d%d' % d, timeout=7200))
    ctx.expect_ok(run_tlc('Composite_MC', CFG % (d, '1', PERF), ctx.workdir, name='perf_d%d' % d, timeout=7200))
    ctx.expect_ok(run_tlc('Composite_MC', CFG % (4, '1, 2', '"VS","VE0","RFA1","RFAU","LS","LE","M1","C2"'),
                          ctx.workdir, name='two_threads_d4', timeout=7200))
    cases = []
    # ---- page faults: every sequence of <= 3 nested records over {decoded kinds, undecoded, unrelated}, results
    kinds = ['i', 'e', 's', 'u', 'x', 'n']
    # 'n': a NEIGHBOUR - a record the code table names, that no decoder handles, of the same subclass as the nested records the
    # composite reads (same upper 16 id bits: vm_fast_fault next to the real-fault-address records ...): unrelated to the window
    w0 = World(random.Random(1))

    def neigh(names):
        subs = {w0.name2id[x] >> 16 for x in names if x in w0.name2id}
        return [x for x in w0.known_names if w0.name2id[x] >> 16 in subs] or w0.near_known
    N_VMF = neigh(World.RFA_NAMES)
    N_LAUNCH = neigh(('DYLD_uuid_map_a', 'DYLD_uuid_shared_cache_a'))
    N_PERF = neigh(('PERF_THD_Data', 'PERF_STK_UHdr', 'PERF_STK_UData'))
    ctx.extra['neighbour_records'] = {'vmf': N_VMF[:8], 'launch': N_LAUNCH[:8], 'perf': N_PERF[:8]}
    n = 0
    for L in range(0, 4):
        for combo in itertools.product(kinds, repeat=L):
            for res, ft in ((0, 1 + n % 11), (rnd.choice([1, 2, 14]), 3)):
                w = World(rnd, ts='any')
                g = gen.ProgGen(w, rnd)
                inner = []
                for j, c in enumerate(combo):
                    if c == 'u':
                        inner.append(w.rfau(1))
                    elif c == 'n':
                        inner.append(w.known(rnd.choice([0, 0, 3]), 1, name=rnd.choice(N_VMF)))
                    elif c == 'x':
                        inner += g.ord_single(1)
                        inner.append(w.rfa(2, 99, 7))            # another thread's record must not leak in
                    else:
                        inner.append(w.rfa(1, 20 + j, rnd.choice([1, 2, 3, 4, 5, 7, 0x10, 0x20, 0x80, 0xff]),
                                           kind='ies'.index(c), ftype=rnd.randrange(1, 12), q=rnd.choice([0, 3, 0, 1])))
                cases.append(('vmf%d' % n, w, [w.vmf(1, 1)] + inner + [w.vmf(2, 1, res, ft)]))
                n += 1
    # ---- launch: permutations of image records (both kinds, equal addresses, duplicates)
    n = 0
    pool = [(1, 1, False), (2, 2, True), (3, 3, False), (3, 4, True), (5, 5, False), (0, 6, True)]
    for L in range(0, 5 if ctx.quick else 6):
        perms = list(itertools.permutations(pool, L))
        rnd.shuffle(perms)
        for perm in perms[:40 if ctx.quick else 400]:
            w = World(rnd, ts='any')
            g = gen.ProgGen(w, rnd)
            inner = []
            for rk, iid, sh in perm:
                inner.append(w.img(1, rk, iid, sh, q=rnd.choice([0, 0, 3])))
                if rnd.random() < 0.3:
                    inner += g.ord_single(1)
                if rnd.random() < 0.3:
                    inner.insert(rnd.randrange(0, len(inner) + 1), w.known(0, 1, name=rnd.choice(N_LAUNCH)))
                if rnd.random() < 0.2:
                    inner.append(w.img(2, 9, 9))
            pre = [w.img(1, 7, 7)] if rnd.random() < 0.3 else []        # before the window: not part of it
            cases.append(('launch%d' % n, w, pre + [w.launch(1, 1)] + inner + [w.launch(2, 1)]))
            n += 1
    # ---- sampler: flags x presence of each nested kind x header count vs data
    n = 0
    for ti, us in itertools.product([False, True], repeat=2):
        for has_thd, has_hdr in itertools.product([False, True], repeat=2):
            for ndata in (0, 1, 2, 3):
                for nfr in ([0, 1, 4, 5, 8, 13] if ctx.quick else range(0, 14)):
                    w = World(rnd, ts='any')
                    g = gen.ProgGen(w, rnd)
                    inner = []
                    if has_hdr:
                        inner.append(w.uhdr(1, nfr))
                    for _ in range(ndata):
                        inner.append(w.udata(1, [rnd.randrange(0, 50) for _ in range(4)]))
                    if has_thd:
                        inner.append(w.thd(1, 33, rnd.choice([1, 2])))
                    if n % 3 == 0:
                        rnd.shuffle(inner)
                    if n % 4 == 0:
                        inner.insert(rnd.randrange(0, len(inner) + 1), w.udata(2, [60, 61, 62, 63]))
                        inner += g.ord_single(1)
                    if n % 7 == 0 and has_hdr:
                        inner.append(w.uhdr(1, 2))         # a second header: the first one counts
                    if n % 5 == 0:
                        inner.insert(rnd.randrange(0, len(inner) + 1), w.known(0, 1, name=rnd.choice(N_PERF)))
                    other = rnd.getrandbits(14)
                    stream = [w.perf(1, 1, ti, us, other)] + inner + [w.perf(2, 1, ti, us)]
                    if n % 9 == 0:
                        stream = inner                     # header-less variant
                    cases.append(('perf%d' % n, w, stream))
                    n += 1
    # ---- random composites interleaved over threads
    for i in range(150 if ctx.quick else 4000):
        w = World(rnd, ts='any')
        g = gen.ProgGen(w, rnd, ntids=2, noise=0.05)
        progs = [[e for _ in range(rnd.randrange(1, 3)) for e in g.composite(t)] for t in (1, 2)]
        cases.append(('rnd%d' % i, w, gen.interleave(rnd, progs)))
    # a thread filter SELECTS traces, it does not change them: composites of the filtered thread read through the public
    # pipeline (also under a table that leaves some nested record kinds unnamed) equal the direct decoding
    from .pipeline import traces_via_api, traces_direct
    from .pairing import default_codes
    nested_names = ['RealFaultAddressInternal', 'RealFaultAddressExternal', 'RealFaultAddressSharedCache', UNDECODED_RFA_NAME,
                    'PERF_THD_Data', 'PERF_STK_UHdr', 'PERF_STK_UData', 'DYLD_uuid_map_a', 'DYLD_uuid_shared_cache_a', 'VFS_LOOKUP']
    napi = 0
    for i in range(40 if ctx.quick else 600):
        w = World(rnd, big_tids=False)
        g = gen.ProgGen(w, rnd, ntids=2, noise=0.05)
        progs = [[e for _ in range(rnd.randrange(1, 4)) for e in g.composite(1)], g.program(2, 2)]
        stream = gen.interleave(rnd, progs)[:60]
        table = dict(default_codes())
        drop = rnd.sample(nested_names, rnd.choice([0, 1, 1, 2]))
        if i % 2 == 0:
            # a fault whose FIRST nested real-fault record is of a kind the table leaves unnamed, a named one after it
            kinds_ = [0, 1, 2]
            k0 = kinds_.pop(rnd.randrange(3))
            drop = [World.RFA_NAMES[k0]]
            stream = [w.vmf(1, 1), w.rfa(1, 21, rnd.randrange(1, 8), kind=k0), w.rfa(1, 22, rnd.randrange(1, 8), kind=rnd.choice(kinds_)),
                      w.vmf(2, 1, 0, 2)] + stream
        for nm in drop:
            for eid in [k for k, v in table.items() if v == nm]:
                del table[eid]
        want = [x for x in traces_direct(w, stream, table) if x[1] > 0 and stream[x[1] - 1].abs['tid'] == 1]
        try:
            got, _d = traces_via_api(w, stream, table=table, tid=1)
        except Exception as ex:
            got = [('raised', repr(ex), '')]
        napi += 1
        if got != want:
            d_ = next((k for k in range(max(len(got), len(want))) if k >= len(got) or k >= len(want) or got[k] != want[k]), 0)
            ctx.violation('C20/thread-filter-changes-trace', 'under a thread filter trace %d reads %s, decoded directly %s'
                          % (d_, got[d_] if d_ < len(got) else None, want[d_] if d_ < len(want) else None),
                          {'kind': 'code->spec', 'stream': describe(w, stream)})
    ctx.extra['composites_through_thread_filter'] = napi
    # SCALE: the nested records of a composite come after as many unrelated records as a size-like constant of the parser's
    # sources suggests: the composite still reads them
    from . import mine
    nscale = 0
    for h in mine.size_hints(256):
        for n_ in (h - 1, h + 3):
            w = World(rnd, big_tids=False)
            filler = w.sys('BSC_getpid', 3, 1)
            cf = w.concrete(filler, 2)
            for kind_ in ('vmf', 'launch', 'perf'):
                head = {'vmf': [w.vmf(1, 1)], 'launch': [w.launch(1, 1)], 'perf': [w.perf(1, 1, ti=True, us=True)]}[kind_]
                tail = {'vmf': [w.rfa(1, 33, 5), w.vmf(2, 1, 0, 2)], 'launch': [w.img(1, 2, 7), w.launch(2, 1)],
                        'perf': [w.uhdr(1, 2), w.udata(1, [1, 2, 3, 4]), w.thd(1, 44, 1), w.perf(2, 1, ti=True, us=True)]}[kind_]
                texts = []
                for nfill in (0, n_):
                    p_ = new_parser(w)
                    out = None
                    try:
                        k = 0
                        for a in head:
                            k += 1
                            p_.feed(w.concrete(a, k))
                        for _ in range(nfill):
                            p_.feed(cf)
                        for a in tail:
                            k += 1
                            out = p_.feed(w.concrete(a, k + nfill))
                        texts.append(None if out is None else str(out))
                    except Exception as ex:
                        texts.append('RAISED ' + repr(ex))
                nscale += 1
                if texts[0] != texts[1]:
                    ctx.violation('C20/long-composite@%s' % kind_, '%s composite with %d unrelated records before its nested records reads %r, without them %r'
                                  % (kind_, n_, texts[1], texts[0]), {'kind': 'code->spec', 'stream': []})
    ctx.extra['long_composites'] = nscale
    # C20 pins what the COMPOSITE traces carry (fields of page-fault / launch / sampler traces); event lists and the other
    # records' traces belong to C04 / C08
    validate_streams(ctx, cases, 'full', 'c20val',
                     own=lambda cl, cls: cl in ('raised', 'shape') or (cl == 'fields' and cls in ('VMF', 'LAUNCH', 'PERF')))
    ctx.sample({'case': cases[40][0], 'events': [dict(a.abs) for a in cases[40][2]]})
    ctx.extra['code_to_spec'] = {'windows': len(cases)}
    ctx.assumptions += ['first nested real-fault record of an undecoded kind followed by a decoded one: pid/protection '
                        'are wildcards (statement ambiguous), the trace must still be produced',
                        'equal load addresses in a launch list: stable order (map records before shared-cache records)']
