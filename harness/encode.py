"""Concrete encoders (trusted base): kd_buf records, kernel string chunking, v2 / v3 containers.
Layouts follow the declarative structs in pykdebugparser/kd_buf_parser.py and XNU's kdebug.c."""
import plistlib
import struct

START, END, NONE, ALL = 1, 2, 0, 3
MASK64 = (1 << 64) - 1


def kd_buf(ts, args=(0, 0, 0, 0), tid=0, debugid=0, cpuid=0, unused=0, data=None):
    if data is None:
        data = struct.pack('<QQQQ', *[a & MASK64 for a in args])
    assert len(data) == 32
    return struct.pack('<Q32sQIIQ', ts & MASK64, data, tid & MASK64, debugid & 0xffffffff, cpuid & 0xffffffff,
                       unused & MASK64)


def make_event(ts, debugid, tid, args=(0, 0, 0, 0), data=None):
    """A Kevent built by the code under test from encoded bytes (so the decoder is in the loop)."""
    from pykdebugparser.kevent import from_kd_buf
    return from_kd_buf(kd_buf(ts, args, tid, debugid, data=data))


def chunk_text(raw: bytes, header: bytes):
    """Kernel chunking: first record = header + text, following records 32 bytes of text, NUL padded.
    Returns list of (qualifier, 32-byte data). header may be empty (thread names)."""
    first_cap = 32 - len(header)
    pieces = [raw[:first_cap]]
    rest = raw[first_cap:]
    while rest:
        pieces.append(rest[:32])
        rest = rest[32:]
    out = []
    for i, p in enumerate(pieces):
        q = 0
        if i == 0:
            q |= START
        if i == len(pieces) - 1:
            q |= END
        d = (header + p if i == 0 else p).ljust(32, b'\x00')
        out.append((q, d))
    return out


def lookup_records(path: bytes, vnode_id: int):
    return chunk_text(path, struct.pack('<Q', vnode_id & MASK64))


def global_string_records(text: bytes, debugid: int, str_id: int):
    return chunk_text(text, struct.pack('<QQ', debugid & MASK64, str_id & MASK64))


def threadname_records(text: bytes):
    return chunk_text(text, b'')


def threadmap_entry(tid, pid, name: bytes, junk: bytes = b''):
    """20-byte C string field: the name, its terminator, then anything (older kernels leave stale bytes there)"""
    assert len(name) <= 19 and b'\x00' not in name
    field = (name + b'\x00' + junk)[:20].ljust(20, b'\x00')
    return struct.pack('<QI', tid & MASK64, pid & 0xffffffff) + field


V2_MAGIC = b'\x00\x02\xaa\x55'
V3_MAGIC = b'\x00\x03\xaa\x55'
TAG_STACKSHOT_END = b'stackshot_out_fl'
TAG_THREADMAP = b'\x00\x1d\x00\x00\x00\x00\x00\x00'
TAG_EVENTS = b'\x00\x1e\x00\x00\x00\x00\x00\x00'
TAG_MORE = b'\x00\x20\x00\x00\x00\x00\x00\x00'
TAG_DYLD = b'\x01\x80\x00\x00\x00\x00\x00\x00'
TAG_CODES = b'\x0f\x80\x00\x00\x00\x00\x00\x00'
TAG_PROCESSES = b'\x10\x80\x00\x00\x00\x00\x00\x00'
TAG_LOG_EVENTS = b'\x11\x80\x00\x00\x00\x00\x00\x00'
TAG_LOG_STRINGS = b'\x12\x80\x00\x00\x00\x00\x00\x00'
TAG_KEXTS = b'\x05\x80\x00\x00\x00\x00\x00\x00'
TAG_IMAGES = b'\x04\x80\x00\x00\x01\x00\x00\x00'
ALL_TAGS = (TAG_STACKSHOT_END, TAG_THREADMAP, TAG_EVENTS, TAG_MORE)


def encode_v2(tmap, pad, records, is64=1, tick=24000000):
    """tmap: list of (tid, pid, name bytes); records: list of 64-byte strings.
    Returns (bytes, layout) where layout = list of (kind, start, end)."""
    segs = []
    out = bytearray()

    def add(kind, b):
        segs.append((kind, len(out), len(out) + len(b)))
        out.extend(b)
    add('ver', V2_MAGIC)
    add('hdr', struct.pack('<I', len(tmap)) + b'\x00' * 12 + struct.pack('<IQ', is64, tick) + b'\x00' * 0x100)
    for t in tmap:
        add('tmap', threadmap_entry(*t))
    if pad:
        add('pad', b'\x00' * pad)
    for r in records:
        assert len(r) == 64
        add('rec', r)
    return bytes(out), segs


def safe_fill(fill, tag):
    """filler such that the FIRST occurrence of tag in fill+tag is the tag itself (a filler ending with a prefix of
    the tag would otherwise make the tag appear earlier - a different file)."""
    while (fill + tag).find(tag) != len(fill):
        fill = fill[:-1]
    return fill


def encode_v3(tmap, chunks, blocks=(), fill1=b'', fill2=b'', fill3=b'', more_fill=b'', cpu_info=None,
              header_fields=None):
    """chunks: list of lists of 64-byte records (>= 1 chunk). blocks: list of (tag, payload bytes).
    fill1: stackshot filler before the stackshot end marker, fill2: between marker and threadmap tag,
    fill3: between thread map and first events tag, more_fill: between MORE_EVENTS tag and next EVENTS tag."""
    segs = []
    out = bytearray()

    def add(kind, b):
        segs.append((kind, len(out), len(out) + len(b)))
        out.extend(b)
    hf = dict(tag=0x55aa0300, sub_tag=1, length=0, numer=125, denom=3, timestamp=1000, secs=1600000000,
              usecs=5, mw=0, dst=0, flags=1, tag2=0x8002)
    hf.update(header_fields or {})
    plist = plistlib.dumps(cpu_info if cpu_info is not None else {'cpus': 2}, fmt=plistlib.FMT_BINARY)
    hdr = struct.pack('<IIQIIQQIIIII', hf['tag'], hf['sub_tag'], hf['length'], hf['numer'], hf['denom'],
                      hf['timestamp'], hf['secs'], hf['usecs'], hf['mw'], hf['dst'], hf['flags'], hf['tag2'])
    hdr += struct.pack('<Q', len(plist)) + plist
    if len(hdr) % 8:
        hdr += b'\x00' * (8 - len(hdr) % 8)     # Aligned(8, kd_header_v3), counted from byte 4
    add('ver', V3_MAGIC)
    add('hdr', hdr)
    add('align', b'\x00' * 4)
    fill1 = safe_fill(fill1, TAG_STACKSHOT_END)
    fill2 = safe_fill(fill2, TAG_THREADMAP)
    fill3 = safe_fill(fill3, TAG_EVENTS)
    more_fill = safe_fill(more_fill, TAG_EVENTS)
    add('fill', fill1)
    add('tag_stackshot', TAG_STACKSHOT_END)
    add('fill', fill2)
    add('tag_threadmap', TAG_THREADMAP)
    tm = b''.join(threadmap_entry(*t) for t in tmap)
    add('tmaplen', struct.pack('<Q', len(tm)))
    add('tmap', tm)
    first = True
    for ch in chunks:
        if not first:
            add('tag_more', TAG_MORE)
            add('fill', more_fill)
        else:
            add('fill', fill3)
        first = False
        add('tag_events', TAG_EVENTS)
        add('chunkhdr', struct.pack('<Q', 64 * len(ch)) + b'\x00' * 8)
        for r in ch:
            add('rec', r)
    for tag, payload in blocks:
        p = payload + b'\x00' * ((8 - len(payload) % 8) % 8)
        add('blk', tag + struct.pack('<Q', len(payload)) + p)
    return bytes(out), segs
