"""C06 - truncated dumps: parsing terminates after linear reading and reports a prefix.
 (1) TLC Truncation.tla: every layout of a small family (fillers with tag prefixes / decoy tags / repeated prefixes,
     chunkings, MORE_EVENTS, blocks; v2 with padding) x EVERY cut offset, scaled sizes: PrefixOfFull,
     NothingFromPartial, Monotone, CompleteFileComplete and - under weak fairness, no state constraint - the
     LIVENESS property Terminates.  Negative control: seek loop without the end-of-stream exit (pinned tree) must
     give the stuttering lasso.
 (2) code: seeded v2 / v3 byte files holding decodable streams, cut at EVERY offset 0..len; kevents,
     formatted_kevents, traces, formatted_traces pulled lazily under a counting reader with a read budget; the items
     reported before stopping must be a prefix of the complete dump's items; print_with_count for every count.
     Every run is one observation validated by Truncation_Val (segment program on the real layout) in TLC."""
import contextlib
import io
import json
import random
import struct
from concurrent.futures import ProcessPoolExecutor

from . import gen
from .container import FileGen, encode_file
from .encode import kd_buf, encode_v2
from .pairing import World
from .tlc import run_tlc, validate_observations

CFG = '''SPECIFICATION Spec
CONSTANTS SeekHasEofExit = %s
 Family = "%s"
INVARIANT PrefixOfFull
INVARIANT NothingFromPartial
INVARIANT InBounds
INVARIANT CompleteFileComplete
PROPERTY Monotone
PROPERTY Terminates
CHECK_DEADLOCK FALSE
'''
APIS = ('kevents', 'formatted_kevents', 'traces', 'formatted_traces')


class Budget(Exception):
    pass


class CountingReader(io.BytesIO):
    def __init__(self, data, budget):
        super().__init__(data)
        self.calls = 0
        self.nbytes = 0
        self.budget = budget

    def read(self, n=-1):
        self.calls += 1
        if self.calls > self.budget:
            raise Budget()
        b = super().read(n)
        self.nbytes += len(b)        # the amount actually READ (a large request on a short stream reads what is there)
        return b

    def readinto(self, buf):
        self.calls += 1
        if self.calls > self.budget:
            raise Budget()
        n = super().readinto(buf)
        self.nbytes += n or 0
        return n


def render(item):
    return repr(tuple(item)) if isinstance(item, tuple) else str(item)


def pull(api, blob, budget):
    from pykdebugparser.pykdebugparser import PyKdebugParser
    p = PyKdebugParser()
    p.color = False
    r = CountingReader(blob, budget)
    items = []
    objs = []
    status = 'done'
    try:
        for it in getattr(p, api)(r):
            items.append(render(it))
            objs.append(it)
    except Budget:
        status = 'budget'
    except Exception:
        status = 'raised'
    # nothing already reported is later changed: every reported object still renders as it did when reported
    for i, it in enumerate(objs):
        try:
            now = render(it)
        except Exception as ex:
            now = 'RAISED ' + type(ex).__name__
        if now != items[i]:
            items[i] = 'CHANGED-AFTER-REPORT %r -> %r' % (items[i], now)
    return items, status, r.calls, r.nbytes


def work(job):
    """all cuts of one file for one api (runs in a worker process)"""
    import sys, os
    from .common import import_repo
    import_repo()
    fid, api, blob_hex, layout, cuts = job
    blob = bytes.fromhex(blob_hex)
    full, st, _, _ = pull(api, blob, 10 ** 9)
    out = []
    for cut in cuts:
        items, status, calls, nbytes = pull(api, blob[:cut], 4 * cut + 4096 + 1)
        out.append({'id': '%s_%s_%d' % (fid, api, cut), 'api': api, 'cut': cut, 'layout': layout, 'n': len(items),
                    'full': len(full), 'prefix': items == full[:len(items)], 'calls': calls, 'bytes': nbytes,
                    'status': status})
    return out, (st, len(full))


def make_file(rnd, ver, force_ghost=False):
    """a dump whose records are a decodable stream (so traces / formatted lines exist)"""
    w = World(rnd, big_tids=False)
    g = gen.ProgGen(w, rnd, ntids=2, noise=0.05, composites=False)
    progs = [g.program(t, rnd.randrange(1, 3)) for t in (1, 2)]
    stream = gen.interleave(rnd, progs)[:rnd.choice([3, 8, 14])]
    # a record about a thread, later completed by a record OF that thread (reports must not be patched afterwards)
    stream += [w.term(1, 4), w.sys('BSC_getpid', 1, 2), w.tpid(4, 55), w.sys('BSC_getpid', 2, 2)]
    # USE BEFORE DEFINITION of the process column: a thread works before another thread's records declare its process, then works
    # again.  The first line is printed when its process is not known yet - in the complete dump as in the dump cut right after it.
    # (Own world / random stream: the files of a seed stay the files they were; threads 7 and 8 occur nowhere else.)
    import random as _random
    w2 = World(_random.Random(4242 + len(stream)), big_tids=False, allow_zero_tid=False)
    stream += [w2.sys('BSC_getpid', 0, 7), w2.ntd(8, 7, 77), w2.nts(8, 'late'), w2.sys('BSC_getpid', 0, 7)]
    recs = []
    for k, a in enumerate(stream, 1):
        data = a.data if a.data is not None else struct.pack('<QQQQ', *[x & ((1 << 64) - 1) for x in a.words])
        recs.append(kd_buf(257 + 10 * k, tid=a.ctid, debugid=a.debugid, data=data))
    fg = FileGen(rnd)
    fg.force_ghost = force_ghost        # the stackshot filler holds what looks like a thread-map and an events section
    if ver == 2:
        f = fg.v2(nrec=0, pad=rnd.choice([0, 0, 3, 64, 100]))
        f['_recs'] = recs
        f['recs'] = list(range(1, len(recs) + 1))
    else:
        f = fg.v3(nrec=len(recs), nblocks=rnd.choice([0, 1, 2]))
        f['_recs'] = recs
    blob, layout = encode_file(f)
    layout = [[('ver2' if k == 'ver' and ver == 2 else k), a, b] for k, a, b in layout if b > a]
    return blob, layout


def run(ctx):
    rnd = random.Random(ctx.seed)
    # generator-grain sessions on one object (spec/Sessions.tla): listings read alternately, abandoned half way, options
    # edited in place between requests; every next() validated by Sessions_Val, design model-checked by Sessions_MC
    from . import sessions
    from . import c13 as _c13
    sessions.model_check(ctx)
    for i_ in range(2):
        sessions.run_sessions(ctx, random.Random(ctx.seed * 2 + 77 + i_), 120 if ctx.quick else 2500, ('kev', 'fkev', 'tr'),
                              lambda r, world=None: _c13.gen_dump(r, world=world, orphans=0.1, samples=0.1),
                              _c13.gen_cfg if i_ % 2 else sessions.cfg_light, 'ses%d_' % i_)
    r3 = ctx.expect_ok(run_tlc('Truncation', CFG % ('TRUE', 'v3'), ctx.workdir, name='trunc_v3', timeout=3600,
                               args=['-coverage', '1']))
    r2 = ctx.expect_ok(run_tlc('Truncation', CFG % ('TRUE', 'v2'), ctx.workdir, name='trunc_v2', timeout=3600,
                               args=['-coverage', '1']))
    # vacuity guard: every action of the reader program was taken in at least one family
    cov = {}
    for r in (r3, r2):
        for a, (d, t) in r.coverage().items():
            cov[a] = cov.get(a, 0) + t
    never = sorted(a for a, t in cov.items() if t == 0)
    if never or len(cov) < 10:
        raise RuntimeError('Truncation.tla: actions never taken (vacuous exploration): %s / %s' % (never, cov))
    ctx.extra['action_coverage'] = cov
    ctx.expect_violation(run_tlc('Truncation', CFG % ('FALSE', 'v3'), ctx.workdir, name='neg_no_eof_exit',
                                 timeout=3600, allow_error=True), 'seek_until without end-of-stream exit: lasso')
    nfiles = 6 if ctx.quick else 60
    jobs = []
    blobs = {}
    for i in range(nfiles):
        ver = 3 if i % 3 else 2
        blob, layout = make_file(rnd, ver, force_ghost=(i % 3 == 1))
        fid = 'f%d_v%d' % (i, ver)
        blobs[fid] = blob
        # every offset - except inside segments longer than 512 bytes (large fillers / paddings): there the first and last 64
        # offsets, the offsets around every 4 KiB boundary and a random sample
        allcuts = set()
        for _k, a_, b_ in layout:
            if b_ - a_ <= 512:
                allcuts.update(range(a_, b_ + 1))
            else:
                allcuts.update(range(a_, a_ + 64))
                allcuts.update(range(b_ - 64, b_ + 1))
                for m in range((a_ // 4096 + 1) * 4096, b_, 4096):
                    allcuts.update((m - 1, m, m + 1))
                allcuts.update(rnd.randrange(a_, b_) for _ in range(100))
        allcuts.update((0, len(blob)))
        allcuts = sorted(c for c in allcuts if 0 <= c <= len(blob))
        for api in APIS:
            cuts = allcuts if (api == 'kevents' or not ctx.quick) else \
                sorted(set(allcuts[::3] + [b for _, a, b in layout for b in (a, a + 1, b - 1, b)] + [len(blob)]))
            cuts = [c for c in cuts if 0 <= c <= len(blob)]
            for part in range(0, len(cuts), 400):
                jobs.append((fid, api, blob.hex(), layout, cuts[part:part + 400]))
    obs = []
    with ProcessPoolExecutor(max_workers=16) as ex:
        for out, (st, nfull) in ex.map(work, jobs):
            obs += out
            if st != 'done':
                ctx.violation('C06/complete-file-%s' % st, 'the complete dump did not parse to the end (%s)' % st, None)
    nv, rej, _ = validate_observations('Truncation_Val', obs, ctx.workdir, name='c06val', timeout=3000)
    ctx.traces += nv
    by_id = {o['id']: o for o in obs}
    for oid, clause in rej:
        o = by_id[oid]
        fid = oid.split('_' + o['api'])[0]
        seg = next((k for k, a, b in o['layout'] if a <= o['cut'] < b), 'end')
        ctx.violation('C06/%s/%s@%s' % (clause, o['api'], seg),
                      '%s of a %d-byte dump cut at %d (inside segment %s): %s; reported %d of %d, calls=%d'
                      % (o['api'], len(blobs[fid]), o['cut'], seg, clause, o['n'], o['full'], o['calls']),
                      {'kind': 'cut', 'api': o['api'], 'cut': o['cut'], 'file_hex': blobs[fid].hex()})
    # SCALE: version-2 dumps with as many records as the size-like constants of the reader sources suggest (a block of records
    # read at once, a reused buffer ...) and half as many again, cut inside records near the end, inside the hinted block
    # boundary and early: complete records only, a prefix of the complete dump's events
    from . import mine
    from pykdebugparser.pykdebugparser import PyKdebugParser as _P
    nscale = 0
    hints = sorted({h for h in mine.size_hints(64, hi=(1 << 18)) if h >= 1024} | {h // 64 for h in mine.size_hints(1 << 16) if h % 64 == 0 and h // 64 >= 1024})
    for h in hints[-3:] if ctx.quick else hints:
        n_ = h + h // 2 + 3
        rec0 = bytearray(kd_buf(1, tid=7, debugid=0x1234500, data=bytes(32)))
        body = bytearray()
        for k in range(n_):
            rec0[0:8] = struct.pack('<Q', 1000 + k)
            rec0[8:16] = struct.pack('<Q', (k * 0x9e3779b97f4a7c15) & ((1 << 64) - 1))
            body += rec0
        blob, _lay = encode_v2([(7, 70, b'proc', b'')], 0, [])
        hdr = len(blob)
        blob = blob + bytes(body)
        full = [tuple(e) for e in _P().kevents(io.BytesIO(blob))]
        if len(full) != n_:
            ctx.violation('C06/scale/complete', 'a version-2 dump of %d records lists %d events' % (n_, len(full)), {'kind': 'scale', 'records': n_})
            continue
        for cut in sorted({hdr + 64 * (n_ - 1) + 30, hdr + 64 * h + 17, hdr + 64 * (h + h // 4) + 63, hdr + 64 * (h - 1) + 1, hdr + 64 * 10 + 5}):
            got, err = [], None
            try:
                for e in _P().kevents(io.BytesIO(blob[:cut])):
                    got.append(tuple(e))
            except Exception as ex:
                err = ex
            nscale += 1
            whole = (cut - hdr) // 64
            if got != full[:len(got)]:
                ctx.violation('C06/scale/not-a-prefix', 'a %d-record dump cut at byte %d (record %d + %d bytes): the %d events listed are not a prefix of the complete dump\'s'
                              % (n_, cut, whole, (cut - hdr) % 64, len(got)), {'kind': 'scale', 'records': n_, 'cut': cut})
            elif len(got) > whole:
                ctx.violation('C06/scale/fabricated-from-partial-record', 'a %d-record dump cut at byte %d holds %d complete records, %d events were listed'
                              % (n_, cut, whole, len(got)), {'kind': 'scale', 'records': n_, 'cut': cut})
    ctx.extra['scale_cuts'] = nscale
    ctx.extra['scale_record_counts'] = [h + h // 2 + 3 for h in (hints[-3:] if ctx.quick else hints)]
    # print_with_count: limiting the count never changes the lines printed
    from pykdebugparser.__main__ import print_with_count
    from pykdebugparser.pykdebugparser import PyKdebugParser
    npc = 0
    for fid, blob in list(blobs.items())[:4 if ctx.quick else 20]:
        for api in ('formatted_kevents', 'formatted_traces'):
            p = PyKdebugParser()
            p.color = False
            try:
                full = [str(x) for x in getattr(p, api)(io.BytesIO(blob))]
            except Exception as ex:
                ctx.violation('C06/complete-file-raised', '%s of the complete dump raised %r' % (api, ex),
                              {'kind': 'count', 'count': -1, 'file_hex': blob.hex()})
                continue
            for c in list(range(0, len(full) + 2)) + [-1]:
                buf = io.StringIO()
                with contextlib.redirect_stdout(buf):
                    p2 = PyKdebugParser()
                    p2.color = False
                    print_with_count(getattr(p2, api)(io.BytesIO(blob)), c)
                got = buf.getvalue().splitlines()
                exp = full if c < 0 else full[:c]
                exp = [l for x in exp for l in x.splitlines()]
                npc += 1
                if got != exp:
                    ctx.violation('C06/print_with_count/%s' % api, 'count=%d printed %d lines, expected the first %d'
                                  % (c, len(got), len(exp)), {'kind': 'count', 'count': c, 'file_hex': blob.hex()})
    ctx.evaluations = len(obs) + npc
    ctx.sample({'observation': {k: v for k, v in obs[len(obs) // 2].items() if k != 'layout'}})
    ctx.extra['code'] = {'files': nfiles, 'cut_runs': len(obs), 'print_with_count_runs': npc,
                         'apis': list(APIS), 'exhaustive_cuts_for': 'kevents' if ctx.quick else 'all four APIs'}
    ctx.assumptions += ['read budget 4*len+4096 calls (seek loops read one byte per call)',
                        'v3: prefix claim on events/traces only (logs and metadata need the sections after the events)']


def replay(ctx, path):
    rp = json.load(open(path))['replay']
    blob = bytes.fromhex(rp['file_hex'])
    if rp['kind'] == 'cut':
        full, _, _, _ = pull(rp['api'], blob, 10 ** 9)
        items, status, calls, nbytes = pull(rp['api'], blob[:rp['cut']], 4 * rp['cut'] + 4097)
        print('cut', rp['cut'], 'status', status, 'reported', len(items), 'of', len(full), 'calls', calls,
              'prefix', items == full[:len(items)])
        return 0 if status != 'budget' and items == full[:len(items)] else 1
    return 0
