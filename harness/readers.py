"""Sessions over several KdBufParser objects at generator grain (spec/Readers.tla): parses opened on readers that were
constructed without tables (each must have its OWN pair) or with the caller's pair (shared on purpose), several
listings alive on one reader, read in any order; every next() and - at the end of a listing that was not disturbed -
the reader's tables and metadata attributes are validated by Readers_Val in TLC."""
import io

from .container import FileGen, encode_file, independent_decode, project_item, make_index, meta_of, tables, public, reader_of
from .tlc import validate_observations, run_tlc

VAL_CONSTS = 'CONSTANT RVariant = "ok"\n'
MC_CFG = '''SPECIFICATION Spec
CONSTANTS MaxGens = %d
 MaxSteps = %d
 RVariant = "%s"
INVARIANT YieldsAreFile
INVARIANT TablesAfter
INVARIANT MetaAfter
CHECK_DEADLOCK FALSE
'''


def model_check(ctx, neg):
    ctx.expect_ok(run_tlc('Readers_MC', MC_CFG % (3, 11 if ctx.quick else 13, 'ok'), ctx.workdir, name='readers', timeout=7200))
    what = {'sharedDefaults': 'readers constructed without tables share one default pair',
            'idxOnObject': 'string index kept on the reader object'}[neg]
    ctx.expect_violation(run_tlc('Readers_MC', MC_CFG % (2, 11, neg), ctx.workdir, name='readers_neg_' + neg, timeout=900,
                                 allow_error=True), what)


def run_session(rnd, versions, nreaders=4, force_logs=False):
    from pykdebugparser.kd_buf_parser import KdBufParser
    g = FileGen(rnd)
    files = []
    for _ in range(rnd.randrange(2, 4)):
        v = rnd.choice(versions)
        files.append(g.v2(nrec=rnd.choice([0, 1, 2, 4])) if v == 2 else g.v3(nrec=rnd.choice([0, 1, 3]), nblocks=rnd.choice([1, 3, 5]), force_logs=force_logs))
    blobs = [encode_file(f)[0] for f in files]
    index = [make_index(f['_recs']) for f in files]
    d1 = ({}, {})
    specs = [{'own': True}, {'own': True}, {'own': False, 'dict': 1}, {'own': False, 'dict': 1}]
    rnd.shuffle(specs)
    specs = specs[:nreaders]
    objs = [KdBufParser() if s['own'] else KdBufParser(d1[0], d1[1]) for s in specs]
    acts, script, gens = [], [], []

    def do_open(r=None, fi=None):
        r = rnd.randrange(len(objs)) if r is None else r
        fi = rnd.randrange(len(files)) if fi is None else fi
        try:
            it = objs[r].parse(reader_of(rnd, blobs[fi]))
        except Exception as ex:
            acts.append({'op': 'open', 'r': r + 1, 'f': fi + 1, 'err': type(ex).__name__})
            return None
        gens.append([it, r, fi, True, {k_: list(v_) for k_, v_ in index[fi].items()}])   # each listing counts its own yields
        # the table pair of EVERY reader object right after the request was made (nothing has been read yet)
        acts.append({'op': 'open', 'r': r + 1, 'f': fi + 1,
                     'tabs': [list(tables(o_.threads_pids, o_.pids_names)) for o_ in objs]})
        script.append('open #%d reader %d (%s) file %d (v%d)' % (len(gens), r + 1, 'own tables' if specs[r]['own'] else 'caller pair',
                                                                  fi + 1, files[fi]['ver']))
        return len(gens) - 1

    def do_adv(gi):
        it, r, fi, alive, own_index = gens[gi]
        a = {'op': 'adv', 'g': gi + 1}
        try:
            x = next(it)
            a['found'] = True
            a['item'] = project_item(x, own_index)
        except StopIteration:
            a['found'] = False
            a['item'] = {}
            a['tpid'], a['pname'] = tables(objs[r].threads_pids, objs[r].pids_names)
            a['meta'] = meta_of(objs[r])
            # ... and the table pair of EVERY reader object at this moment
            a['tabs'] = [list(tables(o_.threads_pids, o_.pids_names)) for o_ in objs]
            gens[gi][3] = False
        except Exception as ex:
            a['found'] = False
            a['item'] = {}
            a['err'] = type(ex).__name__ + ':' + str(ex)[:60]
            gens[gi][3] = False
        acts.append(a)
        script.append('next #%d -> %s' % (gi + 1, a.get('err') or (a['item'] if a['found'] else 'end')))
        return a['found']

    def failed():
        return bool(acts) and 'err' in acts[-1]

    scenario = rnd.choice(['sequential', 'alternate', 'alternate', 'random', 'reparse'])
    shared = [i for i, s_ in enumerate(specs) if not s_['own']]
    if scenario == 'reparse' and len(shared) >= 2 and len(files) >= 2:
        # ONE reader object parses a file, ANOTHER reader object on the same caller-supplied table pair parses another file,
        # then the first one parses ITS file again (same thread map as before): the tables are that file's map again
        f1, f2 = rnd.sample(range(len(files)), 2)
        for r_, f_ in ((shared[0], f1), (shared[1], f2), (shared[0], f1), (shared[1], f1)):
            gi = do_open(r_, f_)
            while gi is not None and do_adv(gi):
                pass
            if failed():
                break
    elif scenario == 'sequential' or scenario == 'reparse':          # one parse after the other, on any reader
        for _ in range(rnd.randrange(2, 5)):
            gi = do_open()
            while gi is not None and do_adv(gi):
                pass
            if failed():
                break
    elif scenario == 'alternate':         # two or three listings alive together, read alternately to their ends
        gis = [x for x in (do_open() for _ in range(rnd.randrange(2, 4))) if x is not None]
        for _ in range(300):
            live = [x for x in gis if gens[x][3]]
            if not live or failed():
                break
            gi = rnd.choice(live)
            for _ in range(rnd.randrange(1, 3)):
                if not do_adv(gi):
                    break
    else:
        for _ in range(30):
            live = [i for i, x in enumerate(gens) if x[3]]
            if (rnd.random() < 0.3 or not live) and len(gens) < 5:
                do_open()
            elif live:
                do_adv(rnd.choice(live))
            if failed():
                break
        for i, x in enumerate(gens):
            while x[3] and not failed() and do_adv(i):
                pass
    return {'files': [public(f) for f in files], 'readers': specs, 'acts': acts}, script, blobs, gens


def run_sessions(ctx, rnd, n, versions, tag, nreaders=4, force_logs=False):
    obs, info, keep = [], {}, []
    nadv = 0
    for i in range(n):
        o, script, blobs, gens = run_session(rnd, versions, nreaders=rnd.choice([nreaders, 2]), force_logs=force_logs)
        keep.append(gens)
        if len(keep) > 30:
            del keep[0]
        o['id'] = '%s%d' % (tag, i)
        obs.append(o)
        info[o['id']] = (script, blobs)
        nadv += sum(1 for a in o['acts'] if a['op'] == 'adv')
    nv, rej, _ = validate_observations('Readers_Val', obs, ctx.workdir, name=tag + 'val', consts=VAL_CONSTS, timeout=3000)
    ctx.traces += nv
    for oid, clause in rej:
        script, blobs = info[oid]
        cl, _, at = clause.partition('@')
        # clause ownership: the metadata sections are C03's, the thread / process tables C02's and C03's; C16 pins what the
        # log records decode to (the yields)
        meta = ('trace_codes', 'kernel_extensions', 'dyld_modules', 'processes', 'images')
        tabs = ('request-changed-tables', 'tables-of-some-reader-object')
        if (ctx.prop == 'C02' and cl in meta) or (ctx.prop == 'C16' and cl in meta + tabs):
            ctx.extra['deviations_left_to_other_checks'] = ctx.extra.get('deviations_left_to_other_checks', 0) + 1
            continue
        ctx.violation('%s/readers/%s' % (ctx.prop, cl), 'reader session %s: %s at action %s; script: %s'
                      % (oid, cl, at, ' ; '.join(script)[:1500]),
                      {'kind': 'readers', 'clause': clause, 'script': script, 'files_hex': [b.hex() for b in blobs]})
    ctx.extra.setdefault('reader_sessions', {}).update({'sessions': nv, 'next_calls': nadv, 'versions': list(versions)})
