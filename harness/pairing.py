"""Abstraction layer between the concrete TracesParser and Pairing.tla.

A `World` owns the code table in force, the frozen decoder audit and the abstract<->concrete maps
(thread ids, event ids, address ranks, image ids).  Generators build streams of `AEv` (abstract event +
recipe for the concrete Kevent); `run_stream` drives the real TracesParser one event at a time and projects
every step to the observation format validated by Pairing_Val.tla."""
import dataclasses
import json
import os
import struct
import uuid

from .encode import make_event, lookup_records, global_string_records, threadname_records, MASK64

HERE = os.path.dirname(os.path.abspath(__file__))
with open(os.path.join(HERE, 'audit.json')) as _f:
    AUDIT = json.load(_f)

PATH_CLASSES = ('SYS1', 'SYS2', 'SPAWN', 'RENAMEAT', 'LINKAT', 'SYMLINKAT', 'FSSNAP')
TRC_CLASSES = ('NTD', 'EXD', 'TERM', 'TPID', 'GSTR', 'NTS', 'EXS', 'PEXIT', 'TNAME', 'TNAMEP')
RANK_BASE = 0x100000000
RANK_STEP = 0x1000
UNDECODED_RFA = 'RealFaultAddressPurgeable'


class RecordingDict(dict):
    """dict that logs assignments (observes the shared tables from outside, no hook in the repo)."""

    def __init__(self, tbl, log, *a):
        super().__init__(*a)
        self.tbl = tbl
        self.log = log

    def __setitem__(self, k, v):
        self.log.append((self.tbl, k, v))
        super().__setitem__(k, v)

    def clear(self):
        self.log.append((self.tbl, '__clear__', None))
        super().clear()

    def update(self, *a, **kw):
        for k, v in dict(*a, **kw).items():
            self[k] = v


_DEFAULT_CODES = None


def default_codes():
    global _DEFAULT_CODES
    if _DEFAULT_CODES is None:
        from pykdebugparser.trace_codes import default_trace_codes
        _DEFAULT_CODES = default_trace_codes()
    return _DEFAULT_CODES


class AEv:
    __slots__ = ('abs', 'debugid', 'ctid', 'words', 'data', 'name')

    def __init__(self, abs_, debugid, ctid, words=None, data=None, name=None):
        self.abs = abs_
        self.debugid = debugid
        self.ctid = ctid
        self.words = words
        self.data = data
        self.name = name


class World:
    def __init__(self, rnd, codes=None, big_tids=True, allow_zero_tid=True, ts='inc'):
        from . import decoy
        decoy.tick()          # other objects with other code tables are at work in the same process (harness/decoy.py)
        self.rnd = rnd
        # timestamps of the concrete records: strictly increasing, coarse ticks (runs of EQUAL timestamps, as two
        # records written back to back share a timebase tick) or all equal.  Event identity never uses timestamps
        # in the checks that pass ts='any'.
        self.ts_mode = rnd.choice(['inc', 'inc', 'tied', 'tied', 'const']) if ts == 'any' else ts
        self.ts_g = rnd.choice([2, 3, 5])
        # the table handed to the code: a fresh copy of the bundled one, or the caller's ONE table object that other
        # requests (decoys) refill in place between the cases
        self.codes = (decoy.caller_table() if rnd.random() < 0.5 else dict(default_codes())) if codes is None else codes
        self.parser_codes = self.codes        # the table handed to the code (may be the code's own parse of a text)
        self._derive(codes is None)
        self.tids = {}
        self.rtids = {}
        self.big_tids = big_tids
        # boundary value: one abstract thread (if any) IS thread id 0 in about a quarter of the worlds
        self.zero_tid = rnd.choice([1, 2, 3]) if rnd.random() < 0.25 else None
        if not allow_zero_tid:      # log records: thread id 0 means "no thread" there, the abstraction keeps 0 for it
            self.zero_tid = None
        self.code_ids = {}
        self.unknown_ids = []
        while len(self.unknown_ids) < 8:
            c = (rnd.getrandbits(30) << 2) & 0xfffffffc
            if c not in self.codes and not (0x1320008 <= c <= 0x1320014):
                self.unknown_ids.append(c)

    _DERIVED = {}     # of the BUNDLED table (its contents never change; read-only structures shared by the worlds)

    def _derive(self, bundled):
        """name -> id(s), decoders per class, the named-but-undecoded codes: functions of the table's contents"""
        if bundled and World._DERIVED:
            self.__dict__.update(World._DERIVED)
            return
        self.name2id = {}
        self.name_ids = {}            # a supplied table may give one name to several ids: all of them decode
        for i, n in self.codes.items():
            if i & 3 == 0:
                self.name2id.setdefault(n, i)
                self.name_ids.setdefault(n, []).append(i)
        self.by_cls = {}
        for n, a in AUDIT.items():
            if n in self.name2id and a.get('cls'):
                self.by_cls.setdefault(a['cls'], []).append(n)
        for v in self.by_cls.values():
            v.sort()
        handled = set(AUDIT) | current_handler_names()      # also decoders the working tree registers beyond the frozen audit
        self.known_names = sorted(n for n in self.name2id if n not in handled and n != UNDECODED_RFA)
        # named codes WITHOUT a decoder that sit next to decoded ones: the whole trace class (lost events, panic,
        # timestamps ...) and the subclasses that also hold decoded codes - the likeliest place for a special case
        hsub = {self.name2id[n] >> 16 for n in handled if n in self.name2id}
        self.trace_known = [n for n in self.known_names if self.name2id[n] >> 24 == 7]
        self.near_known = [n for n in self.known_names if self.name2id[n] >> 16 in hsub and self.name2id[n] >> 24 != 7]
        if bundled:
            World._DERIVED = {k: getattr(self, k) for k in ('name2id', 'name_ids', 'by_cls', 'known_names', 'trace_known', 'near_known')}

    # ---- maps
    def ctid(self, t):
        if t not in self.tids:
            if t == self.zero_tid and 0 not in self.rtids:
                self.tids[t] = 0
                self.rtids[0] = t
                return 0
            while True:
                c = self.rnd.getrandbits(63) | (1 << 40) if self.big_tids else 1000 + t
                if c not in self.rtids:
                    break
            self.tids[t] = c
            self.rtids[c] = t
        return self.tids[t]

    def atid(self, c):
        return self.rtids.get(c, -2)

    def code(self, eventid):
        if eventid not in self.code_ids:
            self.code_ids[eventid] = len(self.code_ids) + 1
        return self.code_ids[eventid]

    @staticmethod
    def addr(rank, delta=0):
        return RANK_BASE + rank * RANK_STEP + delta

    @staticmethod
    def rank(addr):
        d = addr - RANK_BASE
        if d >= 0 and d % RANK_STEP == 0 and d // RANK_STEP < 100000:
            return d // RANK_STEP
        return -2

    @staticmethod
    def img_uuid(i):
        return uuid.UUID(bytes=struct.pack('>QQ', 0x1122334455667788, i))

    @staticmethod
    def img_id(u):
        if u is None:
            return -1
        hi, lo = struct.unpack('>QQ', u.bytes)
        return lo if hi == 0x1122334455667788 and lo < 100000 else -2

    # ---- in-domain words from the frozen audit
    def words(self, name, which):
        # (a decoder registered AFTER the audit was frozen: nothing is known about its domains - small plain numbers)
        a = AUDIT.get(name) or {'dom': [[0, 1, 2, 3, 5, 7]] * 8}
        out = []
        for i in range(4):
            d = a['dom'][i + (4 if which == 'end' else 0)]
            if which == 'single':      # one record is both START and END word source: satisfy both domains
                d0, d1 = a['dom'][i], a['dom'][i + 4]
                if d0 is None or d1 is None or d0 in ('sid', 'ioctl'):
                    d = d1 if d0 is None else d0
                else:
                    d = [v for v in d0 if v in d1] or d0
            if d is None:
                r = self.rnd.random()
                if r < 0.4:
                    out.append(self.rnd.getrandbits(64))
                elif r < 0.7:
                    out.append(self.rnd.randrange(0, 1 << 16))
                else:
                    out.append(self.rnd.choice([0, 1, 2, (1 << 31), (1 << 32) - 1, (1 << 63), MASK64, 7]))
            elif d == 'sid':
                out.append(0)
            elif d == 'ioctl':         # defined direction bits, any length / group / number, any upper half
                r = self.rnd
                req = (r.choice([1, 2, 4, 6, 7]) << 29) | (r.randrange(8192) << 16) | (r.randrange(256) << 8) | r.randrange(256)
                out.append(req | (r.choice([0, 0, 0xffffffff, r.getrandbits(32)]) << 32))
            else:
                out.append(self.rnd.choice(d))
        return tuple(out)

    # ---- event constructors (abstract + concrete recipe)
    def _mk(self, name_or_id, cls, q, t, a, words=None, data=None, eid=None):
        if eid is not None:
            pass                  # the records of ONE multi-record text carry one id (whichever the table offers)
        elif isinstance(name_or_id, str):
            ids = self.name_ids[name_or_id]
            eid = ids[0] if len(ids) == 1 else self.rnd.choice(ids)
        else:
            eid = name_or_id
        abs_ = {'tid': t, 'code': self.code(eid), 'cls': cls, 'q': q, 'a': a}
        return AEv(abs_, eid | q, self.ctid(t), words, data, name_or_id if isinstance(name_or_id, str) else None)

    def sys(self, name, q, t, words=None, ood=False):
        cls = AUDIT[name]['cls'] if name in AUDIT else 'SYS0'     # decoders newer than the audit: context-free
        if words is None:
            words = self.words(name, 'end' if q == 2 else ('start' if q == 1 else 'single'))
        ev = self._mk(name, cls, q, t, {'x': 0}, words=words)
        if ood:
            # one word with an audited (restricted) domain gets a value outside it; the event is marked: a decoder failure
            # at this operation is tolerated, everything else is not
            dom = AUDIT[name]['dom'] if name in AUDIT else [None] * 8
            off = 4 if q == 2 else 0
            pos = [i for i in range(4) if isinstance(dom[i + off], list)]
            if pos:
                i = self.rnd.choice(pos)
                ws = list(ev.words)
                ws[i] = self.rnd.choice([0x7fffabcd, MASK64 - 77, 0xdead0000beef])
                ev.words = tuple(ws)
            ev.abs['ood'] = True
        return ev

    def known(self, q, t, name=None):
        if name is None:
            r = self.rnd.random()
            pool = self.trace_known if r < 0.35 and self.trace_known else (
                self.near_known if r < 0.6 and self.near_known else self.known_names)
            name = self.rnd.choice(pool)
        words = tuple(self.rnd.choice([self.rnd.getrandbits(64), self.rnd.randrange(1, 9), 0]) for _ in range(4))
        return self._mk(name, 'KNOWN', q, t, {'x': 0}, words=words)

    def unknown(self, q, t, eid=None):
        eid = eid if eid is not None else self.rnd.choice(self.unknown_ids)
        return self._mk(eid, 'UNK', q, t, {'x': 0}, words=tuple(self.rnd.getrandbits(64) for _ in range(4)))

    def chunk(self, name, cls, q, t, data, extra=None, eid=None):
        a = {'data': list(data)}
        if extra:
            a.update(extra)
        return self._mk(name, cls, q, t, a, data=data, eid=eid)

    def one_id(self, name):
        return self.rnd.choice(self.name_ids[name]) if len(self.name_ids[name]) > 1 else self.name_ids[name][0]

    def lookup(self, t, path: bytes, vid=None):
        vid = (self.rnd.getrandbits(64) if self.rnd.random() < 0.9 else 0) if vid is None else vid
        eid = self.one_id('VFS_LOOKUP')
        return [self.chunk('VFS_LOOKUP', 'LKP', q, t, d, eid=eid) for q, d in lookup_records(path, vid)]

    def gstr(self, t, text: bytes, sid, dbg=0):
        out = []
        eid = self.one_id('TRACE_STRING_GLOBAL')
        for q, d in global_string_records(text, dbg, sid):
            out.append(self.chunk('TRACE_STRING_GLOBAL', 'GSTR', q, t, d, {'sid': sid} if q & 1 else None, eid=eid))
        return out

    def tname(self, t, text: bytes, prev=False):
        n, c = ('TRACE_STRING_THREADNAME_PREV', 'TNAMEP') if prev else ('TRACE_STRING_THREADNAME', 'TNAME')
        eid = self.one_id(n)
        return [self.chunk(n, c, q, t, d, eid=eid) for q, d in threadname_records(text)]

    def ntd(self, t, ntid, pid, q=0):
        return self._mk('TRACE_DATA_NEWTHREAD', 'NTD', q, t, {'ntid': ntid, 'pid': pid},
                        words=(self.ctid(ntid), pid, self.rnd.choice([0, 0, 1, self.rnd.getrandbits(64)]), self.rnd.getrandbits(32)))

    def exd(self, t, pid, q=0):
        return self._mk('TRACE_DATA_EXEC', 'EXD', q, t, {'pid': pid},
                        words=(pid, self.rnd.getrandbits(64), self.rnd.getrandbits(64), self.rnd.getrandbits(64)))

    def _namestr(self, name, cls, t, text, q=3):
        d = text.encode().ljust(32, b'\x00')
        assert len(d) == 32
        return self._mk(name, cls, q, t, {'name': text}, data=d)

    def nts(self, t, text, q=3):
        return self._namestr('TRACE_STRING_NEWTHREAD', 'NTS', t, text, q)

    def exs(self, t, text, q=3):
        return self._namestr('TRACE_STRING_EXEC', 'EXS', t, text, q)

    def pexit(self, t, text, q=3):
        return self._namestr('TRACE_STRING_PROC_EXIT', 'PEXIT', t, text, q)

    def term(self, t, ttid, q=0):
        return self._mk('TRACE_DATA_THREAD_TERMINATE', 'TERM', q, t, {'ttid': ttid},
                        words=(self.ctid(ttid), self.rnd.getrandbits(64), self.rnd.getrandbits(64), self.rnd.getrandbits(64)))

    def tpid(self, t, pid, q=0):
        return self._mk('TRACE_DATA_THREAD_TERMINATE_PID', 'TPID', q, t, {'pid': pid},
                        words=(pid, self.rnd.getrandbits(40), self.rnd.getrandbits(64), self.rnd.getrandbits(64)))

    def usestr(self, name, q, t, sid):
        w = list(self.words(name, 'end' if q == 2 else ('start' if q == 1 else 'single')))
        for i, d in enumerate(AUDIT[name]['dom'][:4]):
            if d == 'sid':
                w[i] = sid
        return self._mk(name, 'USESTR', q, t, {'sid': sid}, words=tuple(w))

    def vmf(self, q, t, result=0, ftype=1):
        if q != 1:       # END, or a stand-alone NONE / ALL record (then it is its own END record)
            return self._mk('MACH_vmfault', 'VMF', q, t, {'result': result, 'ftype': ftype},
                            words=(self.rnd.getrandbits(64), self.rnd.getrandbits(64), result, ftype))
        return self._mk('MACH_vmfault', 'VMF', q, t, {'result': 0, 'ftype': 0},
                        words=(self.rnd.getrandbits(64), self.rnd.getrandbits(48), self.rnd.choice([0, 1]), self.rnd.getrandbits(64)))

    RFA_NAMES = ('RealFaultAddressInternal', 'RealFaultAddressExternal', 'RealFaultAddressSharedCache')

    def rfa(self, t, pid, prot, kind=0, q=0, ftype=2):
        w1 = (self.rnd.getrandbits(16) << 16) | ((prot & 0xff) << 8) | ftype
        return self._mk(self.RFA_NAMES[kind], 'RFA', q, t, {'pid': pid, 'prot': prot},
                        words=(self.rnd.getrandbits(64), w1, self.rnd.getrandbits(32), pid))

    def rfau(self, t, q=0):
        return self._mk(UNDECODED_RFA, 'RFAU', q, t, {'x': 0},
                        words=tuple(self.rnd.getrandbits(64) for _ in range(4)))

    def img(self, t, rank, iid, shared=False, q=0):
        name, cls = ('DYLD_uuid_shared_cache_a', 'SCA') if shared else ('DYLD_uuid_map_a', 'MAPA')
        data = self.img_uuid(iid).bytes + struct.pack('<QQ', self.addr(rank), self.rnd.getrandbits(32))
        return self._mk(name, cls, q, t, {'rank': rank, 'id': iid}, data=data)

    def unimg(self, t, rank, iid, kind='DYLD_uuid_unmap_a', q=0):
        """a record with the payload of an image announcement that is NOT one (unmap, or the second half 'b' of a map /
        shared-cache / unmap record): it says nothing about where an image is loaded"""
        data = self.img_uuid(iid).bytes + struct.pack('<QQ', self.addr(rank), self.rnd.getrandbits(32))
        return self._mk(kind, 'SYS0', q, t, {'x': 0}, data=data)

    def launch(self, q, t):
        return self._mk('DBG_DYLD_TIMING_LAUNCH_EXECUTABLE', 'LAUNCH', q, t, {'x': 0},
                        words=(self.rnd.getrandbits(64), self.rnd.getrandbits(48), self.rnd.getrandbits(64), self.rnd.getrandbits(64)))

    def perf(self, q, t, ti=False, us=False, other=0):
        flags = (1 if ti else 0) | (8 if us else 0) | (other & ~9 & 0x3fff)
        return self._mk('PERF_Event', 'PERF', q, t, {'ti': bool(ti), 'us': bool(us)},
                        words=(flags, self.rnd.getrandbits(16), self.rnd.getrandbits(64), self.rnd.getrandbits(64)))

    def thd(self, t, pid, ttid, q=0):
        return self._mk('PERF_THD_Data', 'THD', q, t, {'pid': pid, 'ttid': ttid},
                        words=(pid, self.ctid(ttid), self.rnd.getrandbits(40), self.rnd.getrandbits(7)))

    def uhdr(self, t, n, q=0, flags=None):
        flags = self.rnd.getrandbits(9) if flags is None else flags      # any callstack flag combination
        return self._mk('PERF_STK_UHdr', 'UHDR', q, t, {'n': n},
                        words=(flags, n, self.rnd.getrandbits(64), self.rnd.getrandbits(64)))

    def udata(self, t, franks, q=0):
        assert len(franks) == 4
        return self._mk('PERF_STK_UData', 'UDATA', q, t, {'frames': list(franks)},
                        words=tuple(self.addr(r) for r in franks))

    # ---- concretise
    def ts(self, k):
        if self.ts_mode == 'tied':
            return 1000 + 10 * (k // self.ts_g)
        return 1000 if self.ts_mode == 'const' else 1000 + 10 * k

    def concrete_bytes(self, aev, k):
        from .encode import kd_buf
        return kd_buf(self.ts(k), aev.words or (0, 0, 0, 0), aev.ctid, aev.debugid, data=aev.data)

    def concrete(self, aev, k):
        return make_event(self.ts(k), aev.debugid, aev.ctid, aev.words or (0, 0, 0, 0), aev.data)


def _b(s):
    return list(s.encode()) if isinstance(s, str) else list(s)


def project(world, trace, cls, name):
    """trace object of the code -> the field record Pairing.tla computes for its class."""
    f = {'c': cls}
    if cls in PATH_CLASSES:
        f['ps'] = [_b(getattr(trace, fn) or '') for fn in AUDIT[name]['path_fields']]
    elif cls == 'LKP':
        f['path'] = _b(trace.path)
        f['vid'] = list(int(trace.vnode_id).to_bytes(8, 'little'))
    elif cls == 'GSTR':
        f['sid'] = trace.str_id if trace.str_id < (1 << 31) else -2
        f['text'] = _b(trace.vstr)
    elif cls in ('TNAME', 'TNAMEP'):
        f['name'] = _b(trace.name)
    elif cls == 'NTD':
        f['ntid'] = world.atid(trace.tid)
        f['pid'] = trace.pid
    elif cls in ('NTS', 'EXS', 'PEXIT'):
        f['name'] = trace.name
    elif cls in ('EXD', 'TPID'):
        f['pid'] = trace.pid
    elif cls == 'TERM':
        f['ttid'] = world.atid(trace.tid)
        f['pid'] = -1 if trace.pid is None else trace.pid
        f['name'] = _b(trace.name)
    elif cls == 'USESTR':
        f['text'] = _b(trace.symbol if hasattr(trace, 'symbol') else trace.path)
    elif cls == 'RFA':
        f['pid'] = trace.pid
        f['prot'] = sum(p.value for p in trace.caller_prot)
    elif cls == 'VMF':
        f['result'] = trace.result if trace.result < (1 << 31) else -2
        f['ftype'] = -1 if trace.fault_type is None else trace.fault_type.value
        f['pid'] = -1 if trace.pid is None else trace.pid
        f['prot'] = -1 if trace.caller_prot is None else sum(p.value for p in trace.caller_prot)
    elif cls in ('MAPA', 'SCA'):
        f['rank'] = world.rank(trace.load_addr)
        f['id'] = world.img_id(trace.uuid)
    elif cls == 'LAUNCH':
        f['imgs'] = [{'rank': world.rank(i.load_addr), 'id': world.img_id(i.uuid),
                      'kind': 'SCA' if type(i).__name__ == 'DyldUuidSharedCacheA' else 'MAPA'}
                     for i in trace.uuid_map_a]
    elif cls == 'THD':
        f['pid'] = trace.pid
        f['ttid'] = world.atid(trace.tid)
    elif cls == 'UHDR':
        f['n'] = trace.nframes
    elif cls == 'UDATA':
        f['frames'] = [world.rank(x) for x in trace.frames]
    elif cls == 'PERF':
        f['thi'] = -1 if trace.th_info is None else trace.th_info.pid
        f['frames'] = [-1] if trace.cs_frames is None else [world.rank(x) for x in trace.cs_frames]
    return f


def project_eff(world, log):
    out = []
    for tbl, k, v in log:
        if k == '__clear__':
            out.append({'tbl': tbl + '_clear', 'k': 0, 'v': 0})
        elif tbl == 'tpid':
            out.append({'tbl': tbl, 'k': world.atid(k), 'v': v if isinstance(v, int) and v < (1 << 31) else -2})
        elif tbl == 'pname':
            out.append({'tbl': tbl, 'k': k if isinstance(k, int) and k < (1 << 31) else -2, 'v': v})
        elif tbl == 'tname':
            out.append({'tbl': tbl, 'k': world.atid(k), 'v': _b(v)})
        elif tbl == 'gstr':
            out.append({'tbl': tbl, 'k': k if isinstance(k, int) and k < (1 << 31) else -2, 'v': _b(v)})
    return out


class Execution:
    """Result of driving the real parser over a stream."""

    def __init__(self):
        self.steps = []
        self.traces = []      # (k, trace) for emitted traces
        self.texts = []       # (k, str(trace))
        self.error = None     # (k, exception repr)
        self.parser = None


def new_parser(world, log=None, tpid=None, pname=None):
    from pykdebugparser.traces_parser import TracesParser
    log = [] if log is None else log
    tp = RecordingDict('tpid', log, tpid or {})
    pn = RecordingDict('pname', log, pname or {})
    p = TracesParser(world.parser_codes, tp, pn)
    p.tids_names = RecordingDict('tname', log)
    p.global_strings = RecordingDict('gstr', log)
    del log[:]
    return p


def _run_gen(world, stream, parser=None, log=None, render=True):
    """generator: feeds ONE event per resumption (so several parser objects can be driven alternately); the Execution
    is the value of its StopIteration"""
    from pykdebugparser.traces_parser import TracesParser  # noqa
    log = [] if log is None else log
    p = parser if parser is not None else new_parser(world, log)
    ex = Execution()
    ex.parser = p
    conc = [world.concrete(a, k + 1) for k, a in enumerate(stream)]
    ident = {id(e): k + 1 for k, e in enumerate(conc)}
    ex.concrete = conc
    def finish(k, r, eff_log):
        """the step record of event k given what came out of it; returns False when the run must stop"""
        step = {'emit': r is not None, 'eff': project_eff(world, eff_log)}
        if r is not None:
            try:
                win = [ident.get(id(x), -1) for x in r.ktraces]
                first = r.ktraces[0]
                name = world.codes.get(first.eventid)
                # class under the audit; decoders unknown to the audit are treated as context-free
                cls = stream[win[0] - 1].abs['cls'] if win and win[0] > 0 else 'SYS0'
                step['win'] = win
                step['f'] = project(world, r, cls, name)
                if render:
                    txt = str(r)
                    ex.texts.append((k, txt))
                ex.traces.append((k, r))
            except Exception as exn:
                ex.steps.append({'emit': True, 'err': 'render:' + type(exn).__name__})
                ex.error = (k, repr(exn))
                return False
        ex.steps.append(step)
        return True

    pieces = getattr(world, 'feed_pieces', False) and not any(a.abs.get('ood') for a in stream)
    if pieces:
        # the stream handed over in consecutive PIECES, each through TracesParser.feed_generator (one result generator per
        # buffer the caller drains): the parser object is the same, nothing it remembers may be lost between two pieces
        k = 0
        while k < len(conc) and ex.error is None:
            n = world.rnd.choice([1, 2, 3, 5, 8])
            piece = list(enumerate(conc[k:k + n], k + 1))
            k += n
            marks = []
            del log[:]

            def it(piece=piece, marks=marks):
                for kk, e in piece:
                    marks.append((kk, len(log)))
                    yield e
            try:
                trs = list(p.feed_generator(it()))
            except Exception as exn:
                kk = marks[-1][0] if marks else piece[0][0]
                while len(ex.steps) < kk - 1:
                    ex.steps.append({'emit': False, 'eff': []})
                ex.steps.append({'emit': False, 'err': 'feed:' + type(exn).__name__})
                ex.error = (kk, repr(exn))
                break
            yield k
            by_last = {ident.get(id(t.ktraces[-1]), -1): t for t in trs}
            snapshot = list(log)
            for idx, (kk, start) in enumerate(marks):
                end = marks[idx + 1][1] if idx + 1 < len(marks) else len(snapshot)
                if not finish(kk, by_last.get(kk), snapshot[start:end]):
                    break
    for k, (a, e) in (() if pieces else enumerate(zip(stream, conc), 1)):
        del log[:]
        try:
            r = p.feed(e)
        except Exception as exn:
            ex.steps.append({'emit': False, 'err': 'feed:' + type(exn).__name__})
            if a.abs.get('ood'):
                yield k           # a decoder refused an out-of-domain argument: the caller catches it and goes on feeding
                continue
            ex.error = (k, repr(exn))
            break
        yield k
        if not finish(k, r, log):
            break
    # nothing already reported may be changed later: every trace must still render as it did when it was emitted
    if render and ex.error is None:
        at_emit = dict(ex.texts)
        for k, tr in ex.traces:
            try:
                now = str(tr)
            except Exception as exn:
                now = 'RAISED ' + type(exn).__name__
            if k in at_emit and now != at_emit[k]:
                ex.steps[k - 1] = {'emit': True, 'err': 'changed-after-report'}
                ex.error = (k, 'trace emitted at step %d read %r then, reads %r after the run' % (k, at_emit[k], now))
                ex.steps = ex.steps[:k]
                break
    return ex




def run_stream(world, stream, parser=None, log=None, render=True):
    """Feed the concrete events one at a time; returns Execution with per-step projections."""
    g = _run_gen(world, stream, parser, log, render)
    while True:
        try:
            next(g)
        except StopIteration as stop:
            return stop.value


def run_streams_alternating(world, streams, rnd):
    """each stream on its OWN parser object (own table dictionaries), the objects fed alternately in random bursts:
    what one object does must not depend on the other.  Returns the Executions in order."""
    gens = [_run_gen(world, st) for st in streams]
    out = [None] * len(streams)
    live = list(range(len(streams)))
    while live:
        i = rnd.choice(live)
        for _ in range(rnd.choice([1, 1, 2, 5])):
            try:
                next(gens[i])
            except StopIteration as stop:
                out[i] = stop.value
                live.remove(i)
                break
    return out


def observation(oid, stream, ex, mode):
    n = len(ex.steps)
    evs = []
    for k, a in enumerate(stream[:n], 1):
        d = dict(a.abs)
        d['k'] = k
        evs.append(d)
    return {'id': oid, 'mode': mode, 'events': evs, 'steps': ex.steps}


def describe(world, stream, upto=None):
    """Human-readable stream for replays."""
    out = []
    for k, a in enumerate(stream[:upto], 1):
        out.append({'k': k, 'ts': world.ts(k), 'tid': a.abs['tid'], 'cls': a.abs['cls'], 'q': a.abs['q'], 'name': a.name,
                    'debugid': hex(a.debugid), 'words': [hex(w) for w in (a.words or ())],
                    'data': a.data.hex() if a.data else None, 'a': {x: y for x, y in a.abs['a'].items() if x != 'data'}})
    return out


_CUR_HANDLERS = None


def current_handler_names():
    """names the WORKING TREE registers a decoder for (union of the families' tables): a name the frozen audit does not
    know may have got a decoder since - it is then no example of a 'named but undecoded' record"""
    global _CUR_HANDLERS
    if _CUR_HANDLERS is None:
        import importlib
        names = set()
        for fam in ('bsd', 'dyld', 'fsystem', 'mach', 'perf', 'trace', 'turnstile'):
            try:
                names |= set(getattr(importlib.import_module('pykdebugparser.trace_handlers.' + fam), 'handlers', {}))
            except Exception:
                pass
        try:
            from pykdebugparser.traces_parser import TracesParser
            names |= set(getattr(TracesParser({}, {}, {}), 'handlers', {}))
        except Exception:
            pass
        _CUR_HANDLERS = names
    return _CUR_HANDLERS


VAL_CONSTS = 'CONSTANT Variant = "ok"\n'


def validate_streams(ctx, cases, mode, tag, sig_prefix=None, timeout=3000, alternate_rnd=None, own=None, baseline=None,
                     baseline_rejected=(), report=True):
    """cases: list of (oid, world, stream).  Runs the code, validates by Pairing_Val, records violations.
    Returns dict oid -> Execution.  With alternate_rnd, consecutive cases of the SAME world (same thread ids, same
    codes) run on separate parser objects that are fed alternately: each must still behave as the spec says alone.
    own(clause, cls) -> bool: which deviations from Pairing belong to the property that is being checked - Pairing_Val
    compares EVERYTHING (windows: C04, texts: C08, composite fields: C20, ...), a check reports what ITS statement pins
    and counts the rest as 'foreign' (the other property's check reports it).
    baseline: oid -> [oids of the same programs run another way (each thread alone)]: a deviation is reported only when
    none of the baseline runs deviates (a RELATIONAL property: results do not depend on the interleaving)."""
    from .tlc import validate_observations
    sig_prefix = sig_prefix or ctx.prop
    obs = []
    by_id = {}
    execs = {}
    i = 0
    while i < len(cases):
        j = i + 1
        while alternate_rnd is not None and j < len(cases) and cases[j][1] is cases[i][1] and j - i < 4:
            j += 1
        group = cases[i:j]
        if len(group) > 1:
            exs = run_streams_alternating(group[0][1], [c[2] for c in group], alternate_rnd)
        else:
            exs = [run_stream(group[0][1], group[0][2])]
        for (oid, w, stream), ex in zip(group, exs):
            execs[oid] = ex
            by_id[oid] = (w, stream, ex)
            obs.append(observation(oid, stream, ex, mode))
        i = j
    nv, rej, _ = validate_observations('Pairing_Val', obs, ctx.workdir, name=tag, consts=VAL_CONSTS, timeout=timeout)
    ctx.traces += nv
    rejected = {oid for oid, _ in rej} | set(baseline_rejected)
    ctx.last_rejected = {oid for oid, _ in rej}
    if not report:
        return execs
    for oid, clause in rej:
        w, stream, ex = by_id[oid]
        cl, _, at = clause.partition('@')
        k = int(at) if at else 0
        a = stream[k - 1] if k else None
        if baseline is not None and (oid not in baseline or any(b in rejected for b in baseline[oid])):
            ctx.extra['deviations_left_to_other_checks'] = ctx.extra.get('deviations_left_to_other_checks', 0) + 1
            continue
        if own is not None and not os.environ.get('VERIF_ALL_CLAUSES') and not own(cl, a.abs['cls'] if a else '?'):
            ctx.extra['deviations_left_to_other_checks'] = ctx.extra.get('deviations_left_to_other_checks', 0) + 1
            continue
        name = (a.name or hex(a.debugid)) if a else None
        sig = '%s/%s@%s' % (sig_prefix, cl, name if cl == 'raised' else (a.abs['cls'] if a else '?'))
        got = ex.steps[k - 1] if 0 < k <= len(ex.steps) else None
        ctx.violation(sig, 'stream %s: clause %s at step %s (%s): code did %s%s'
                      % (oid, cl, at, name, json.dumps(got)[:300], ' error=%s' % (ex.error,) if ex.error else ''),
                      {'kind': 'code->spec', 'clause': clause, 'mode': mode, 'stream': describe(w, stream, k)})
    return execs


def long_windows(ctx, prop, report_lost, report_raised):
    """SCALE: an operation whose START and END are as many records apart as a size-like constant of the parser's sources
    suggests (one less, exactly, one more ...).  C07 pins that nothing raises; C04 that the trace comes out with every
    record of the window."""
    from .encode import make_event
    from pykdebugparser.traces_parser import TracesParser
    from . import mine
    codes_ = default_codes()
    n2i = {n: i for i, n in codes_.items() if i & 3 == 0}
    nlong = 0
    for h in mine.size_hints(256):
        for n_ in (h - 2, h - 1, h, h + 1, h + 2):
            p_ = TracesParser(codes_, {}, {})
            inert = [make_event(7, n2i['TRACE_INFO_STRING'], 9, (1, 2, 3, 4)), make_event(7, n2i['BSC_getpid'] | 3, 9, (0, 0, 0, 0))]
            nlong += 1
            try:
                p_.feed(make_event(5, n2i['BSC_read'] | 1, 9, (3, 4, 5, 6)))
                for k_ in range(n_ - 1):                      # n_ records in the window: START, n_ - 2 inner ones ..., END
                    p_.feed(inert[k_ & 1])
                r = p_.feed(make_event(9, n2i['BSC_read'] | 2, 9, (0, 5, 0, 0)))
                if report_lost and (r is None or len(r.ktraces) != n_ + 1):
                    ctx.violation('%s/long-window-lost' % prop, 'read() with %d records of its thread before its END: %s'
                                  % (n_ - 1, 'no trace' if r is None else 'window of %d records' % len(r.ktraces)), {'kind': 'code->spec', 'stream': []})
            except Exception as ex:
                if report_raised:
                    ctx.violation('%s/long-window-raised@%s' % (prop, type(ex).__name__), 'read() with %d records of its thread before its END raised %r'
                                  % (n_ - 1, ex), {'kind': 'code->spec', 'stream': []})
    ctx.extra['long_windows'] = nlong
