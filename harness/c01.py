"""C01 - kd_buf record decode: TLC checks the layout transcription (KdRecord_MC), the code is validated
against the transcription on every byte position x every byte value of several base records (code -> spec)."""
import random

from .tlc import run_tlc, validate_observations

MC_CFG = '''SPECIFICATION Spec
CONSTANT BaseIds = {%s}
INVARIANT TypeOK
INVARIANT RebuildExact
INVARIANT ValuesAreWordsOfData
INVARIANT IdQualReassemble
INVARIANT Locality
CHECK_DEADLOCK FALSE
'''


def le(n, size):
    return list(int(n).to_bytes(size, 'little'))


def observe(rec: bytes, oid, how=0):
    """how: 0 the record as bytes; 1 as bytearray; 2 as a memoryview of a buffer the caller REFILLS after the call
    (read-into style): the event was decoded from the record, it must not follow the buffer"""
    from pykdebugparser.kevent import from_kd_buf
    o = {'id': oid, 'r': list(rec)}
    try:
        if how == 0:
            e = from_kd_buf(rec)
        else:
            buf = bytearray(rec)
            e = from_kd_buf(buf if how == 1 else memoryview(buf))
            buf[:] = bytes(b ^ 0xa5 for b in buf)          # the caller reuses its buffer for the next record
            # (the TYPE of the argument-bytes field is not pinned; its CONTENT, read now, must still be the record's)
        o.update(ts=le(e.timestamp, 8), data=list(e.data), values=[le(v, 8) for v in e.values], tid=le(e.tid, 8),
                 debugid=le(e.debugid, 4), eventid=le(e.eventid, 4), qual=int(e.func_qualifier))
        if len(o['data']) != 32 or len(e.values) != 4:
            o['err'] = 'shape'
    except Exception as ex:   # totality: any exception is a divergence (M has no error state)
        o.update(ts=[], data=[], values=[[], [], [], []], tid=[], debugid=[], eventid=[], qual=0,
                 err=type(ex).__name__)
    return o


def _raises(f, x):
    try:
        f(x)
        return False
    except Exception:
        return True


_CRC_TABLE = []
for _i in range(256):
    _c = _i
    for _ in range(8):
        _c = (_c >> 1) ^ 0xedb88320 if _c & 1 else _c >> 1
    _CRC_TABLE.append(_c)
_CRC_REV = {t >> 24: i for i, t in enumerate(_CRC_TABLE)}


def crc32_suffix(prefix: bytes, target: int) -> bytes:
    """4 bytes s such that zlib.crc32(prefix + s) == target (CRC-32 is linear: solved backwards)"""
    import zlib
    reg = target ^ 0xffffffff
    idx = []
    for _ in range(4):
        i = _CRC_REV[reg >> 24]
        idx.append(i)
        reg = ((reg ^ _CRC_TABLE[i]) << 8) & 0xffffffff
    idx.reverse()
    r = zlib.crc32(prefix) ^ 0xffffffff
    out = bytearray()
    for i in idx:
        out.append((r ^ i) & 0xff)
        r = (r >> 8) ^ _CRC_TABLE[i]
    s = bytes(out)
    assert zlib.crc32(prefix + s) == target
    return s


def colliding_twin(rnd, field: bytes) -> bytes:
    """another value of a field that COLLIDES with it under a cheap digest a memo might be keyed by: equal CRC-32,
    equal byte sum / word xor (words permuted), equal low halves of every word, equal first / last 8 bytes"""
    import zlib
    n = len(field)
    kind = rnd.choice(['crc', 'crc', 'perm', 'low', 'head', 'tail'])
    if kind == 'crc' and n >= 8:
        pre = bytes(rnd.getrandbits(8) for _ in range(n - 4))
        return pre + crc32_suffix(pre, zlib.crc32(field))
    if kind == 'perm' and n >= 16:
        ws = [field[i:i + 8] for i in range(0, n, 8)]
        rnd.shuffle(ws)
        return b''.join(ws)
    if kind == 'low' and n >= 8:
        return b''.join(field[i:i + 4] + bytes(rnd.getrandbits(8) for _ in range(4)) for i in range(0, n, 8))[:n]
    if kind == 'head':
        return field[:8] + bytes(rnd.getrandbits(8) for _ in range(n - 8))
    return bytes(rnd.getrandbits(8) for _ in range(n - 8)) + field[-8:]


def run(ctx):
    rnd = random.Random(ctx.seed)
    nb = 2 if ctx.quick else 4
    r = run_tlc('KdRecord_MC', MC_CFG % ', '.join(str(i + 1) for i in range(nb)), ctx.workdir, timeout=900)
    ctx.expect_ok(r)
    bases = [bytes(64), bytes([255] * 64), bytes((i * 37 + 11) % 256 for i in range(1, 65)),
             bytes.fromhex('8bf38f3113eb030065776f726b5f427573696e657373436861742d372e302e312d7079322e707933'
                           'de4a88000000000090000103010000000000000000000000')]
    bases = bases[:3 if ctx.quick else 4]
    bases += [bytes(rnd.getrandbits(8) for _ in range(64)) for _ in range(1 if ctx.quick else 6)]
    obs = []
    recs = {}
    for bi, b in enumerate(bases):
        for pos in range(64):
            for val in range(256):
                m = bytearray(b)
                m[pos] = val
                oid = 'b%d_p%d_v%d' % (bi, pos, val)
                recs[oid] = bytes(m)
                obs.append(observe(bytes(m), oid))
    for k in range(3000 if ctx.quick else 200000):
        rec = bytes(rnd.getrandbits(8) for _ in range(64))
        oid = 'rnd%d' % k
        recs[oid] = rec
        obs.append(observe(rec, oid, how=k % 3))
    # every event id of the bundled code table x the four qualifiers as debug id, other fields random / structured
    from pykdebugparser.trace_codes import default_trace_codes
    import struct
    ids = sorted(default_trace_codes())
    for k, eid in enumerate(ids):
        for q in range(4):
            dbg = (eid & 0xfffffffc) | q
            args = [rnd.getrandbits(64) for _ in range(4)]
            rec = struct.pack('<Q4QQIIQ', rnd.getrandbits(64), *args, rnd.getrandbits(64), dbg, rnd.getrandbits(32),
                              rnd.getrandbits(64))
            oid = 'tab%d_%d' % (k, q)
            recs[oid] = rec
            obs.append(observe(rec, oid))
    ctx.extra['table_debugids'] = 4 * len(ids)
    # ... and every event id of the table with argument bytes as records of THAT kind may carry them: a short text padded with
    # NULs (string / path records), all NUL, a NUL last / first byte, NUL words between non-NUL words.  What the record "means"
    # never changes how it decodes: data is the 32 bytes, values their words.
    nshaped = 0
    for k, eid in enumerate(ids):
        shapes = [b'/a/path'.ljust(32, b'\x00'), bytes(32), bytes(rnd.getrandbits(8) | 1 for _ in range(31)) + b'\x00',
                  b'\x00' + bytes(rnd.getrandbits(8) | 1 for _ in range(31)),
                  bytes(rnd.getrandbits(8) | 1 for _ in range(8)) + bytes(16) + bytes(rnd.getrandbits(8) | 1 for _ in range(8)),
                  bytes(rnd.getrandbits(8) | 1 for _ in range(rnd.randrange(1, 32))).ljust(32, b'\x00'),
                  b' text \n'.ljust(32, b' '), bytes(24) + b'tail' + bytes(4)]
        for si, data in enumerate(shapes if not ctx.quick else shapes[(k % 2) * 4:(k % 2) * 4 + 4]):
            dbg = (eid & 0xfffffffc) | ((k + si) % 4)
            rec = struct.pack('<Q', rnd.getrandbits(64)) + data + struct.pack('<QIIQ', rnd.getrandbits(64), dbg, rnd.getrandbits(32),
                                                                           rnd.getrandbits(64))
            oid = 'shp%d_%d' % (k, si)
            nshaped += 1
            recs[oid] = rec
            obs.append(observe(rec, oid, how=nshaped % 3))
    ctx.extra['table_debugids_with_shaped_argument_bytes'] = nshaped
    # TEXT-LIKE fields: records that carry a chunk of a string (paths, thread names, format strings) fill their argument
    # bytes - or any field - with bytes of one small class: blanks, ASCII white space, digits, letters, NUL / blank mixes,
    # one repeated byte.  (str / bytes helpers - strip, isdigit, isspace, split, int() - treat exactly these specially.)
    ALPHABETS = [b' ', b' \t\n\r\x0b\x0c', b'\n', b'\t ', b'0', b'0123456789', b'abcxyz', b'\x00 ', b'\x00\n', b'%s %d\n', b'\xff ', b'/', b'. ',
                 b'\x1c\x1d\x1e\x1f', b'\x85\xa0', b'_-']
    SPANS = [(8, 40), (8, 16), (16, 24), (24, 32), (32, 40), (0, 8), (40, 48), (48, 52), (52, 64), (0, 64), (8, 39), (9, 40), (0, 40), (8, 64)]
    ntext = 0
    for ai, alpha in enumerate(ALPHABETS):
        for (a_, b_) in SPANS:
            for rest in range(3 if ctx.quick else 8):
                rec = bytearray(64) if rest == 0 else bytearray([255] * 64) if rest == 1 else bytearray(rnd.getrandbits(8) for _ in range(64))
                rec[a_:b_] = bytes(rnd.choice(alpha) for _ in range(b_ - a_))
                oid = 'txt%d' % ntext
                ntext += 1
                recs[oid] = bytes(rec)
                obs.append(observe(bytes(rec), oid, how=ntext % 3))
    ctx.extra['text_like_field_fills'] = ntext
    # equal values in two fields: field B (any of the 9 fields, output or not) carries a part of field A
    FIELDS = [('ts', 0, 8), ('a0', 8, 8), ('a1', 16, 8), ('a2', 24, 8), ('a3', 32, 8), ('tid', 40, 8), ('dbg', 48, 4),
              ('cpu', 52, 4), ('unused', 56, 8)]
    n = 0
    for fa, oa, la in FIELDS:
        for fb, ob, lb in FIELDS:
            if fa == fb:
                continue
            for part in ('whole', 'top1', 'low1', 'top4', 'low4'):
                for zero_rest in (False, True):
                    rec = bytearray(64) if zero_rest else bytearray(rnd.getrandbits(8) for _ in range(64))
                    a = bytes(rnd.getrandbits(8) | 1 for _ in range(la))
                    rec[oa:oa + la] = a
                    v = int.from_bytes(a, 'little')
                    x = {'whole': v, 'top1': v >> (8 * la - 8), 'low1': v & 0xff, 'top4': v >> (8 * la - 32),
                         'low4': v & 0xffffffff}[part]
                    rec[ob:ob + lb] = (x & ((1 << (8 * lb)) - 1)).to_bytes(lb, 'little')
                    oid = 'eq%d' % n
                    n += 1
                    recs[oid] = bytes(rec)
                    obs.append(observe(bytes(rec), oid))
    ctx.extra['cross_field_equalities'] = n
    # records decoded one after the other whose fields COLLIDE under a cheap digest (a result remembered per digest of
    # the argument bytes / of the record must not come back for another record)
    ncol = 0
    for k in range(400 if ctx.quick else 20000):
        a = bytearray(rnd.getrandbits(8) for _ in range(64))
        b = bytearray(a) if rnd.random() < 0.5 else bytearray(rnd.getrandbits(8) for _ in range(64))
        fo, fl = rnd.choice([(8, 32), (8, 32), (8, 32), (0, 8), (40, 8), (0, 52), (0, 64)])
        twin = colliding_twin(rnd, bytes(a[fo:fo + fl]))
        assert len(twin) == fl
        b[fo:fo + fl] = twin
        for tag, rec in (('a', a), ('b', b), ('a2', a)):
            oid = 'col%d_%s' % (k, tag)
            recs[oid] = bytes(rec)
            obs.append(observe(bytes(rec), oid))
        ncol += 1
    ctx.extra['digest_colliding_pairs'] = ncol
    # the same decoding through the file readers (KdBufParser.parse, PyKdebugParser.kevents): every record of a version-2
    # file - also one that BEGINS with bytes the reader looks for elsewhere (version magics, tags) - comes out as the event
    # from_kd_buf gives for it
    import io
    from pykdebugparser.kevent import from_kd_buf
    from pykdebugparser.kd_buf_parser import KdBufParser
    from pykdebugparser.pykdebugparser import PyKdebugParser
    from .encode import encode_v2
    from . import mine
    nfile = 0
    for k in range(12 if ctx.quick else 200):
        rs = []
        for j in range(rnd.choice([3, 8, 40])):
            r_ = bytearray(rnd.getrandbits(8) for _ in range(64))
            if j == 0:
                r_[0] = r_[0] or 1
            elif rnd.random() < 0.3:
                m_ = rnd.choice(mine.infra()['bytes'] or [b'\x00\x02\xaa\x55'])
                r_[0:len(m_)] = m_
            rs.append(bytes(r_))
        blob, _lay = encode_v2([(5, 6, b'p', b'')], rnd.choice([0, 0, 64]), rs)
        try:
            want = [tuple(from_kd_buf(r_)) for r_ in rs]
        except Exception as ex:
            bad = next(r_ for r_ in rs if _raises(from_kd_buf, r_))
            ctx.violation('C01/raised', 'from_kd_buf raised %r on the 64-byte record %s' % (ex, bad.hex()),
                          {'record_hex': bad.hex(), 'clause': 'raised'})
            continue
        for via in ('kdbuf', 'api'):
            try:
                got = [tuple(e) for e in (KdBufParser({}, {}).parse(io.BytesIO(blob)) if via == 'kdbuf' else PyKdebugParser().kevents(io.BytesIO(blob)))]
            except Exception as ex:
                got = ['raised ' + repr(ex)]
            nfile += 1
            if got != want:
                d_ = next((i for i in range(max(len(got), len(want))) if i >= len(got) or i >= len(want) or got[i] != want[i]), 0)
                ctx.violation('C01/through-reader/%s' % via, 'record %d of a %d-record version-2 file (%s) is not decoded as from_kd_buf decodes it: %r'
                              % (d_, len(rs), rs[d_].hex() if d_ < len(rs) else '-', got[d_] if d_ < len(got) else None),
                              {'record_hex': rs[d_].hex() if d_ < len(rs) else '', 'clause': 'through-reader'})
    ctx.extra['files_through_readers'] = nfile
    ctx.sample({'record_hex': bases[2].hex(), 'decoded': {k: v for k, v in obs[2 * 16384].items() if k != 'r'}})
    n, rej, results = validate_observations('KdRecord_Val', obs, ctx.workdir, timeout=1800)
    ctx.traces += n
    ctx.extra['distinct_records'] = len(set(recs.values()))
    ctx.extra['exhaustive'] = False
    ctx.extra['rule'] = ('every byte position x every byte value on %d base records + uniformly random records; '
                         'each decoded by from_kd_buf and compared field-by-field with KdRecord!Decode' % len(bases))
    ctx.assumptions += ['int.to_bytes little-endian conversion of the Kevent ints is trusted',
                        'TLC checks locality/rebuild on the transcription for %d base records x 64 positions x 256 values' % nb]
    for oid, clause in rej:
        ctx.violation('C01/%s' % clause, 'from_kd_buf(%s) disagrees with KdRecord!Decode in %s' % (recs[oid].hex(), clause),
                      {'record_hex': recs[oid].hex(), 'clause': clause})


def replay(ctx, path):
    import json
    rp = json.load(open(path))['replay']
    o = observe(bytes.fromhex(rp['record_hex']), 'replay')
    n, rej, _ = validate_observations('KdRecord_Val', [o], ctx.workdir)
    print('replay:', o, rej)
    return 1 if rej else 0
