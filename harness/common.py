"""Check context: tiers/seeds, evidence, replays, known findings, verdict plumbing."""
import hashlib
import importlib
import json
import os
import shutil
import sys
import time
import traceback

VERIF = os.path.dirname(os.path.dirname(os.path.abspath(__file__)))
REPO = os.environ.get('VERIF_REPO', '/repo')
GUARD = 'PYKDEBUGPARSER_VERIF'


def import_repo():
    """Make `pykdebugparser` import from the working tree under test (fresh interpreter per check)."""
    if sys.path[0] != REPO:
        sys.path.insert(0, REPO)
    for m in list(sys.modules):
        if m == 'pykdebugparser' or m.startswith('pykdebugparser.'):
            del sys.modules[m]
    os.environ[GUARD] = '1'
    import pykdebugparser  # noqa
    got = os.path.dirname(os.path.dirname(os.path.abspath(pykdebugparser.__file__)))
    if os.path.realpath(got) != os.path.realpath(REPO):
        raise RuntimeError('pykdebugparser imported from %s, expected %s' % (got, REPO))


class MachineryFailure(Exception):
    pass


class Ctx:
    def __init__(self, prop, tier, seed):
        self.prop = prop
        self.tier = tier
        self.seed = seed
        self.t0 = time.time()
        self.workdir = os.path.join(VERIF, 'work', '%s_%d' % (prop, os.getpid()))
        shutil.rmtree(self.workdir, ignore_errors=True)
        os.makedirs(self.workdir, exist_ok=True)
        self.tlc_runs = []
        self.states = 0
        self.transitions = 0
        self.traces = 0
        self.evaluations = 0
        self.samples = []
        self.violations = []       # (signature, what, replay)
        self.known_hits = {}
        self.extra = {}
        self.assumptions = []
        self.notes = []
        self.quick = tier != 'thorough'
        with open(os.path.join(VERIF, 'known_findings.json')) as f:
            kf = json.load(f)
        self.known = {e['signature']: e for e in kf.get('findings', [])
                      if e.get('property') == prop and e.get('status') == 'open'}

    # ---- TLC bookkeeping
    def add_tlc(self, r, counts=True):
        self.tlc_runs.append(r.summary())
        if counts:
            self.states += r.distinct
            self.transitions += r.generated
        return r

    def expect_ok(self, r, what=None):
        """A model-checking run of M |= P must complete without violation, otherwise it is a machinery failure
        (the spec is ours): a property violation in the *design* is never silently turned into a verdict on code."""
        self.add_tlc(r)
        if r.violated is not None or not r.completed:
            raise MachineryFailure('TLC run %s: violated=%s completed=%s\n%s'
                                   % (r.name, r.violated, r.completed, r.out[-3000:]))
        return r

    def expect_violation(self, r, what):
        """Negative control: the defective design must be rejected by TLC (guards against vacuous properties)."""
        self.tlc_runs.append(dict(r.summary(), negative_control=what))
        if r.violated is None:
            raise MachineryFailure('negative control %s was NOT rejected by TLC (vacuous property?)\n%s'
                                   % (r.name, r.out[-2000:]))
        return r

    def sample(self, s, cap=6):
        if len(self.samples) < cap:
            self.samples.append(s)

    # ---- verdicts
    def violation(self, signature, what, replay=None):
        """signature: stable id of the failing site/input class (used for known findings)."""
        if signature in self.known:
            self.known_hits.setdefault(signature, what)
            return
        if len(self.violations) < 50:
            self.violations.append((signature, what, replay))
        else:
            self.violations.append((signature, what, None))

    def finish(self):
        wall = time.time() - self.t0
        rc = 0
        for sig, what in sorted(self.known_hits.items()):
            print('KNOWN-FINDING: property=%s %s: %s' % (self.prop, sig, self.known[sig].get('what', what)))
        seen = set()
        rdir = os.path.join('/tmp/verif_mut_replays' if os.environ.get('VERIF_NO_EVIDENCE') else os.path.join(VERIF, 'replays'), self.prop)
        os.makedirs(rdir, exist_ok=True)
        for sig, what, replay in self.violations:
            if sig in seen:
                continue
            seen.add(sig)
            rc = 1
            body = json.dumps({'property': self.prop, 'signature': sig, 'what': what, 'replay': replay,
                               'seed': self.seed, 'tier': self.tier}, indent=1, default=str)
            h = hashlib.sha1(body.encode()).hexdigest()[:12]
            path = os.path.join(rdir, h + '.json')
            with open(path, 'w') as f:
                f.write(body)
            print('VIOLATION property=%s replay=%s' % (self.prop, path))
            print('  signature: %s' % sig)
            print('  %s' % str(what)[:600])
        cov = {
            'states': max(self.states, 0),
            'transitions': max(self.transitions, 0),
            'traces_validated_against_impl': self.traces,
            'evaluations': max(self.evaluations, self.traces),
            'samples': self.samples or ['(none)'],
            'tlc_runs': self.tlc_runs,
            'known_findings_hit': sorted(self.known_hits),
            'distinct_violation_signatures': sorted(seen),
        }
        cov.update(self.extra)
        ev = {
            'property_id': self.prop,
            'tier': 'thorough' if self.tier == 'thorough' else 'quick',
            'seed': self.seed,
            'level': 'model_checking',
            'coverage': cov,
            'assumptions': self.assumptions,
            'wall_s': round(wall, 2),
            'violations': len(seen),
        }
        if not os.environ.get('VERIF_NO_EVIDENCE'):
            os.makedirs(os.path.join(VERIF, 'evidence'), exist_ok=True)
            with open(os.path.join(VERIF, 'evidence', self.prop + '.json'), 'w') as f:
                json.dump(ev, f, indent=1, default=str)
        shutil.rmtree(self.workdir, ignore_errors=True)
        print('%s %s: tier=%s seed=%d states=%d transitions=%d impl_traces=%d known=%d violations=%d wall=%.1fs'
              % (self.prop, 'FAIL' if rc else 'ok', self.tier, self.seed, self.states, self.transitions,
                 self.traces, len(self.known_hits), len(seen), wall))
        return rc


def run_check(prop, tier, seed, replay=None):
    mod = importlib.import_module('harness.%s' % prop.lower())
    ctx = Ctx(prop, tier, seed)
    try:
        import_repo()
        if replay:
            return mod.replay(ctx, replay)
        from . import decoy, mine
        mine.SIZE_CAP = int(os.environ.get('VERIF_SIZE_CAP') or ((1 << 21) + 64 if tier == 'thorough' else (1 << 20) + 64))
        decoy.burst(full=True)   # other objects with other code tables / string indexes were at work before the check starts
        for _ in range(3):
            decoy.burst()
        mod.run(ctx)
        ctx.extra.update(decoy.stats())
        return ctx.finish()
    except Exception as ex:
        traceback.print_exc()
        # an exception that ESCAPES FROM THE PACKAGE UNDER TEST at a place where the harness uses it without a guard (as its
        # own oracle, for bookkeeping): the harness only hands over inputs of the property's domain, and on the unchanged tree
        # the same seeded inputs pass - the code under test failed on a legal input, which every property excludes
        if not replay:
            try:
                import pykdebugparser
                root = os.path.dirname(os.path.abspath(pykdebugparser.__file__))
                tb = ex.__traceback__
                frames = []
                while tb is not None:
                    frames.append((os.path.abspath(tb.tb_frame.f_code.co_filename), tb.tb_lineno))
                    tb = tb.tb_next
                inside = [f for f in frames if f[0].startswith(root + os.sep)]
                hsite = [f for f in frames if f[0].startswith(os.path.join(VERIF, 'harness'))]
                if inside:
                    ctx.violation('%s/raised-in-code-under-test@%s' % (prop, type(ex).__name__),
                                  'the package raised %r at %s:%d on an input the harness handed it at %s:%d (unguarded use)'
                                  % (ex, os.path.relpath(inside[-1][0], os.path.dirname(root)), inside[-1][1],
                                     os.path.basename(hsite[-1][0]) if hsite else '?', hsite[-1][1] if hsite else 0),
                                  {'kind': 'escaped-exception', 'exception': repr(ex)[:300]})
            except Exception:
                traceback.print_exc()
        if ctx.violations and not replay:
            # the tree under test broke so much that the bookkeeping after the comparisons failed: what was already found counts
            print('note: the check could not complete (exception above); reporting the violations found before it')
            try:
                return ctx.finish()
            except Exception:
                traceback.print_exc()
        shutil.rmtree(ctx.workdir, ignore_errors=True)
        print('MACHINERY-FAILURE property=%s (exit 2; not a verdict)' % prop)
        return 2
