"""Sessions on ONE PyKdebugParser object at generator grain (spec/Sessions.tla).

A session is a seeded sequence of caller actions - settings assigned or edited in place, request methods called
(kevents / formatted_kevents with code table A or B / traces / callstacks, on one of two dumps), single next() calls on
any live listing in any order, listings abandoned half way but kept referenced - recorded with what every next()
returned.  Sessions_Val.tla folds the Sessions mechanism over the actions: every item must be the one the mechanism
yields, a listing read undisturbed must equal Pipeline's atomic reference whatever happened before, and the selection
of every listing must equal the reference under any interleaving."""
import io
import random

from .pairing import describe
from .pipeline import apply_cfg, cfg_of, parse_proc
from .tlc import validate_observations

VAL_CONSTS = 'CONSTANTS Variant = "ok"\n PVariant = "ok"\n SVariant = "ok"\n'
KINDS_ALL = ('kev', 'fkev', 'tr', 'cs')
KINDS_LOGS = ('logs', 'logs', 'kev', 'fkev', 'tr')


def make_tables(rnd, w, dumps):
    """code tables A / B for formatted_kevents: every event id of the dumps is named by A, B or both or neither"""
    ids = sorted({a.debugid & 0xfffffffc for d in dumps for a in d.stream})
    A, B = {}, {}
    for eid in ids:
        r = rnd.random()
        if r < 0.75:
            A[eid] = 'A_%x' % eid
        if 0.35 < r or r < 0.1:
            B[eid] = 'B_%x' % eid
    return A, B


def item_of(w, p, dump, kind, x):
    if kind == 'kev':
        return {'k': dump.k_of(x) if isinstance(x, tuple) else -1, 'name': '-',
                'proc': parse_proc(p._format_process(x.tid))}
    if kind == 'fkev':
        ts, _, rest = x.partition(' ')
        name = rest[:58].rstrip()
        nm = 'A' if name.startswith('A_') else 'B' if name.startswith('B_') else 'hex' if name.startswith('0x') else 'other:' + name[:20]
        return {'k': dump.ts2k.get(int(ts), -1) if ts.isdigit() else -1, 'name': nm, 'proc': parse_proc(rest[58:])}
    if kind == 'logs':
        import re as _re
        m = _re.match(r'msg(\d+)$', getattr(x, 'composed_message', '') or '')
        return {'i': int(m.group(1)) + 1 if m else -1, 'proc': parse_proc(p._format_process(x.thread_identifier))}
    if kind == 'tr':
        # tn: the thread name a record ABOUT a thread shows (terminate record) - text that reads what other records taught
        tn = list(str(getattr(x, 'name', '') or '').encode()) if type(x).__name__ == 'TraceDataThreadTerminate' else []
        return {'k': dump.k_of(x.ktraces[-1]), 'first': dump.k_of(x.ktraces[0]),
                'proc': parse_proc(p._format_process(x.ktraces[0].tid)), 'tn': tn}
    frames = []
    for f in x.frames:
        if f.uuid is None:
            frames.append([w.rank(f.address), -1, -1])
        else:
            off = f.offset // 0x1000 if f.offset is not None and f.offset >= 0 and f.offset % 0x1000 == 0 else -2
            frames.append([w.rank(f.address), w.img_id(f.uuid), off])
    return {'start': dump.ts2k.get(x.timestamp, -1), 'frames': frames}


def run_session(rnd, w, dumps, kinds, gen_cfg, nacts=14, max_gens=4, scenarios=None, schedule=None):
    """returns (observation, human readable script)"""
    from pykdebugparser.pykdebugparser import PyKdebugParser
    p = PyKdebugParser()
    p.color = False
    p.show_func_qual = p.show_args = p.show_tid = False
    A, B = make_tables(rnd, w, dumps)
    tabobj = {'A': A, 'B': B}
    wcodes = w.codes
    acts, script = [], []
    gens = []                 # [iterator, kind, dump index, alive]
    last = None

    def do_cfg(cfg=None, inplace=None):
        cfg = gen_cfg(rnd) if cfg is None else cfg
        old = cfg_of(w, p)
        inplace = (rnd.random() < 0.5 if inplace is None else inplace) and isinstance(p.filter_class, list) and isinstance(p.filter_subclass, list)
        if inplace:
            # the caller edits its own lists: same objects, new contents
            fc, fs = p.filter_class, p.filter_subclass
            apply_cfg(w, p, cfg)
            fc[:] = cfg['fclass']
            fs[:] = cfg['fsub']
            p.filter_class, p.filter_subclass = fc, fs
        else:
            apply_cfg(w, p, cfg, as_tuple=rnd.random() < 0.2)
        cfg = cfg_of(w, p)            # as the object now holds it (a digit string filters by pid AND by name)
        if cfg == old:
            return
        acts.append({'op': 'cfg', 'cfg': cfg, 'inplace': inplace})
        script.append('cfg %s %s' % ('in-place' if inplace else 'assign', cfg))
        for g in gens:
            if g[3]:
                g[3] = 'stale'    # what a half-read listing does after the options changed is not claimed; it may still be read

    def reader_of(blob):
        """the dump as the caller may hand it over: in memory, behind a buffered reader, or a file on disk"""
        r = rnd.random()
        if r < 0.6:
            return io.BytesIO(blob)
        if r < 0.8:
            return io.BufferedReader(io.BytesIO(blob), buffer_size=rnd.choice([16, 64, 4096]))
        import tempfile
        f = tempfile.TemporaryFile()
        f.write(blob)
        f.seek(0)
        return f

    def do_other():
        # ANOTHER object of the caller lists another dump completely (one whose thread map declares the same threads for other
        # processes): it has its own tables - nothing the session's object reports may change (no action is recorded: the
        # specification has nothing to do for it)
        from .pipeline import Dump
        q = PyKdebugParser()
        q.color = False
        d_ = Dump(w, list(rnd.choice(dumps).stream[:6]), [(t_, 900 + t_, 'elsewhere') for t_ in (1, 2, 3)])
        try:
            for _ in getattr(q, rnd.choice(['formatted_traces', 'formatted_kevents', 'callstacks']))(io.BytesIO(d_.blob)):
                pass
        except Exception:
            pass
        script.append('ANOTHER object lists another dump (threads 1-3 -> processes 901-903 "elsewhere")')

    def do_badopen():
        if rnd.random() < 0.5:
            do_other()
        kind = rnd.choice(kinds)
        junk = rnd.choice([b'', b'\x00', b'\x00\x02\xaa', b'\x00\x04\xaa\x55' + bytes(400), b'not a dump at all', bytes(rnd.getrandbits(8) for _ in range(300))])
        a = {'op': 'badopen', 'kind': kind}
        try:
            rd = io.BytesIO(junk)
            it = {'kev': p.kevents, 'fkev': p.formatted_kevents, 'tr': p.traces, 'cs': p.callstacks, 'logs': p.os_log_events}[kind](rd)
            a['err'] = 'accepted'           # whether junk is refused at call time or at the first next() is not pinned:
            try:                            # either way nothing may come out of it
                x = next(iter(it))
                a['item'] = str(x)[:60]
                a['op'] = 'adv'             # something came out of junk: reported as raised
                a['g'] = 1
            except Exception:
                pass
        except Exception as ex:
            a['err'] = type(ex).__name__
        if a['op'] == 'badopen':
            acts.append(a)
            script.append('request %s on %d junk bytes -> %s' % (kind, len(junk), a['err']))
        else:
            acts.append({'op': 'adv', 'g': 1, 'found': True, 'item': {}, 'err': 'junk yielded ' + a['item']})

    def do_drop(avoid=None):
        live = [i for i, g in enumerate(gens) if g[0] is not None and i != avoid]
        if not live:
            return
        unfinished = [i for i in live if gens[i][3]]          # a listing left half read, if there is one
        gi = rnd.choice(unfinished or live)
        gens[gi][0] = None                  # the last reference goes away: the generators are finalised now
        gens[gi][3] = False
        import gc
        gc.collect(1)
        acts.append({'op': 'drop', 'g': gi + 1})
        script.append('drop #%d' % (gi + 1))

    def do_open(kind=None, d=None, codes=None):
        if schedule is None and any(g_[3] for g_ in gens) and rnd.random() < 0.25:
            do_other()                      # while listings of this object are in flight
        kind = kind or rnd.choice(kinds)
        d = rnd.randrange(len(dumps)) if d is None else d % len(dumps)
        codes = codes or (rnd.choice(['A', 'B']) if kind == 'fkev' else '-' if kind in ('kev', 'logs') else 'W')
        rd = reader_of(dumps[d].blob)
        kw = rnd.random() < 0.3             # arguments by keyword
        try:
            if kind == 'kev':
                it = p.kevents(kdebug=rd) if kw else p.kevents(rd)
            elif kind == 'fkev':
                it = p.formatted_kevents(kdebug=rd, trace_codes=tabobj[codes]) if kw else p.formatted_kevents(rd, tabobj[codes])
            elif kind == 'logs':
                it = p.os_log_events(kdebug=rd) if kw else p.os_log_events(rd)
            elif kind == 'tr':
                it = p.traces(kdebug=rd, trace_codes=wcodes) if kw else p.traces(rd, wcodes)
            else:
                it = p.callstacks(kdebug=rd, trace_codes=wcodes) if kw else p.callstacks(rd, wcodes)
        except Exception as ex:
            acts.append({'op': 'open', 'kind': kind, 'd': d + 1, 'codes': codes, 'err': type(ex).__name__ + ':' + str(ex)[:80]})
            return None
        gens.append([iter(it), kind, d, True])
        acts.append({'op': 'open', 'kind': kind, 'd': d + 1, 'codes': codes})
        script.append('open #%d %s dump %d table %s' % (len(gens), kind, d + 1, codes))
        return len(gens) - 1

    def do_adv(gi):
        it, kind, d, alive = gens[gi]
        a = {'op': 'adv', 'g': gi + 1}
        try:
            x = next(it)
            a['found'] = True
            a['item'] = item_of(w, p, dumps[d], kind, x)
        except StopIteration:
            a['found'] = False
            a['item'] = {}
            gens[gi][3] = False
        except Exception as ex:
            a['found'] = False
            a['item'] = {}
            a['err'] = type(ex).__name__ + ':' + str(ex)[:80]
            if dumps[d].cut_mid:
                a['cutend'] = True        # the file is cut inside a record: reading may end with an error (where, is validated)
            gens[gi][3] = False
        acts.append(a)
        script.append('next #%d -> %s' % (gi + 1, a.get('err') or (a['item'] if a['found'] else 'end')))
        return a['found']

    def drain(gi):
        for _ in range(400):
            if not do_adv(gi):
                break

    apply_cfg(w, p, gen_cfg(rnd) if gen_cfg else {'ftid': 0, 'fproc': {'kind': 'none'}, 'fclass': [], 'fsub': []})
    acts.append({'op': 'cfg', 'cfg': cfg_of(w, p), 'inplace': False})

    def failed():
        return bool(acts) and 'err' in acts[-1] and 'cutend' not in acts[-1]

    def some(gi, lo, hi):
        for _ in range(rnd.randrange(lo, hi + 1)):
            if failed() or not do_adv(gi):
                break

    if schedule is not None:
        # a schedule exported by TLC from Sessions_MBT: exactly these caller actions, in this order
        for a in schedule:
            if failed():
                break
            if a['op'] == 'open':
                do_open(a['kind'], a['d'] - 1, a['codes'])
            elif a['op'] == 'cfg':
                do_cfg(dict(a['cfg'], fproc=dict(a['cfg']['fproc'])), bool(a['inplace']))
            elif a['g'] - 1 < len(gens) and gens[a['g'] - 1][3] is True:
                do_adv(a['g'] - 1)
        obs = {'dumps': [d_.abstract() for d_ in dumps],
               'tables': {'A': sorted(w.code(e) for e in A), 'B': sorted(w.code(e) for e in B)}, 'acts': acts}
        return obs, script, gens
    scenario = rnd.choice(scenarios) if scenarios else rnd.choice(['abandon', 'abandon', 'interleave', 'interleave', 'edit', 'edit', 'random', 'random', 'prepared', 'prepared', 'peek', 'peek'] +
                          (['finalise'] * 3 if 'cs' in kinds else []))
    if rnd.random() < 0.2:
        do_badopen()
    if scenario == 'abandon':
        # listings read half way and left alive (same or other dump, same or other kind), then a request read to the end
        for _ in range(rnd.randrange(1, 4)):
            gi = do_open()
            if gi is None:
                break
            some(gi, rnd.choice([0, 1, 1, 2]), 6)
            if rnd.random() < 0.25:
                do_badopen()
        if not failed():
            gi = do_open()
            if gi is not None:
                some(gi, 0, 3)
                if rnd.random() < 0.75:
                    do_drop(avoid=gi if rnd.random() < 0.8 else None)      # an older listing is dropped while this one is being read
                if rnd.random() < 0.3:
                    do_badopen()            # a request on something that is not a dump, while this listing is in flight
                if gens[gi][3]:
                    drain(gi)
    elif scenario == 'finalise':
        # an older listing is left half read; a newer one is being read when the older one is FINALISED (its last reference
        # dropped: GeneratorExit runs its cleanup code): the newer listing goes on undisturbed
        k1 = rnd.choice(['cs', 'cs', rnd.choice(kinds)])
        a_ = do_open(k1)
        if a_ is not None:
            some(a_, 1, 3)
            b_ = do_open('cs' if rnd.random() < 0.8 else rnd.choice(kinds))
            if b_ is not None:
                some(b_, 1, 3)
                do_drop(avoid=b_)
                if gens[b_][3] and not failed():
                    drain(b_)
    elif scenario == 'peek':
        # a listing is being read; other requests are MADE (one perhaps on junk) but not read yet; the first listing is
        # read on to its end, then the others
        a_ = do_open()
        if a_ is not None:
            some(a_, 1, 4)
            others = []
            for _ in range(rnd.randrange(1, 3)):
                if rnd.random() < 0.25:
                    do_badopen()
                else:
                    b_ = do_open()
                    if b_ is not None:
                        others.append(b_)
            if gens[a_][3] and not failed():
                drain(a_)
            for b_ in others:
                if not failed():
                    drain(b_)
    elif scenario == 'prepared':
        # several requests made back to back BEFORE anything is read (all listings prepared first), then each read to its end
        gis = [g for g in (do_open() for _ in range(rnd.randrange(2, 4))) if g is not None]
        if rnd.random() < 0.5:
            gis.reverse()
        for gi in gis:
            if failed():
                break
            drain(gi)
    elif scenario == 'interleave':
        # two or three listings alive together, read alternately to their ends
        gis = [g for g in (do_open() for _ in range(rnd.randrange(2, 4))) if g is not None]
        for _ in range(300):
            live = [g for g in gis if gens[g][3]]
            if not live or failed():
                break
            some(rnd.choice(live), 1, 3)
    elif scenario == 'edit':
        # request, options edited IN PLACE or assigned, the request again
        for rep in range(rnd.randrange(2, 4)):
            gi = do_open(rnd.choice(kinds))
            if gi is None:
                break
            if rnd.random() < 0.25:
                some(gi, 0, 3)
            else:
                drain(gi)
            if failed():
                break
            do_cfg()
    else:
        for _ in range(nacts):
            live = [i for i, g in enumerate(gens) if g[3]]
            r = rnd.random()
            if r < 0.05:
                do_badopen()
            elif (r < 0.25 or not live) and len(gens) < max_gens:
                last = do_open()
            elif r < 0.33 and len(gens) < max_gens:
                do_cfg()
            elif live:
                gi = last if (last in live and rnd.random() < 0.5) else rnd.choice(live)
                last = gi
                if rnd.random() < 0.15:
                    drain(gi)
                else:
                    do_adv(gi)
            if failed():
                break
    # a request after all that, read to the end with nothing in between: must be what a fresh object gives
    if not failed():
        gi = do_open(rnd.choice(kinds))
        if gi is not None:
            drain(gi)
    obs = {'dumps': [d.abstract() for d in dumps],
           'tables': {'A': sorted(w.code(e) for e in A), 'B': sorted(w.code(e) for e in B)}, 'acts': acts}
    return obs, script, gens


# Sessions_Val compares EVERYTHING a listing delivers; a check reports the deviations ITS statement pins and leaves the rest
# to the check of the property that pins them (counted in extra.deviations_left_to_other_checks)
_SEL = {'listing-ended-early', 'listing-has-extra-item', 'wrong-event', 'wrong-trace', 'wrong-log-record', 'wrong-sample',
        'clean-listing-differs-from-reference', 'selection-differs-from-reference', 'listing-differs-from-reference'}
SESSION_OWN = {'C07': set(), 'C06': _SEL | {'process-column'}, 'C12': _SEL, 'C13': _SEL | {'process-column', 'wrong-thread-name'}, 'C14': {'process-column'},
               'C15': _SEL | {'attribution'}, 'C19': {'wrong-name-table'}}


def session_own(ctx, clause, kind):
    cl = clause.partition('@')[0].partition(':')[0]
    import os
    own = SESSION_OWN.get(ctx.prop)
    if os.environ.get('VERIF_ALL_CLAUSES') or own is None or cl.startswith('raised') or cl.startswith('harness'):
        return True
    if ctx.prop == 'C15' and kind not in ('cs', ''):
        return False
    if cl in own:
        return True
    ctx.extra['deviations_left_to_other_checks'] = ctx.extra.get('deviations_left_to_other_checks', 0) + 1
    return False


def run_sessions(ctx, rnd, n, kinds, gen_dump, gen_cfg, tag, nacts=14, scenarios=None):
    """n seeded sessions validated by Sessions_Val; violations reported under ctx.prop. Returns stats."""
    obs, info = [], {}
    nadv = 0
    keep = []
    for i in range(n):
        w, d1 = gen_dump(rnd)
        dumps = [d1]
        if rnd.random() < 0.6:
            _, d2 = gen_dump(rnd, world=w)
            dumps.append(d2)
        if rnd.random() < 0.35:
            # a cut copy of one of the dumps: requests on it end early (with an error if the cut is inside a record) and the
            # object must serve the next request as if nothing had happened
            c = rnd.choice(dumps).cut_copy(rnd)
            if c is not None:
                dumps.append(c)
        o, script, gens = run_session(rnd, w, dumps, kinds, gen_cfg, nacts=nacts, scenarios=scenarios)
        keep.append(gens)         # abandoned listings stay referenced until the end of the run
        if len(keep) > 50:
            del keep[0]
        o['id'] = '%s%d' % (tag, i)
        obs.append(o)
        info[o['id']] = (w, dumps, script)
        nadv += sum(1 for a in o['acts'] if a['op'] == 'adv')
    nv, rej, _ = validate_observations('Sessions_Val', obs, ctx.workdir, name=tag + 'val', consts=VAL_CONSTS, timeout=3000)
    ctx.traces += nv
    by = {o['id']: o for o in obs}
    for oid, clause in rej:
        w, dumps, script = info[oid]
        cl, _, at = clause.partition('@')
        o = by[oid]
        kind = ''
        if at.isdigit():
            a = o['acts'][int(at) - 1]
            if a['op'] == 'adv':
                kind = [x for x in o['acts'] if x['op'] == 'open'][a['g'] - 1]['kind']
            elif a['op'] == 'open':
                kind = a['kind']
            if 'err' in a:
                cl += ':' + a['err'].split(':')[0]
        elif at.startswith('listing'):
            kind = [x for x in o['acts'] if x['op'] == 'open'][int(at[7:]) - 1]['kind']
        if not session_own(ctx, clause, kind):
            continue
        ctx.violation('%s/session/%s/%s' % (ctx.prop, cl, kind),
                      'session %s: %s at action %s; script: %s' % (oid, cl, at, ' ; '.join(script)[:1500]),
                      {'kind': 'session', 'clause': clause, 'script': script,
                       'files_hex': [d.blob.hex() for d in dumps],
                       'streams': [describe(w, d.stream) for d in dumps]})
    st = {'sessions': nv, 'next_calls': nadv, 'listing_kinds': list(kinds)}
    ctx.extra.setdefault('sessions', {}).update(st)
    return st


def cfg_light(rnd):
    """mostly unfiltered settings, class lists that keep samples and images (callstack / trace focus)"""
    return {'ftid': rnd.choice([0, 0, 0, 1, 2]),
            'fproc': rnd.choice([{'kind': 'none'}] * 4 + [{'kind': 'pid', 'pid': rnd.choice([11, 12])}, {'kind': 'name', 'name': rnd.choice(['alpha', '12', '2048'])}]),
            'fclass': list(rnd.choice([[], [], [], [37, 31], [31, 37, 4], [4], [4, 7]])), 'fsub': list(rnd.choice([[], [], [], [0x40c]]))}


MC_CFG = '''SPECIFICATION Spec
CONSTANTS MaxGens = %d
 MaxSteps = %d
 Kinds = {%s}
 Cfgs <- %s
 DumpSet = "%s"
 Variant = "ok"
 PVariant = "ok"
 SVariant = "%s"
INVARIANT CleanIsAtomic
INVARIANT SelectionIsAtomic
CHECK_DEADLOCK FALSE
'''
# per property: (positive configurations quick, extra positive configurations thorough, negative control)
MC = {
    'C06': ([(2, 9, '"kev", "fkev", "tr"', 'CfgTwo', 'learn')], [(3, 9, '"kev", "tr"', 'CfgTwo', 'learn')],
            ((2, 8, '"kev", "tr"', 'CfgTwo', 'learn', 'clsOnObject'), 'class list in force kept on the object')),
    'C12': ([(2, 9, '"kev", "fkev"', 'CfgSub', 'learn')], [(3, 10, '"kev"', 'CfgAll', 'learn')],
            ((2, 8, '"kev"', 'CfgSub', 'learn', 'subSnapshot'), 'subclass filter cached by list identity')),
    'C13': ([(2, 9, '"kev", "tr", "cs"', 'CfgTwo', 'learn')], [(2, 9, '"kev", "fkev", "tr", "cs"', 'CfgAll', 'learn'),
                                                            (3, 9, '"kev", "tr", "cs"', 'CfgTwo', 'learn')],
            ((2, 8, '"kev", "tr"', 'CfgTwo', 'learn', 'clsOnObject'), 'class list in force kept on the object')),
    'C14': ([(3, 13, '"tr"', 'CfgNone', 'learn')], [(3, 12, '"tr", "fkev"', 'CfgTwo', 'learn')],
            ((2, 12, '"tr"', 'CfgNone', 'learn', 'tpReused'), 'TracesParser kept between requests, reset forgets the last-data slots')),
    'C15': ([(2, 12, '"tr", "cs"', 'CfgTwo', 'img')], [(3, 12, '"cs"', 'CfgTwo', 'img')],
            ((2, 8, '"cs"', 'CfgNone', 'img', 'imgClearAtEnd'), 'image table cleared when a callstack listing ends')),
    'C19': ([(3, 10, '"fkev"', 'CfgTwo', 'learn')], [(3, 11, '"fkev", "kev"', 'CfgTwo', 'learn')],
            ((2, 8, '"fkev"', 'CfgNone', 'learn', 'codesOnObject'), 'code table of the formatted listing kept on the object')),
}


EXTRA_POS = {'C12': (2, 9, '"logs", "kev", "tr"', 'CfgLogs', 'logs'), 'C14': (2, 9, '"logs", "fkev"', 'CfgLogs', 'logs'),
             'C13': (2, 9, '"kev", "tr"', 'CfgTwo', 'names')}      # use before definition: a record read before the record that names its thread
EXTRA_NEG = {'C13': ((2, 8, '"tr"', 'CfgNone', 'names', 'namesOnObject'), 'thread names / global strings learned by a trace listing kept on the object'),
             'C14': ((2, 10, '"tr", "fkev"', 'CfgNone', 'learn', 'clearAtOpen'), 'tables cleared when a listing is requested, filled at its first next()')}


def model_check(ctx):
    """Sessions_MC for the calling property: positive configuration(s) and its negative control"""
    from .tlc import run_tlc
    pos, more, (neg, what) = MC[ctx.prop]
    if ctx.prop in EXTRA_POS:
        pos = pos + [EXTRA_POS[ctx.prop]]
    if ctx.prop in EXTRA_NEG:
        n2, w2 = EXTRA_NEG[ctx.prop]
        ctx.expect_violation(run_tlc('Sessions_MC', MC_CFG % n2, ctx.workdir, name='sessions_neg_' + n2[5], timeout=900,
                                     allow_error=True), w2)
    for j, c in enumerate(pos + ([] if ctx.quick else more)):
        ctx.expect_ok(run_tlc('Sessions_MC', MC_CFG % (c + ('ok',)), ctx.workdir, name='sessions_%d' % j, timeout=7200))
    ctx.expect_violation(run_tlc('Sessions_MC', MC_CFG % neg, ctx.workdir, name='sessions_neg_' + neg[5], timeout=900,
                                 allow_error=True), what)
    # vacuity guards: the model does reach finished undisturbed listings with items, disturbed listings with items and
    # known process columns (each "never" statement must be violated)
    c = pos[0]
    for w_ in ('NeverCleanFinishedWithItems', 'NeverDisturbedWithItems', 'NeverKnownProcess'):
        cfg = (MC_CFG % (c + ('ok',))).replace('INVARIANT CleanIsAtomic\nINVARIANT SelectionIsAtomic', 'INVARIANT ' + w_)
        ctx.expect_violation(run_tlc('Sessions_MC', cfg, ctx.workdir, name='sessions_witness_' + w_, timeout=900, allow_error=True),
                             'witness: ' + w_)
    if ctx.prop == 'C13':
        cfg = (MC_CFG % (EXTRA_POS['C13'] + ('ok',))).replace('INVARIANT CleanIsAtomic\nINVARIANT SelectionIsAtomic', 'INVARIANT NeverNamedThread')
        ctx.expect_violation(run_tlc('Sessions_MC', cfg, ctx.workdir, name='sessions_witness_NeverNamedThread', timeout=900, allow_error=True),
                             'witness: NeverNamedThread')
    # spec -> code: schedules exported by TLC replayed on the real object
    from . import c13 as _c13
    replay_tlc_schedules(ctx, random.Random(ctx.seed + 4), 250 if ctx.quick else 5000, c[2], c[4],
                         lambda r, world=None: _c13.gen_dump(r, world=world, samples=0.3 if 'cs' in c[2] else 0.0, orphans=0.1), 'mbt')


MBT_CFG = '''SPECIFICATION MSpec
CONSTANTS MaxGens = 3
 MaxSteps = %d
 Kinds = {%s}
 Cfgs <- CfgTwo
 DumpSet = "%s"
 Variant = "ok"
 PVariant = "ok"
 SVariant = "ok"
INVARIANT Export
CHECK_DEADLOCK FALSE
'''


def replay_tlc_schedules(ctx, rnd, n, kinds_tla, dumpset, gen_dump, tag):
    """spec -> code: schedules of caller actions exported by TLC (Sessions_MBT, simulation), each replayed on a real object
    over two real dumps; what came out is judged by Sessions_Val"""
    import json
    from .tlc import simulate_behaviours
    tuples, info = simulate_behaviours('Sessions_MBT', MBT_CFG % (11, kinds_tla, dumpset), ctx.workdir, n, name=tag + '_sim',
                                       depth=12, seed=ctx.seed + 9)
    ctx.tlc_runs.append(info)
    obs, scripts = [], {}
    for i, t in enumerate(tuples):
        sched = json.loads(t[1])
        w, d1 = gen_dump(rnd)
        _, d2 = gen_dump(rnd, world=w)
        o, script, gens = run_session(rnd, w, [d1, d2], ('kev',), None, schedule=sched)
        o['id'] = '%s%d' % (tag, i)
        obs.append(o)
        scripts[o['id']] = (script, [d1, d2], w)
    nv, rej, _ = validate_observations('Sessions_Val', obs, ctx.workdir, name=tag + 'val', consts=VAL_CONSTS, timeout=3000)
    ctx.traces += nv
    for oid, clause in rej:
        script, dumps, w = scripts[oid]
        if not session_own(ctx, clause, ''):
            continue
        ctx.violation('%s/tlc-schedule/%s' % (ctx.prop, clause.partition('@')[0]), 'schedule %s: %s; script: %s' % (oid, clause, ' ; '.join(script)[:1500]),
                      {'kind': 'session', 'clause': clause, 'script': script, 'files_hex': [d.blob.hex() for d in dumps],
                       'streams': [describe(w, d.stream) for d in dumps]})
    ctx.extra.setdefault('sessions', {})['tlc_schedules_replayed'] = ctx.extra.get('sessions', {}).get('tlc_schedules_replayed', 0) + nv
