"""Thin TLC driver: write cfg, run TLC under a timeout, parse its summary and PrintT tuples."""
import json
import os
import re
import shutil
import subprocess
import time
from concurrent.futures import ThreadPoolExecutor

VERIF = os.path.dirname(os.path.dirname(os.path.abspath(__file__)))
SPEC_DIR = os.path.join(VERIF, 'spec')
JAR_CP = '/opt/veriftools/tla/tla2tools.jar:/opt/veriftools/tla/CommunityModules-deps.jar'


class TLCError(Exception):
    """Machinery failure (parse error, timeout, TLC crash) - never a verdict."""


class TLCResult:
    def __init__(self, name, rc, out, wall):
        self.name = name
        self.rc = rc
        self.out = out
        self.wall = wall
        m = re.findall(r'(\d+) states generated, (\d+) distinct states found', out)
        self.generated = int(m[-1][0]) if m else 0
        self.distinct = int(m[-1][1]) if m else 0
        m = re.search(r'The depth of the complete state graph search is (\d+)', out)
        self.depth = int(m.group(1)) if m else 0
        m = re.search(r'The number of states generated: (\d+)', out)
        if m and not self.generated:
            self.generated = int(m.group(1))
        self.violated = None
        m = re.search(r'Error: Invariant (\S+) is violated', out)
        if m:
            self.violated = m.group(1)
        m = re.search(r'Error: Action property (\S+) is violated', out)
        if m:
            self.violated = m.group(1)
        m = re.search(r'Temporal propert(?:y (\S+) was|ies were) violated', out)
        if m:
            self.violated = self.violated or (m.group(1) or 'temporal')
        if re.search(r'Error: Deadlock reached', out):
            self.violated = self.violated or 'deadlock'
        m = re.search(r'Error: Assumption line (\d+).* is false', out)
        if m:
            self.violated = self.violated or ('assumption@%s' % m.group(1))
        self.completed = 'Model checking completed. No error has been found.' in out
        self.error = None
        if not self.completed and self.violated is None:
            m = re.search(r'(?s)Error: (.*?)(\n\n|\Z)', out)
            if m:
                self.error = m.group(1).strip()[:2000]

    def tuples(self, tag):
        """All PrintT'ed tuples <<"tag", ...>> as python lists.  TLC pretty-prints a long tuple over several lines
        ("<< "tag",\n   ... >>"), so the output is scanned as a whole, not line by line."""
        res = []
        for m in re.finditer(r'^<<\s*"%s"' % re.escape(tag), self.out, re.M):
            res.append(parse_tla_value(self.out, m.start())[0])
        return res

    def coverage(self):
        """action name -> (distinct, total) from -coverage output lines '<Name line..>: d:t'."""
        cov = {}
        for m in re.finditer(r'^<(\w+) line [^>]*>: (\d+):(\d+)', self.out, re.M):
            d, t = int(m.group(2)), int(m.group(3))
            old = cov.get(m.group(1), (0, 0))
            cov[m.group(1)] = (max(old[0], d), max(old[1], t))
        return cov

    def summary(self):
        return {'name': self.name, 'states_generated': self.generated, 'distinct_states': self.distinct,
                'depth': self.depth, 'wall_s': round(self.wall, 2), 'violated': self.violated,
                'completed': self.completed}


def parse_tla_value(s, i=0):
    """Parse the subset of TLA+ value syntax TLC prints: ints, strings, TRUE/FALSE, <<..>>, {..}, [k |-> v]."""
    def ws(i):
        while i < len(s) and s[i] in ' \n\t':
            i += 1
        return i
    i = ws(i)
    if s.startswith('<<', i):
        i += 2
        out = []
        i = ws(i)
        if s.startswith('>>', i):
            return out, i + 2
        while True:
            v, i = parse_tla_value(s, i)
            out.append(v)
            i = ws(i)
            if s.startswith('>>', i):
                return out, i + 2
            assert s[i] == ',', (s[i:i + 20], i)
            i += 1
    if s[i] == '{':
        i += 1
        out = []
        i = ws(i)
        if s[i] == '}':
            return out, i + 1
        while True:
            v, i = parse_tla_value(s, i)
            out.append(v)
            i = ws(i)
            if s[i] == '}':
                return out, i + 1
            assert s[i] == ','
            i += 1
    if s[i] == '[':
        i += 1
        out = {}
        i = ws(i)
        if s[i] == ']':
            return out, i + 1
        while True:
            m = re.compile(r'\s*(\w+)\s*\|->').match(s, i)
            assert m, s[i:i + 30]
            i = m.end()
            v, i = parse_tla_value(s, i)
            out[m.group(1)] = v
            i = ws(i)
            if s[i] == ']':
                return out, i + 1
            assert s[i] == ','
            i += 1
    if s[i] == '"':
        j = i + 1
        buf = []
        while s[j] != '"':
            if s[j] == '\\':
                j += 1
                buf.append({'n': '\n', 't': '\t'}.get(s[j], s[j]))
            else:
                buf.append(s[j])
            j += 1
        return ''.join(buf), j + 1
    m = re.compile(r'-?\d+').match(s, i)
    if m:
        return int(m.group(0)), m.end()
    m = re.compile(r'TRUE|FALSE').match(s, i)
    if m:
        return m.group(0) == 'TRUE', m.end()
    m = re.compile(r'\w+').match(s, i)   # model values
    if m:
        return m.group(0), m.end()
    raise TLCError('cannot parse TLA+ value at %r' % s[i:i + 40])


def run_tlc(module, cfg, workdir, name=None, workers=16, timeout=600, env=None, args=(), simulate=None,
            java_opts=(), allow_error=False):
    """Run TLC on spec/<module>.tla with the given cfg text. Returns TLCResult.
    `simulate`: string like 'num=1000' to run -simulate."""
    name = name or module
    os.makedirs(workdir, exist_ok=True)
    tag = re.sub(r'\W', '_', name)
    cfg_path = os.path.join(workdir, tag + '.cfg')
    with open(cfg_path, 'w') as f:
        f.write(cfg)
    meta = os.path.join(workdir, 'meta_' + tag)
    shutil.rmtree(meta, ignore_errors=True)
    cmd = ['java', '-XX:+UseParallelGC', '-Xss16m'] + list(java_opts) + ['-cp', JAR_CP, 'tlc2.TLC',
           '-workers', str(workers), '-metadir', meta, '-noGenerateSpecTE', '-config', cfg_path]
    if simulate is not None:
        cmd += ['-simulate', simulate]
    cmd += list(args)
    cmd.append(os.path.join(SPEC_DIR, module + '.tla'))
    e = dict(os.environ)
    if env:
        e.update({k: str(v) for k, v in env.items()})
    t0 = time.time()
    try:
        p = subprocess.run(cmd, cwd=SPEC_DIR, env=e, stdout=subprocess.PIPE, stderr=subprocess.STDOUT,
                           timeout=timeout, text=True, errors='replace')
        out, rc = p.stdout, p.returncode
    except subprocess.TimeoutExpired as ex:
        out = (ex.stdout or b'')
        if isinstance(out, bytes):
            out = out.decode(errors='replace')
        shutil.rmtree(meta, ignore_errors=True)
        if simulate is not None:
            r = TLCResult(name, 0, out, time.time() - t0)
            r.completed = r.violated is None
            return r
        raise TLCError('TLC timeout after %ss on %s' % (timeout, name))
    shutil.rmtree(meta, ignore_errors=True)
    r = TLCResult(name, rc, out, time.time() - t0)
    if simulate is not None and r.violated is None and r.error is None:
        r.completed = True
    if r.error and not allow_error:
        raise TLCError('TLC failed on %s: %s\n%s' % (name, r.error, out[-3000:]))
    if not r.completed and r.violated is None and not allow_error:
        raise TLCError('TLC did not complete on %s\n%s' % (name, out[-3000:]))
    return r


def simulate_behaviours(module, cfg, workdir, n, name=None, depth=12, seed=0, workers=4, timeout=300, tag='BEH'):
    """Run TLC -simulate, read PrintT'ed <<tag, json>> lines from its stdout until n were seen, then kill it
    (measured: num= does not bound a multi-worker simulation)."""
    name = name or module + '_sim'
    os.makedirs(workdir, exist_ok=True)
    t = re.sub(r'\W', '_', name)
    cfg_path = os.path.join(workdir, t + '.cfg')
    with open(cfg_path, 'w') as f:
        f.write(cfg)
    meta = os.path.join(workdir, 'meta_' + t)
    shutil.rmtree(meta, ignore_errors=True)
    cmd = ['java', '-XX:+UseParallelGC', '-Xss16m', '-cp', JAR_CP, 'tlc2.TLC', '-workers', str(workers),
           '-metadir', meta, '-noGenerateSpecTE', '-config', cfg_path, '-simulate', 'num=%d' % (n * 4),
           '-depth', str(depth), '-seed', str(seed), os.path.join(SPEC_DIR, module + '.tla')]
    t0 = time.time()
    p = subprocess.Popen(cmd, cwd=SPEC_DIR, stdout=subprocess.PIPE, stderr=subprocess.STDOUT, text=True,
                         errors='replace')
    out = []
    head = []
    prefix = '<<"%s"' % tag
    pending = None
    try:
        for line in p.stdout:
            if pending is not None:
                pending += line
            elif re.match(r'<<\s*"%s"' % re.escape(tag), line):
                pending = line
            elif len(head) < 200:
                head.append(line)
            if pending is not None and pending.count('<<') <= pending.count('>>'):
                out.append(parse_tla_value(pending)[0])
                pending = None
                if len(out) >= n:
                    break
            if time.time() - t0 > timeout:
                break
    finally:
        p.kill()
        p.wait()
        shutil.rmtree(meta, ignore_errors=True)
    text = ''.join(head)
    if not out:
        raise TLCError('simulation of %s exported nothing:\n%s' % (name, text[-3000:]))
    if re.search(r'Error: ', text):
        raise TLCError('simulation of %s failed:\n%s' % (name, text[-3000:]))
    return out, {'name': name, 'mode': 'simulate', 'exported': len(out), 'depth': depth, 'seed': seed,
                 'wall_s': round(time.time() - t0, 2)}


VAL_CFG = 'SPECIFICATION Spec\nCHECK_DEADLOCK FALSE\n'


def _nonull(x):
    """JSON null cannot be read by the TLA+ Json module: None becomes the string '<none>' (never equal to a real value)"""
    if x is None:
        return '<none>'
    if isinstance(x, dict):
        return {k: _nonull(v) for k, v in x.items()}
    if isinstance(x, (list, tuple)):
        return [_nonull(v) for v in x]
    return x


def validate_observations(module, observations, workdir, name=None, batches=16, timeout=900, consts='', dedupe=False):
    """code -> spec: split the observations over `batches` TLC processes running <module>.tla (a fold-style
    validator reading IOEnv.OBS_FILE). Returns (n_validated, rejections[(id, clause)], results)."""
    name = name or module
    os.makedirs(workdir, exist_ok=True)
    if not observations:
        return 0, [], []
    total = len(observations)
    same = {}
    if dedupe:
        # observations that are identical except for their id are validated once (the verdict is a function of the content)
        reps = []
        for o in observations:
            key = json.dumps({k: v for k, v in o.items() if k != 'id'}, sort_keys=True, default=str)
            if key in same:
                same[key].append(o['id'])
            else:
                same[key] = [o['id']]
                reps.append(o)
        same = {v[0]: v for v in same.values()}
        observations = reps
    batches = max(1, min(batches, (len(observations) + 199) // 200))
    observations = _nonull(observations)
    chunks = [observations[i::batches] for i in range(batches)]
    jobs = []
    for k, ch in enumerate(chunks):
        path = os.path.join(workdir, '%s_obs_%d.json' % (re.sub(r'\W', '_', name), k))
        with open(path, 'w') as f:
            json.dump(ch, f)
        jobs.append((k, path, len(ch)))

    def one(job):
        k, path, n = job
        r = run_tlc(module, VAL_CFG + consts, workdir, name='%s_val%d' % (name, k), workers=1, timeout=timeout,
                    env={'OBS_FILE': path})
        vals = r.tuples('VAL')
        if not vals or vals[0][1] != n:
            raise TLCError('validator %s did not report VAL for %d observations: %r\n%s'
                           % (module, n, vals, r.out[-2000:]))
        return r
    with ThreadPoolExecutor(max_workers=min(16, len(jobs))) as ex:
        results = list(ex.map(one, jobs))
    rej = []
    for r in results:
        for t in r.tuples('REJ'):
            for oid in (same.get(t[1]) or [t[1]]):
                rej.append((oid, t[2]))
    for _, path, _ in jobs:
        os.unlink(path)
    return total, rej, results
