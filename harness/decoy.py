"""Decoys: UNCHECKED activity of OTHER objects in the same process - other parser objects with other code tables (names
rotated among the decoded ids, decoded names removed, a table edited in place after use), other dumps, other string
indexes.  Every property makes the output a function of the request's own input (dump, supplied table, options); what
another object decoded earlier under another table must not matter.  A memo keyed by event id / by id(table) / by raw
string numbers that lives on the class or the module is poisoned by a decoy, and the checks' ordinary oracles then
see the difference.  Bursts run before each check and between its cases (every Nth World)."""
import io
import random
import struct

# ONE dict object that a caller refills for every request: the bundled contents while the checks use it, a disagreeing
# table while a decoy uses it (edited in place, same identity)
CALLER_TABLE = {}

_state = {'n': 0, 'tables': None, 'rnd': random.Random(20261003), 'busy': False, 'bursts': 0}
EVERY = 40


def _tables():
    if _state['tables'] is None:
        from .pairing import AUDIT, default_codes
        d = default_codes()
        handled = sorted(i for i, n in d.items() if n in AUDIT and i & 3 == 0)
        names = [d[i] for i in handled]
        hsub = {i >> 16 for i in handled}
        # named codes WITHOUT decoder that real streams use as inert records: the trace class, subclasses next to decoded ones
        inert = sorted(i for i, n in d.items() if n not in AUDIT and i & 3 == 0 and ((i >> 24) == 7 or (i >> 16) in hsub))
        _state['tables'] = (handled, names, inert)
    return _state['tables']


def make_table(rnd, mode=None):
    """a code table with the SAME ids as the bundled one (same size: a freed table's address is reused by the next one)
    that DISAGREES with it: decoded ids get another decoded name or an undecoded one, undecoded ids get a decoded name"""
    from .pairing import default_codes
    handled, names, inert = _tables()
    t = dict(default_codes())
    mode = mode or rnd.choice(['rotate', 'rename', 'mix', 'mix'])
    for k, i in enumerate(handled):
        r = rnd.random()
        if mode == 'rotate' or (mode == 'mix' and r < 0.3):
            t[i] = names[(k + rnd.choice([1, len(names) // 2])) % len(names)]
        elif mode == 'rename' or (mode == 'mix' and r < 0.6):
            t[i] = 'decoy_' + t[i]
    named = []
    for i in inert:
        if rnd.random() < 0.4:
            t[i] = rnd.choice(names)
            named.append(i)
    return t, named


def burst(rnd=None, full=False):
    """one burst of decoy activity; every exception inside it is swallowed (decoys are not under test).
    full: EVERY decoded id is fed once under a table that gives every decoded id another decoded name"""
    if _state['busy']:
        return
    _state['busy'] = True
    try:
        _burst(rnd or _state['rnd'], full)
        _state['bursts'] += 1
    finally:
        _state['busy'] = False


def _burst(rnd, full=False):
    from pykdebugparser.traces_parser import TracesParser
    from pykdebugparser.pykdebugparser import PyKdebugParser
    from pykdebugparser.kevent import from_kd_buf
    from .encode import kd_buf, encode_v2
    from .pairing import default_codes
    import gc
    handled, names, inert = _tables()
    table, named = make_table(rnd, 'rotate' if full else None)      # a fresh dict object every time (its id() will be reused later)
    shared = rnd.random() < 0.5
    if shared:                                         # ... or the caller's one table object, refilled in place
        CALLER_TABLE.clear()
        CALLER_TABLE.update(table)
        table = CALLER_TABLE
    ids = rnd.sample(handled, 30) + [i for i in handled if (i >> 24) in (7, 37, 3, 31)][:40] + rnd.sample(named, min(40, len(named)))
    if full:
        ids = list(handled) + named
    recs = []
    ts = 5
    for eid in ids:
        tid = rnd.choice([0, 1, 77, 0x1234])
        words = [rnd.choice([0, 1, 2, 3, rnd.getrandbits(16)]) for _ in range(4)]
        for q in rnd.choice([(1, 2), (0,), (3,), (1, 0, 2)]):
            ts += 1
            recs.append(kd_buf(ts, tid=tid, debugid=eid | q, data=struct.pack('<QQQQ', *words)))
    tp = TracesParser(table, {}, {})
    for r in recs:
        try:
            x = tp.feed(from_kd_buf(r))
            if x is not None:
                str(x)
        except Exception:
            pass
    # the same through the public object, on a small dump, with filters; then the table is EDITED IN PLACE and used again
    try:
        blob, _ = encode_v2([(77, 7, b'decoy', b'')], 0, recs[:60])
        p = PyKdebugParser()
        p.color = False
        p.filter_class = rnd.choice([[], [4], [7, 37]])
        for ln in p.formatted_traces(io.BytesIO(blob), table):
            pass
        for ln in p.formatted_kevents(io.BytesIO(blob), table):
            pass
        for cs in p.callstacks(io.BytesIO(blob), table):
            pass
        # ANOTHER object of the caller: its option lists are the ones it was created with, extended IN PLACE (never assigned);
        # its tables are filled by hand.  Nothing of this may show on the objects the checks create afterwards
        q = PyKdebugParser()
        q.filter_class.append(rnd.choice([4, 1, 7]))
        q.filter_subclass.append(rnd.choice([0x0140, 0x040c]))
        q.threads_pids[rnd.choice([1, 77, 0x1234])] = 4242
        q.pids_names[4242] = 'decoy'
        q.dyld_addresses.append(0x100000000)
        q.dyld_uuids.append('DECOY')
        for ln in q.formatted_kevents(io.BytesIO(blob), table):
            pass
    except Exception:
        pass
    try:
        table.update(default_codes())
        tp2 = TracesParser(table, {}, {})
        for r in recs[:40]:
            try:
                tp2.feed(from_kd_buf(r))
            except Exception:
                pass
    except Exception:
        pass
    del tp, table
    CALLER_TABLE.clear()
    CALLER_TABLE.update(default_codes())
    gc.collect(1)              # (young generations only: cheap) parsers sit in reference cycles: free them (and their tables) now, the addresses get reused
    # log records of another dump: the same string NUMBERS mean other strings there
    try:
        from pykdebugparser.os_log_event import OsLogEvent
        strings = ['decoy %d' % i for i in range(40)]
        rnd.shuffle(strings)
        idx = {i: s_ for i, s_ in enumerate(strings)}
        for k in range(6):
            raw = {'cm': rnd.randrange(40), 't': 'logEvent', 's': k, 'tid': 9, 'ns': 1, 'mct': 2, 'b': b'B' * 16, 'piu': b'P' * 16,
                   'ud': {'sec': 1600000000, 'usec': 0}, 'utz': {'mw': 0, 'dt': 0}, 'pid': 9, 'p': rnd.randrange(40),
                   'dm': {'pc': 1, 's': 0, 'seg': [{'lp': rnd.randrange(40), 'p': {'rs': rnd.randrange(8), 't': [rnd.randrange(8)],
                                                                                       'tn': rnd.randrange(8), 'ty': rnd.randrange(8), 'w': 0, 'p': 0}}]}}
            try:
                OsLogEvent.from_raw_log_event(raw, idx)
            except Exception:
                pass
    except Exception:
        pass


def caller_table():
    """the caller's reusable table object holding the bundled contents"""
    if not CALLER_TABLE:
        from .pairing import default_codes
        CALLER_TABLE.update(default_codes())
    return CALLER_TABLE


def tick():
    """called from the harness wherever a new case starts (World creation): every EVERY-th call runs a burst"""
    import time
    _state['n'] += 1
    if _state['n'] % EVERY == 1 and time.time() - _state.get('last', 0) > 0.2:      # at most ~5 bursts per second
        burst()
        _state['last'] = time.time()


def stats():
    return {'decoy_bursts': _state['bursts']}
