"""Seeded stream generators over the abstract alphabet of Pairing.tla (concrete decoders rotate over all
registered names of each class)."""
from .pairing import AUDIT, PATH_CLASSES

ALNUM = 'abcdefghijklmnopqrstuvwxyzABCDEFGHIJKLMNOPQRSTUVWXYZ0123456789_-./'
MULTI = ['é', 'ü', '漢', '字', '€', 'я', '😀']


def pos_text(rnd, n, tag=0, ascii_only=False):
    """n bytes of valid UTF-8 without NUL / quotes; position coded so lost, duplicated or reordered chunks show."""
    out = bytearray()
    i = 0
    while len(out) < n:
        room = n - len(out)
        if not ascii_only and room >= 4 and rnd.random() < 0.08:
            ch = rnd.choice(MULTI).encode()
            if len(ch) <= room:
                out += ch
                i += 1
                continue
        out.append(ord(ALNUM[(i * 7 + tag * 13 + len(out)) % len(ALNUM)]))
        i += 1
    return bytes(out)


BOUNDARY_LENS = [0, 1, 7, 8, 15, 16, 17, 23, 24, 25, 31, 32, 33, 47, 48, 49, 55, 56, 57, 63, 64, 65, 87, 88, 89,
                 119, 120, 121, 151, 152, 153, 183, 184]


def rand_len(rnd, maxlen=184):
    r = rnd.random()
    if r < 0.5:
        return min(maxlen, rnd.choice(BOUNDARY_LENS))
    if r < 0.8:
        return rnd.randrange(0, min(maxlen, 40) + 1)
    return rnd.randrange(0, maxlen + 1)


class ProgGen:
    """Per-thread program generator.  `profile` tunes the noise."""

    def __init__(self, world, rnd, ntids=3, pids=(11, 12, 13), noise=0.15, composites=True, strings=True,
                 usestr=True, trc_windows=True, names=None, frag_safe=False, ood=0.0):
        self.w = world
        self.rnd = rnd
        self.ntids = ntids
        self.pids = pids
        self.noise = noise
        self.composites = composites
        self.strings = strings
        self.usestr = usestr
        self.trc_windows = trc_windows
        self.sid_next = 1
        self.known_sids = []
        self.text_tag = 0
        self.rot = {}
        self.names = names
        self.ood = ood                 # share of operations with an OUT-OF-DOMAIN argument (their decoder may raise)
        self.frag_safe = frag_safe     # never put trace-domain records between string chunks of a thread

    def pick(self, cls):
        names = self.w.by_cls[cls]
        i = self.rot.get(cls, self.rnd.randrange(len(names)))
        self.rot[cls] = i + 1
        return names[i % len(names)]

    def text(self, n=None, ascii_only=False, maxlen=184):
        self.text_tag += 1
        n = rand_len(self.rnd, maxlen) if n is None else n
        return pos_text(self.rnd, n, self.text_tag, ascii_only)

    def name32(self):
        self.text_tag += 1
        n = self.rnd.randrange(1, 20)
        return pos_text(self.rnd, n, self.text_tag, True).decode().replace('/', 'x').replace('.', 'y')

    def single(self, t):
        r = self.rnd.random()
        q = self.rnd.choice([0, 3])
        if r < 0.35:
            return [self.w.sys(self.pick('SYS0'), q, t)]
        if r < 0.55:
            return [self.w.known(q, t)]
        if r < 0.7:
            return [self.w.unknown(q, t)]
        if r < 0.8:
            return [self.w.sys(self.pick(self.rnd.choice(PATH_CLASSES)), q, t)]
        if r < 0.9 and self.composites:
            # composite openers as stand-alone records (a window of one record)
            x = self.rnd.random()
            if x < 0.4:
                return [self.w.vmf(q, t, self.rnd.choice([0, 0, 1]), self.rnd.randrange(1, 12))]
            if x < 0.7:
                return [self.w.launch(q, t)]
            return [self.w.perf(q, t, self.rnd.random() < 0.5, self.rnd.random() < 0.5)]
        return [self.w.pexit(t, self.name32(), q)]

    def ord_single(self, t):
        """unrelated record of the ordinary pairing domain"""
        r = self.rnd.random()
        q = self.rnd.choice([0, 3])
        if r < 0.5:
            return [self.w.sys(self.pick('SYS0'), q, t)]
        if r < 0.8:
            return [self.w.known(q, t)]
        return [self.w.unknown(q, t)]

    def lookups(self, t, n):
        out = []
        for _ in range(n):
            out += self.w.lookup(t, self.text())
        return out

    def syscall(self, t, depth=0):
        rnd = self.rnd
        r = rnd.random()
        if r < 0.45:
            cls = 'SYS0'
        elif r < 0.75:
            cls = 'SYS1'
        else:
            cls = rnd.choice(PATH_CLASSES)
        name = self.pick(cls)
        parts = []
        nl = 0 if cls == 'SYS0' and rnd.random() < 0.7 else rnd.choice([0, 1, 1, 2, 2, 3, 6, 7])
        for _ in range(nl):
            while rnd.random() < 0.3:
                parts.append(self.single(t))
            parts.append(self.w.lookup(t, self.text()))
        while rnd.random() < 0.3:
            parts.append(self.single(t))
        if depth < 2 and rnd.random() < 0.2:        # nested operation, never inside a chunk sequence
            parts.insert(rnd.randrange(0, len(parts) + 1), self.syscall(t, depth + 1))
        body = [e for p in parts for e in p]
        out = []
        bad = self.ood and rnd.random() < self.ood
        if bad:
            # an operation one of whose arguments is outside the decoder's domain (unknown enum value): decoding it may
            # fail at its END - the caller catches that and goes on; the records still belong to the enclosing windows
            return [self.w.sys(name, 1, t, ood=True)] + body + [self.w.sys(name, 2, t, ood=True)]
        if rnd.random() >= self.noise:
            out.append(self.w.sys(name, 1, t))
            if rnd.random() < self.noise / 2:          # re-opened START
                out.append(self.w.sys(name, 1, t))
        out += body
        if rnd.random() >= self.noise:
            out.append(self.w.sys(name, 2, t))
            if rnd.random() < self.noise / 2:          # doubled END (second one is stray)
                out.append(self.w.sys(name, 2, t))
        return out

    def crossing(self, t):
        a, b = self.pick('SYS0'), self.pick('SYS1')
        return [self.w.sys(a, 1, t), self.w.sys(b, 1, t)] + self.lookups(t, 1) + \
               [self.w.sys(a, 2, t)] + self.single(t) + [self.w.sys(b, 2, t)]

    def with_gaps(self, chunks, t):
        """records of other kinds that the SAME thread logs between the records of one string (ordinary domain, or single
        records of the trace domain which land in the string's window): the text is made of the string's own records"""
        rnd, w = self.rnd, self.w
        if len(chunks) < 2 or rnd.random() > 0.3:
            return chunks
        out = [chunks[0]]
        for c in chunks[1:]:
            if rnd.random() < 0.5:
                out += rnd.choice([lambda: self.ord_single(t), lambda: [w.ntd(t, rnd.randrange(1, 5), rnd.choice(self.pids))],
                                   lambda: [w.exd(t, rnd.choice(self.pids))], lambda: [w.tpid(t, rnd.choice(self.pids))],
                                   lambda: [w.term(t, rnd.randrange(1, 5))],
                                   lambda: ([w.known(rnd.choice([0, 3]), t, name=rnd.choice(w.trace_known))] if w.trace_known else [])])()
            out.append(c)
        return out

    def trace_item(self, t):
        rnd = self.rnd
        r = rnd.random()
        w = self.w
        pid = rnd.choice(self.pids)
        other = rnd.randrange(1, self.ntids + 3)
        if r < 0.2:
            out = []
            if rnd.random() >= self.noise:
                out.append(w.ntd(t, other, pid))
            if rnd.random() >= self.noise:
                out.append(w.nts(t, self.name32()))
            return out
        if r < 0.35:
            out = []
            if rnd.random() >= self.noise:
                out.append(w.exd(t, pid))
            if rnd.random() >= self.noise:
                out.append(w.exs(t, self.name32()))
            return out
        if r < 0.5 and self.strings:
            return self.with_gaps(w.tname(t, self.text(maxlen=100) or b'x', prev=rnd.random() < 0.3), t)
        if r < 0.65 and self.strings:
            sid = self.sid_next
            self.sid_next += 1
            self.known_sids.append(sid)
            return self.with_gaps(w.gstr(t, self.text(maxlen=120), sid), t)
        if r < 0.75:
            # a record of this thread that names ANOTHER (possibly live) thread
            return [w.term(t, other)] if rnd.random() < 0.6 else [w.thd(t, pid, other)]
        if r < 0.85:
            return [w.tpid(t, pid)]
        if r < 0.92 and self.trc_windows:
            # trace-domain START/END window around trace-domain singles
            inner = [w.tpid(t, pid)] if rnd.random() < 0.5 else [w.pexit(t, self.name32())]
            return [w.pexit(t, 'ps', 1)] + inner + [w.pexit(t, 'pe', 2)]
        return [w.pexit(t, self.name32())]

    def composite(self, t):
        rnd = self.rnd
        w = self.w
        r = rnd.random()
        if r < 0.35:
            inner = []
            for _ in range(rnd.choice([0, 1, 1, 2, 3])):
                x = rnd.random()
                if x < 0.6:
                    inner.append(w.rfa(t, rnd.choice(self.pids), rnd.choice([1, 2, 3, 5, 7, 0x10, 0x83]),
                                       kind=rnd.randrange(3), ftype=rnd.randrange(1, 12), q=rnd.choice([0, 0, 3])))
                elif x < 0.8:
                    inner.append(w.rfau(t))
                else:
                    inner += self.single(t)
            res = rnd.choice([0, 0, 0, 1, 5])
            return [w.vmf(1, t)] + inner + [w.vmf(2, t, res, rnd.randrange(1, 12))]
        if r < 0.6:
            inner = []
            ranks = rnd.sample(range(0, 12), rnd.choice([0, 1, 2, 3, 4]))
            for i, rk in enumerate(ranks):
                inner.append(w.img(t, rk, rnd.randrange(1, 50), shared=rnd.random() < 0.3, q=rnd.choice([0, 0, 3])))
                if rnd.random() < 0.3:
                    inner += self.single(t)
            if ranks and rnd.random() < 0.3:     # equal load address announced by both kinds
                inner.append(w.img(t, ranks[0], 60, shared=rnd.random() < 0.5))
            return [w.launch(1, t)] + inner + [w.launch(2, t)]
        ti, us = rnd.random() < 0.6, rnd.random() < 0.6
        inner = []
        if rnd.random() < 0.7:
            inner.append(w.uhdr(t, rnd.choice([0, 1, 3, 4, 5, 8, 9, 12]), q=rnd.choice([0, 0, 3])))
        for _ in range(rnd.choice([0, 1, 2, 3])):
            inner.append(w.udata(t, [rnd.randrange(0, 40) for _ in range(4)], q=rnd.choice([0, 0, 3])))
        if rnd.random() < 0.7:
            inner.append(w.thd(t, rnd.choice(self.pids), t if rnd.random() < 0.7 else rnd.randrange(1, 5), q=rnd.choice([0, 0, 3])))
        if rnd.random() < 0.3:
            rnd.shuffle(inner)
        if rnd.random() < 0.3:
            inner += self.single(t)
        hdrless = rnd.random() < 0.1
        out = [] if hdrless else [w.perf(1, t, ti, us, other=rnd.getrandbits(14))]
        return out + inner + ([] if hdrless else [w.perf(2, t, ti, us)])

    def use_string(self, t):
        rnd = self.rnd
        name = self.pick('USESTR')
        if self.known_sids and rnd.random() < 0.6:
            sid = rnd.choice(self.known_sids)
        else:
            sid = rnd.choice([0, 0, 900 + rnd.randrange(50)])
        if name in ('DBG_DYLD_TIMING_DLOPEN_PREFLIGHT', 'DBG_DYLD_TIMING_DLSYM') and sid == 0:
            sid = 900 + rnd.randrange(50)
        q = rnd.choice([0, 3, 1])
        if q == 1:
            return [self.w.usestr(name, 1, t, sid), self.w.usestr(name, 2, t, sid)]
        return [self.w.usestr(name, q, t, sid)]

    def program(self, t, nitems):
        rnd = self.rnd
        out = []
        for _ in range(nitems):
            r = rnd.random()
            if r < 0.35:
                out += self.syscall(t)
            elif r < 0.45:
                out += self.crossing(t)
            elif r < 0.65:
                out += self.trace_item(t)
            elif r < 0.8 and self.composites:
                out += self.composite(t)
            elif r < 0.88 and self.usestr:
                out += self.use_string(t)
            else:
                out += self.single(t)
        return out


def interleave(rnd, programs, burst=3):
    """Merge per-thread programs keeping each thread's order (per-CPU buffer merge)."""
    idx = [0] * len(programs)
    out = []
    live = [i for i, p in enumerate(programs) if p]
    while live:
        i = rnd.choice(live)
        for _ in range(rnd.randrange(1, burst + 1)):
            if idx[i] < len(programs[i]):
                out.append(programs[i][idx[i]])
                idx[i] += 1
        live = [j for j in live if idx[j] < len(programs[j])]
    return out
