"""C14 - lines name the process the dump declares for the thread; columns compose; colour never changes the text.
 (1) TLC Format_MC: (a) ProcessColumnIsDeclared - for every dump of map-updating records (parent-written new-thread
     records, terminate-pid, sampler thread-info alone and re-applied at sampler END, thread map entries) the
     process shown for each trace equals the latest declaration for the emitting thread, stated on the history
     alone; unknown when never declared.  (b) ColumnsCompose over all 2^6 column subsets.
 (2) code: seeded dumps; formatted_kevents / formatted_traces / formatted_callstacks / formatted_logs under all 2^6
     show_* configurations x colour on/off: every line = concatenation of the single-column renderings in the fixed
     order; strip_ansi(colour) == plain; the process column parsed back from the formatted line is validated
     against Pipeline!ProcCol of the tables as of emission (Pipeline_Val) in TLC."""
import io
import itertools
import random
import re

from .pairing import describe
from .pipeline import parse_proc, strip_ansi, request
from .tlc import run_tlc, validate_observations
from .c13 import gen_dump, VAL_CONSTS, replay  # noqa

CFG = '''SPECIFICATION Spec
CONSTANTS MaxEvs = %d
 Templates = {%s}
 Mode = "%s"
 Variant = "ok"
 PVariant = "ok"
INVARIANT ProcessColumnIsDeclared
INVARIANT ColumnsCompose
CHECK_DEADLOCK FALSE
'''
TPL = '"NTDo","NTDs","TPID","THD","THDo","PS","PE","X"'
FLAGS = ('show_timestamp', 'show_name', 'show_func_qual', 'show_tid', 'show_process', 'show_args')


FILTER = {'fclass': (), 'timebase': None}   # class filter / caller-supplied timebase in force for the listings of the current composition check


def listing(api, blob, shows, color, tables=None):
    from pykdebugparser.pykdebugparser import PyKdebugParser
    p = PyKdebugParser()
    if FILTER['fclass'] and api in ('formatted_traces', 'formatted_kevents'):
        p.filter_class = list(FILTER['fclass'])
    for f, v in zip(FLAGS, shows):
        setattr(p, f, v)
    p.color = color
    if FILTER['timebase']:
        # the caller knows the machine's timebase: the timestamp column is a wall-clock date, still ONE column
        import datetime
        p.numer, p.denom, p.mach_absolute_time, p.usecs_since_epoch, tz = FILTER['timebase']
        p.timezone = datetime.timezone(datetime.timedelta(minutes=tz))
    return [str(x) for x in getattr(p, api)(io.BytesIO(blob))]


def only(flag):
    return tuple(f == flag for f in FLAGS)


def check_compose(ctx, api, dump, w, quick):
    """every configuration = concatenation of its enabled single-column renderings (+ the always-present body)"""
    blob = dump.blob
    none = listing(api, blob, (False,) * 6, False)                    # body only (traces / callstacks) or ''
    single = {f: listing(api, blob, only(f), False) for f in FLAGS}
    n = len(none)
    order = FLAGS if api == 'formatted_kevents' else ('show_timestamp', 'show_tid', 'show_process')
    cols = {}
    for f in FLAGS:
        if len(single[f]) != n:
            ctx.violation('C14/line-count/%s' % api, 'switching %s on changes the number of lines' % f,
                          {'kind': 'pipeline', 'file_hex': blob.hex(), 'stream': describe(w, dump.stream)})
            return 0
        if api == 'formatted_kevents':
            cols[f] = single[f]
        else:
            # header = line minus the body; callstacks: the first physical line carries the columns
            cols[f] = []
            for a, b in zip(single[f], none):
                if api == 'formatted_callstacks':
                    ha, _, ra = a.partition('\n')
                    hb, _, rb = b.partition('\n')
                    cols[f].append(ha if (ra == rb and hb == '') else None)
                else:
                    cols[f].append(a[:len(a) - len(b)] if a.endswith(b) else None)
    count = 0
    for shows in itertools.product([False, True], repeat=6):
        for color in ((False, True) if api in ('formatted_traces', 'formatted_logs') else (False,)):
            if quick and sum(shows) in (2, 3, 4) and hash((shows, color)) % 3:
                continue
            got = listing(api, blob, shows, color)
            count += 1
            if len(got) != n:
                ctx.violation('C14/line-count/%s' % api, 'configuration %s gives %d lines, %d expected' % (shows, len(got), n),
                              {'kind': 'pipeline', 'file_hex': blob.hex(), 'stream': describe(w, dump.stream)})
                return count
            for i, line in enumerate(got):
                head = ''.join((cols[f][i] or '') for f, s in zip(FLAGS, shows) if s and f in order)
                if any(cols[f][i] is None for f in order):
                    exp = None
                elif api == 'formatted_kevents':
                    exp = head
                elif api == 'formatted_callstacks':
                    exp = head + none[i]
                else:
                    exp = head + none[i]
                plain = strip_ansi(line)
                if exp is None or plain.rstrip() != exp.rstrip():
                    what = 'colour-changes-text' if color and exp is not None and \
                        strip_ansi(listing(api, blob, shows, False)[i]).rstrip() == exp.rstrip() else 'columns-do-not-compose'
                    ctx.violation('C14/%s/%s' % (what, api), 'configuration %s colour=%s line %d: %r, composed columns %r'
                                  % (dict(zip(FLAGS, shows)), color, i, plain, exp),
                                  {'kind': 'pipeline', 'file_hex': blob.hex(), 'stream': describe(w, dump.stream)})
                    return count
    return count


def run(ctx):
    from pykdebugparser.pykdebugparser import PyKdebugParser
    rnd = random.Random(ctx.seed)
    # generator-grain sessions on one object (spec/Sessions.tla): listings read alternately, abandoned half way, options
    # edited in place between requests; every next() validated by Sessions_Val, design model-checked by Sessions_MC
    from . import sessions
    from . import c13 as _c13
    sessions.model_check(ctx)
    # ... the log listing too (version-3 dumps with log records that extend the tables as they are passed)
    sessions.run_sessions(ctx, random.Random(ctx.seed * 2 + 55), 150 if ctx.quick else 2500, ('logs', 'logs', 'tr', 'fkev'),
                          lambda r, world=None: _c13.gen_dump(r, world=world, logs=True, allow_zero_tid=False),
                          _c13.gen_cfg if ctx.seed % 2 else sessions.cfg_light, 'seslog_')
    for i_ in range(2):
        sessions.run_sessions(ctx, random.Random(ctx.seed * 2 + 77 + i_), 120 if ctx.quick else 2500, ('tr', 'tr', 'fkev'),
                              lambda r, world=None: _c13.gen_dump(r, world=world, orphans=0.3, samples=0.0),
                              sessions.cfg_light, 'ses%d_' % i_)
    ctx.expect_ok(run_tlc('Format_MC', CFG % (3 if ctx.quick else 4, TPL, 'proc'), ctx.workdir, name='format_proc',
                          timeout=7200))
    ctx.expect_ok(run_tlc('Format_MC', CFG % (1, TPL, 'cols'), ctx.workdir, name='format_cols', timeout=600))
    obs, info = [], {}
    nlog = [0]
    ncompose = 0
    for i in range(60 if ctx.quick else 1200):
        w, dump = gen_dump(rnd, allow_zero_tid=(i % 4 != 0))
        try:        # a listing that raises on a legal dump prints no lines at all
            for api in ('formatted_kevents', 'formatted_traces', 'formatted_callstacks'):
                listing(api, dump.blob, (True,) * 6, False)
        except Exception as ex:
            ctx.violation('C14/raised/%s' % type(ex).__name__, '%s raised %r on a legal dump (thread map %s)' % (api, ex, dump.tmap),
                          {'kind': 'pipeline', 'file_hex': dump.blob.hex(), 'stream': describe(w, dump.stream)})
            continue
        if i % (6 if ctx.quick else 3) == 0:
            for api in ('formatted_kevents', 'formatted_traces', 'formatted_callstacks'):
                ncompose += check_compose(ctx, api, dump, w, ctx.quick)
                if api == 'formatted_traces':
                    # the same under a class filter (helper classes are read whatever columns are shown): a column switched
                    # off removes that column and alters no other - also not the BODY of a trace that reads the tables
                    FILTER['fclass'] = rnd.choice([(7,), (4,), (7, 4), (1, 7)])
                    w2, dump2 = gen_dump(rnd, allow_zero_tid=False, declared_terminate=True)
                    try:
                        ncompose += check_compose(ctx, api, dump2, w2, True)
                    finally:
                        FILTER['fclass'] = ()
                # ... and with a timebase supplied by the caller (timestamps shown as dates)
                if i % 3 == 0 or not ctx.quick:
                    FILTER['timebase'] = (rnd.choice([1, 125]), rnd.choice([1, 3]), rnd.choice([0, 1, 10 ** 6]),
                                          rnd.choice([0, 1600000000 * 10 ** 6 + 123456]), rnd.choice([0, 120, -330]))
                    try:
                        ncompose += check_compose(ctx, api, dump, w, True)
                    finally:
                        FILTER['timebase'] = None
        # the SAME object and the SAME code-table object list another dump first (dangling halves of announcements in both):
        # the lines of this dump are those a new object prints for it (nothing of the earlier dump names a process here)
        if i % 2 == 0:
            from .pairing import default_codes
            tab = dict(default_codes())
            wa, da = gen_dump(rnd, world=w, orphans=0.6)
            wb, db = gen_dump(rnd, world=w, orphans=0.6)
            try:
                pp = PyKdebugParser()
                pp.color = False
                for _ in pp.formatted_traces(io.BytesIO(da.blob), tab):
                    pass
                got_ = [str(x) for x in pp.formatted_traces(io.BytesIO(db.blob), tab)]
                pf = PyKdebugParser()
                pf.color = False
                want_ = [str(x) for x in pf.formatted_traces(io.BytesIO(db.blob), dict(tab))]
            except Exception as ex:
                got_, want_ = ['raised %r' % ex], []
            if got_ != want_:
                d_ = next((k for k in range(max(len(got_), len(want_))) if k >= len(got_) or k >= len(want_) or got_[k] != want_[k]), 0)
                ctx.violation('C14/process-column/after-another-dump', 'after another dump was listed with the same object and code table, line %d reads %r; a new object prints %r'
                              % (d_, got_[d_] if d_ < len(got_) else None, want_[d_] if d_ < len(want_) else None),
                              {'kind': 'pipeline', 'file_hex': db.blob.hex(), 'stream': describe(wb, db.stream)})
        # callstack lines name the thread that WROTE the sample (the thread of its START record) - and so its process - whatever
        # thread a sampler record inside the sample describes
        try:
            pk = PyKdebugParser()
            by_ts = {}
            for e_ in pk.kevents(io.BytesIO(dump.blob)):
                by_ts.setdefault(e_.timestamp, set()).add(e_.tid)
            pc_ = PyKdebugParser()
            pc_.show_timestamp, pc_.show_tid, pc_.show_process = True, True, False
            for ln in pc_.formatted_callstacks(io.BytesIO(dump.blob)):
                m_ = re.match(r'^(\d+) +(\d+) *$', str(ln).split('\n')[0])
                if m_ and int(m_.group(1)) in by_ts and len(by_ts[int(m_.group(1))]) == 1 and int(m_.group(2)) not in by_ts[int(m_.group(1))]:
                    ctx.violation('C14/callstack-thread-column', 'the callstack of the sample written at %s by thread %s is listed under thread %s'
                                  % (m_.group(1), sorted(by_ts[int(m_.group(1))]), m_.group(2)),
                                  {'kind': 'pipeline', 'file_hex': dump.blob.hex(), 'stream': describe(w, dump.stream)})
        except Exception as ex:
            ctx.violation('C14/raised/%s' % type(ex).__name__, 'formatted_callstacks raised %r' % ex,
                          {'kind': 'pipeline', 'file_hex': dump.blob.hex(), 'stream': describe(w, dump.stream)})
        # process column parsed from the formatted lines, identities from a parallel traces() run
        p = PyKdebugParser()
        r, _ = request(w, p, dump, 'traces')
        lines = listing('formatted_traces', dump.blob, (False, False, False, False, True, False), False)
        bodies = listing('formatted_traces', dump.blob, (False,) * 6, False)
        if 'err' not in r and len(lines) == len(r['out']) == len(bodies):
            for o, ln, b in zip(r['out'], lines, bodies):
                o['proc'] = parse_proc(ln[:len(ln) - len(b)]) if ln.endswith(b) else {'shown': True, 'known': True, 'pid': -3, 'name': '?'}
        else:
            r['err'] = r.get('err', 'formatted_traces gives %d lines, traces() %d' % (len(lines), len(r['out'])))
        # the plain event listing: thread map only; never a DIFFERENT process than declared
        klines = listing('formatted_kevents', dump.blob, (False, False, False, False, True, False), False)
        tmap = {t: (pid, name) for t, pid, name in dump.tmap}
        declared = {}
        for a in dump.stream:
            c = a.abs
            if c['cls'] == 'NTD':
                declared.setdefault(c['a']['ntid'], set()).add(c['a']['pid'])
            elif c['cls'] == 'TPID':
                declared.setdefault(c['tid'], set()).add(c['a']['pid'])
            elif c['cls'] == 'THD':
                declared.setdefault(c['a']['ttid'], set()).add(c['a']['pid'])
        for a, ln in zip(dump.stream, klines):
            pc = parse_proc(ln)
            t = a.abs['tid']
            if t in tmap:
                ok = pc['known'] and pc['pid'] == tmap[t][0] and pc['name'] == tmap[t][1]
            else:
                ok = (not pc['known']) or pc['pid'] in declared.get(t, ())
            if not ok:
                ctx.violation('C14/process-column/formatted_kevents', 'thread %d (map %s) shown as %r'
                              % (t, tmap.get(t), ln), {'kind': 'pipeline', 'file_hex': dump.blob.hex(),
                                                       'stream': describe(w, dump.stream)})
        # log listing: colour never changes the text; a log naming a process and a thread shows that process
        if i % 4 == 0:
            from .pipeline import Dump
            logs = [(rnd.choice([1, 2, 3, 7]), rnd.choice([11, 12, 21]), rnd.choice(['alpha', 'logproc', ''])) for _ in range(rnd.randrange(1, 6))]
            d3 = Dump(w, dump.stream, dump.tmap, logs, nchunks=rnd.choice([1, 2]))
            plain = listing('formatted_logs', d3.blob, (True,) * 6, False)
            col = listing('formatted_logs', d3.blob, (True,) * 6, True)
            nlog[0] += len(plain)
            if len(plain) != len(logs) or [strip_ansi(x).rstrip() for x in col] != [x.rstrip() for x in plain]:
                ctx.violation('C14/colour-changes-text/formatted_logs', 'log listing differs with colour: %r vs %r' % (col[:2], plain[:2]),
                              {'kind': 'pipeline', 'file_hex': d3.blob.hex(), 'stream': describe(w, dump.stream)})
            # tables as the dump declares them at that point: thread map, then every earlier-or-same log with a process
            seen_tp, seen_pn = {t: p_ for t, p_, _ in dump.tmap}, {p_: n_ for _, p_, n_ in dump.tmap}
            for (lt, lp, lname), line in zip(logs, plain):
                if lname and lt:
                    seen_tp[lt] = lp
                    seen_pn[lp] = lname
                if lname:
                    want = ('%s(%d)' % (seen_pn.get(seen_tp[lt], ''), seen_tp[lt])) if lt in seen_tp else None
                    if want is not None and want not in line:
                        ctx.violation('C14/process-column/formatted_logs', 'log of thread %d process %r(%d) is listed as %r'
                                      % (lt, lname, lp, line), {'kind': 'pipeline', 'file_hex': d3.blob.hex(),
                                                                'stream': describe(w, dump.stream)})
        oid = 'f%d' % i
        obs.append({'id': oid, 'dump': dump.abstract(), 'reqs': [r]})
        info[oid] = (w, dump, r)
    nv, rej, _ = validate_observations('Pipeline_Val', obs, ctx.workdir, name='c14val', consts=VAL_CONSTS, timeout=3000)
    ctx.traces += nv
    for oid, clause in rej:
        w, dump, r = info[oid]
        cl = clause.partition('@')[0]
        if cl not in ('process-column', 'raised'):
            # which traces are listed is C13's / C04's statement; C14 pins the process column of the lines
            ctx.extra['deviations_left_to_other_checks'] = ctx.extra.get('deviations_left_to_other_checks', 0) + 1
            continue
        ctx.violation('C14/%s/formatted_traces' % cl, 'dump %s: %s %s' % (oid, cl, r.get('err', '')),
                      {'kind': 'pipeline', 'file_hex': dump.blob.hex(), 'stream': describe(w, dump.stream)})
    ctx.evaluations = ncompose + nv
    if info:
        ctx.sample({'lines': listing('formatted_traces', next(iter(info.values()))[1].blob, (True,) * 6, False)[:3]})
    ctx.extra['code'] = {'dumps': len(obs), 'configurations_rendered': ncompose, 'log_lines_checked': nlog[0]}
    ctx.assumptions += ['trailing whitespace of a line is not compared (pygments strips it)',
                        'plain event listing: thread map only, an in-stream-declared thread may be unknown or its '
                        'declared process']
