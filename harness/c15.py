"""C15 - callstacks: frames from the sample, attributed to the right image, independent of announcement order.
 (1) TLC Callstacks_MC: every sequence of announcements (single records, launch lists; any order, duplicates, equal
     and adjacent addresses) and samples: Sorted, FirstIdentityKept, AttributionRight, OrderIndependent (the table
     is a function of the SET of first announcements).
 (2) spec -> code: behaviours exported by Callstacks_MBT (exhaustive depth 3 + simulated depth 7) are turned into
     records and replayed on the real chain TracesParser -> CallstacksParser; the callstack after every input is
     compared with the spec's.
 (3) code -> spec: seeded streams (images on several threads, launch lists, samples with header count above/below
     the data supplied, with/without USTACK flag) driven one event at a time; validated by Callstacks_Val
     (Pairing!Step composed with CsStep) in TLC; all permutations of announcements of the same image set must
     give identical callstacks; PyKdebugParser.callstacks on a v2 file must equal the direct chain."""
import io
import itertools
import json
import random
import struct

from . import gen
from .encode import kd_buf, encode_v2
from .pairing import World, new_parser, describe, VAL_CONSTS
from .tlc import run_tlc, validate_observations, simulate_behaviours

MC_CFG = '''SPECIFICATION %s
CONSTANTS MaxLen = %d
 Ranks = {%s}
 Ids = {1, 2}
%s
CHECK_DEADLOCK FALSE
'''
INVS = '''INVARIANT Sorted
INVARIANT OrderIndependent
INVARIANT FirstIdentityKept
INVARIANT AttributionRight
PROPERTY OneStackPerSample'''


def project_cs(w, cs, conc):
    ts2k = {e.timestamp: k for k, e in enumerate(conc, 1)}
    frames = []
    for f in cs.frames:
        if f.uuid is None:
            frames.append([w.rank(f.address), -1, -1])
        else:
            off = f.offset // 0x1000 if f.offset is not None and f.offset >= 0 and f.offset % 0x1000 == 0 else -2
            frames.append([w.rank(f.address), w.img_id(f.uuid), off])
    return {'emit': True, 'start': ts2k.get(cs.timestamp, -1), 'tid': w.atid(cs.tid), 'frames': frames}


def drive(w, stream):
    """real chain, one event at a time; returns steps (per event: callstack or none)"""
    from pykdebugparser.callstacks_parser import CallstacksParser
    tp = new_parser(w)
    csp = CallstacksParser([], [])
    conc = [w.concrete(a, k + 1) for k, a in enumerate(stream)]
    cur = [0]

    def events():
        for k, e in enumerate(conc, 1):
            cur[0] = k
            yield e
    steps = [{'emit': False} for _ in conc]
    try:
        for cs in csp.feed_generator(tp.feed_generator(events())):
            steps[cur[0] - 1] = project_cs(w, cs, conc)
    except Exception as ex:
        steps = steps[:cur[0]]
        steps[cur[0] - 1] = {'emit': False, 'err': type(ex).__name__}
    return steps, csp


def sample_events(w, t, frames, n=None, us=True, hdr=True, order_rnd=None):
    n = len(frames) if n is None else n
    evs = [w.perf(1, t, ti=False, us=us)]
    if hdr:
        evs.append(w.uhdr(t, n))
    fr = list(frames)
    while len(fr) % 4:
        fr.append(77)          # words beyond the header count
    for i in range(0, len(fr), 4):
        evs.append(w.udata(t, fr[i:i + 4]))
    if order_rnd is not None and hdr and len(evs) > 2 and order_rnd.random() < 0.35:
        # the header record is not always the first nested record: it may come after some / all of the data records
        h = evs.pop(1)
        evs.insert(order_rnd.randrange(1, len(evs) + 1), h)
    evs.append(w.perf(2, t, ti=False, us=us))
    return evs


def replay_behaviour(ctx, b, idx):
    w = World(random.Random(idx))
    stream, ends = [], []
    for inp in b:
        if inp['kind'] == 'MAPA':
            stream.append(w.img(1, inp['f']['rank'], inp['f']['id']))
        elif inp['kind'] == 'LAUNCH':
            stream.append(w.launch(1, 2))
            for im in inp['f']['imgs']:
                stream.append(w.img(2, im['rank'], im['id'], shared=(idx + im['rank']) % 2 == 0))
            stream.append(w.launch(2, 2))
        else:
            fr = inp['f']['frames']
            if fr == [-1]:
                stream += sample_events(w, 1, [], us=False)
            else:
                stream += sample_events(w, 1, fr)
        ends.append(len(stream))
    steps, _ = drive(w, stream)
    for inp, k in zip(b, ends):
        got = steps[k - 1] if k <= len(steps) else {'emit': False, 'err': 'cut'}
        exp = inp['cs']
        bad = None
        if 'err' in got:
            bad = 'raised'
        elif got['emit'] != exp['emit']:
            bad = 'spurious-callstack' if got['emit'] else 'missing-callstack'
        elif got['emit'] and got['frames'] != [[f['x'], f['id'], f['off']] for f in exp['frames']]:
            bad = 'attribution'
        if bad:
            ctx.violation('C15/replay/%s' % bad, 'spec behaviour %s: after input %s code gave %s, spec %s'
                          % ([x['kind'] for x in b], inp['kind'], got, exp),
                          {'kind': 'code->spec', 'stream': describe(w, stream)})
            return False
    return True


def run(ctx):
    rnd = random.Random(ctx.seed)
    # generator-grain sessions on one object (spec/Sessions.tla): listings read alternately, abandoned half way, options
    # edited in place between requests; every next() validated by Sessions_Val, design model-checked by Sessions_MC
    from . import sessions
    from . import c13 as _c13
    sessions.model_check(ctx)
    for i_ in range(2):
        sessions.run_sessions(ctx, random.Random(ctx.seed * 2 + 77 + i_), 120 if ctx.quick else 2500, ('cs', 'cs', 'tr'),
                              lambda r, world=None: _c13.gen_dump(r, world=world, orphans=0.1, samples=0.4, residue_case=r.random() < 0.6),
                              sessions.cfg_light, 'ses%d_' % i_)
    ctx.expect_ok(run_tlc('Callstacks_MC', MC_CFG % ('Spec', 5 if ctx.quick else 7, '0, 1, 2, 4', INVS), ctx.workdir,
                          name='cs_mc', timeout=3600))
    r = run_tlc('Callstacks_MBT', MC_CFG % ('MSpec', 3, '0, 1, 2, 4', 'INVARIANT Export'), ctx.workdir, name='cs_mbt',
                timeout=3600)
    ctx.add_tlc(r, counts=False)
    behs = [json.loads(t[1]) for t in r.tuples('BEH')]
    tuples, info = simulate_behaviours('Callstacks_MBT', MC_CFG % ('MSpec', 7, '0, 1, 2, 3, 4, 5', 'INVARIANT Export'),
                                       ctx.workdir, 1500 if ctx.quick else 30000, name='cs_sim', depth=9,
                                       seed=ctx.seed + 3)
    ctx.tlc_runs.append(info)
    behs += [json.loads(t[1]) for t in tuples]
    if len(behs) < 3000:
        raise RuntimeError('behaviour export incomplete: %d' % len(behs))
    ok = sum(1 for i, b in enumerate(behs) if replay_behaviour(ctx, b, i))
    ctx.traces += len(behs)
    ctx.extra['spec_to_code'] = {'behaviours': len(behs), 'agreeing': ok}
    ctx.sample({'spec_behaviour': behs[100]})
    # ---- code -> spec
    obs, streams = [], {}
    for i in range(300 if ctx.quick else 6000):
        w = World(rnd)
        g = gen.ProgGen(w, rnd, ntids=3)
        items = []
        nimg = rnd.randrange(0, 8 if ctx.quick else 30)
        for _ in range(rnd.randrange(2, 9)):
            r_ = rnd.random()
            t = rnd.randrange(1, 4)
            if r_ < 0.4:
                items.append([w.img(t, rnd.randrange(0, 12), rnd.randrange(1, 9), shared=False)
                              for _ in range(rnd.randrange(1, 3))])
            elif r_ < 0.55:
                inner = [w.img(t, rnd.randrange(0, 12), rnd.randrange(1, 9), shared=rnd.random() < 0.4)
                         for _ in range(rnd.randrange(0, 4))]
                items.append([w.launch(1, t)] + inner + [w.launch(2, t)])
            elif r_ < 0.9:
                depth = rnd.choice([0, 1, 3, 4, 5, 8, 13, 20] if ctx.quick else [0, 1, 3, 4, 5, 8, 13, 33, 64])
                frames = [rnd.randrange(0, 14) for _ in range(depth)]
                n = rnd.choice([depth, depth, max(depth - 2, 0), depth + 3])
                items.append(sample_events(w, t, frames, n=n, us=rnd.random() < 0.85, hdr=rnd.random() < 0.9, order_rnd=rnd))
            elif r_ < 0.95:
                # records that LOOK like announcements (same payload) but are none: unmap records, 'b' halves
                items.append([w.unimg(t, rnd.randrange(0, 12), rnd.randrange(1, 9),
                                      kind=rnd.choice(['DYLD_uuid_unmap_a', 'DYLD_uuid_unmap_a', 'DYLD_uuid_unmap_b', 'DYLD_uuid_map_b',
                                                       'DYLD_uuid_shared_cache_b']))])
            else:
                items.append(g.ord_single(t))
        stream = [e for it in items for e in it]
        steps, _ = drive(w, stream)
        oid = 'cs%d' % i
        evs = []
        for k, a in enumerate(stream[:len(steps)], 1):
            d = dict(a.abs)
            d['k'] = k
            evs.append(d)
        obs.append({'id': oid, 'events': evs, 'steps': steps})
        streams[oid] = (w, stream)
    nv, rej, _ = validate_observations('Callstacks_Val', obs, ctx.workdir, name='c15val', consts=VAL_CONSTS,
                                       timeout=3000)
    ctx.traces += nv
    for oid, clause in rej:
        w, stream = streams[oid]
        cl, _, at = clause.partition('@')
        ctx.violation('C15/%s' % cl, 'stream %s: %s at event %s' % (oid, cl, at),
                      {'kind': 'code->spec', 'stream': describe(w, stream, int(at) if at else None)})
    # ---- order independence on the code: every permutation of the announcements of one image set
    nperm = 0
    for trial in range(3 if ctx.quick else 30):
        w = World(rnd)
        k = 4 if ctx.quick else 5
        imgs = [(r_, i + 1) for i, r_ in enumerate(rnd.sample(range(0, 12), k))]
        frames = list(range(0, 13))
        ref = None
        for perm in itertools.permutations(imgs):
            stream = [w.img(1 + j % 2, r_, iid) for j, (r_, iid) in enumerate(perm)] + sample_events(w, 1, frames)
            steps, csp = drive(w, stream)
            res = steps[-1].get('frames')
            nperm += 1
            if ref is None:
                ref = res
            elif res != ref:
                ctx.violation('C15/order-dependence', 'announcement order %s gives %s, order %s gave %s'
                              % (perm, res, imgs, ref), {'kind': 'code->spec', 'stream': describe(w, stream)})
                break
    # ---- public API on a file == direct chain
    from pykdebugparser.pykdebugparser import PyKdebugParser
    napi = 0
    for oid in list(streams)[:40 if ctx.quick else 400]:
        w, stream = streams[oid]
        recs = []
        for k, a in enumerate(stream, 1):
            data = a.data if a.data is not None else struct.pack('<QQQQ', *[x & ((1 << 64) - 1) for x in a.words])
            recs.append(kd_buf(1000 + 10 * k, tid=a.ctid, debugid=a.debugid, data=data))
        blob, _ = encode_v2([], 0, recs)
        p = PyKdebugParser()
        try:
            api = list(p.callstacks(io.BytesIO(blob)))
        except Exception as ex:
            api = repr(ex)
        steps, _ = drive(w, stream)
        direct = [s for s in steps if s.get('emit')]
        napi += 1
        if not isinstance(api, list) or len(api) != len(direct):
            ctx.violation('C15/api-vs-chain', 'PyKdebugParser.callstacks gave %s, direct chain %d callstacks'
                          % (api if not isinstance(api, list) else len(api), len(direct)),
                          {'kind': 'code->spec', 'stream': describe(w, stream)})
    ctx.extra['code_to_spec'] = {'streams': nv, 'permutation_runs': nperm, 'api_runs': napi}
    if not ctx.quick:
        ctx.extra['apalache_inductive'] = apalache_inductive(ctx)
    ctx.assumptions += ['addresses are BASE + x*0x1000 (order preserving); stand-alone shared-cache records are not '
                        'treated as announcements by the tool and are not generated outside launch windows']


def apalache_inductive(ctx):
    """Extra (thorough tier): symbolic inductive check with Apalache that the image table stays strictly ascending,
    unique and first-identity-keeping for ARBITRARY integer addresses (tables <= 4 entries): Init => IndInv,
    IndInv /\\ Next => IndInv'; the unguarded insert (negative control) must be refuted."""
    import os
    import shutil
    import subprocess
    if not shutil.which('apalache-mc'):
        return {'skipped': 'apalache-mc not on PATH'}
    d = os.path.join(os.path.dirname(os.path.dirname(os.path.abspath(__file__))), 'spec', 'apalache')
    out = os.path.join(ctx.workdir, 'apa')
    res = {}
    for name, mod, init, length, want in (('base', 'MC_CallstacksInd.tla', 'Init', 0, True),
                                          ('step', 'MC_CallstacksInd.tla', 'IndInit', 1, True),
                                          ('negative_control', 'MC_CallstacksInd_neg.tla', 'IndInit', 1, False)):
        p = subprocess.run(['apalache-mc', 'check', '--init=' + init, '--inv=IndInv', '--length=%d' % length,
                            '--out-dir=' + out, mod], cwd=d, stdout=subprocess.PIPE, stderr=subprocess.STDOUT, text=True,
                           timeout=1800)
        ok = 'EXITCODE: OK' in p.stdout
        res[name] = 'holds' if ok else 'refuted'
        if ok != want:
            raise RuntimeError('Apalache %s: expected %s\n%s' % (name, 'OK' if want else 'a counterexample', p.stdout[-1500:]))
    shutil.rmtree(out, ignore_errors=True)
    return res


def replay(ctx, path):
    from .c04 import replay_stream
    rp = json.load(open(path))['replay']
    return replay_stream(ctx, rp)
