"""C12 - event filters select exactly the matching subsequence; events and logs never mix.
 (1) TLC Pipeline_MC: KeventsExact on every dump x filter configuration (stated by index sets, independently of the
     mechanism's SelectSeq).
 (2) code -> spec: seeded v2 and v3 dumps (v3 with log blocks, several chunks) x filter configurations (any tid,
     class / subclass lists incl. empty, overlapping, duplicated, absent classes), lists and tuples; kevents and log
     listings validated by Pipeline_Val in TLC."""
import io
import random

from . import gen
from .pairing import World, describe
from .pipeline import Dump, apply_cfg, request
from .tlc import run_tlc, validate_observations
from .c13 import MC_CFG, T7, VAL_CONSTS, replay  # noqa

CLASS_LISTS = [[], [4], [3, 4], [4, 4], [7], [1], [0x25], [0x1f], [4, 7, 3], [0], [255],
               # numbers that are no class of any record (wider than 8 bits, an event id, a subclass): nothing matches them
               [0x104], [0x040c], [0x04000000], [256 + 7, 3]]
SUB_LISTS = [[], [0x40c], [0x40c, 0x0301], [0x0301], [0x701, 0x700], [0x2501], [0x1f05, 0x1f07], [0xffff],
             # numbers that are no subclass of any record (wider than 16 bits: an event id as the code table lists it)
             [0x040c0128], [0x040c0000, 0x0301], [0x1040c], [0x03010090], [0x040c0128, 0x07010000]]


def run(ctx):
    rnd = random.Random(ctx.seed)
    # generator-grain sessions on one object (spec/Sessions.tla): listings read alternately, abandoned half way, options
    # edited in place between requests; every next() validated by Sessions_Val, design model-checked by Sessions_MC
    from . import sessions
    from . import c13 as _c13
    sessions.model_check(ctx)
    # ... the log listing too (version-3 dumps with log records that extend the tables as they are passed)
    sessions.run_sessions(ctx, random.Random(ctx.seed * 2 + 55), 150 if ctx.quick else 2500, sessions.KINDS_LOGS,
                          lambda r, world=None: _c13.gen_dump(r, world=world, logs=True, allow_zero_tid=False),
                          _c13.gen_cfg if ctx.seed % 2 else sessions.cfg_light, 'seslog_')
    for i_ in range(2):
        sessions.run_sessions(ctx, random.Random(ctx.seed * 2 + 77 + i_), 120 if ctx.quick else 2500, ('kev', 'fkev', 'kev', 'tr'),
                              lambda r, world=None: _c13.gen_dump(r, world=world, orphans=0.0, samples=0.0),
                              _c13.gen_cfg if i_ % 2 else sessions.cfg_light, 'ses%d_' % i_)
    ctx.expect_ok(run_tlc('Pipeline_MC', MC_CFG % (2 if ctx.quick else 3, T7, '0, 1, 2', 'FProcNone', 'FClassAll',
                                                   'FSubAll', 'ok', 'INVARIANT KeventsExact'),
                          ctx.workdir, name='pipe_kevents', timeout=7200))
    obs, info = [], {}
    ncli = [0]
    for i in range(300 if ctx.quick else 6000):
        w = World(rnd, big_tids=True, allow_zero_tid=(i % 2 == 0))      # odd i: dumps with logs
        if i % 6 == 0:
            # a thread whose id is the largest / the sign-bit 64-bit value (a NEGATIVE filter value has the same bit pattern)
            big = rnd.choice([(1 << 64) - 1, 1 << 63, (1 << 64) - 2])
            w.tids[3] = big
            w.rtids[big] = 3
        g = gen.ProgGen(w, rnd, ntids=3, noise=0.1)
        progs = [g.program(t, rnd.randrange(1, 4)) for t in (1, 2, 3)]
        stream = gen.interleave(rnd, progs)[:60]
        for _ in range(rnd.randrange(0, 5)):
            num = rnd.choice([4, 3, 7, 1, 0x25, 0x1f, 0x40c, 0x0301, 0x701, 0, 255])
            eid = rnd.choice([(num << 16) & 0xfffffffc | 0x10, ((num & 0xff) << 24) | 0x20, (num << 8) & 0xfffffffc | 4,
                              ((num & 0xffff) << 16) | 0x8])
            if eid not in w.codes:
                stream.insert(rnd.randrange(0, len(stream) + 1), w.unknown(rnd.choice([0, 1, 2, 3]), rnd.choice([1, 2, 3]), eid))
        tmap = [(t, 10 + t, 'p%d' % t) for t in rnd.sample([1, 2, 3], rnd.randrange(0, 4))]
        logs = None
        if i % 2:
            logs = [(rnd.choice([0, 1, 2, 3, 7]), rnd.choice([11, 12, 13, 0]), rnd.choice(['p1', 'p2', 'other', '', '12', '501', '0']))       # a NAME may consist of digits (and coincide with a pid)
                    for _ in range(rnd.randrange(0, 6))]
        dump = Dump(w, stream, tmap, logs, nchunks=rnd.choice([1, 2, 3]))
        from pykdebugparser.pykdebugparser import PyKdebugParser
        p = PyKdebugParser()
        reqs = []
        for j in range(rnd.choice([1, 2, 3])):
            cfg = {'ftid': rnd.choice([0, 0, 1, 2, 3, 9]),
                   'fproc': rnd.choice([{'kind': 'none'}, {'kind': 'pid', 'pid': rnd.choice([11, 12, 0])},
                                        {'kind': 'name', 'name': rnd.choice(['p1', 'other', 'nobody', '', '12', '501', '0', '012'])}]),
                   'fclass': list(rnd.choice(CLASS_LISTS)), 'fsub': list(rnd.choice(SUB_LISTS))}
            apply_cfg(w, p, cfg, as_tuple=(i + j) % 2 == 0)
            if i % 6 == 0 and rnd.random() < 0.5:
                # a thread id no record carries AS A NUMBER (negative / beyond 64 bits): the listing is empty
                p.filter_tid = rnd.choice([-1, -(1 << 63), -2, 1 << 64])
            op = 'logs' if logs is not None and rnd.random() < 0.4 else 'kevents'
            r, _ = request(w, p, dump, op)
            reqs.append(r)
        # an object AS CREATED (no option ever touched - while other objects of the caller had their option lists extended in
        # place, see decoy.py) has no filter: it lists every event record / every log record of the dump
        if i % 4 == 0:
            from . import decoy
            if i % 16 == 0:
                decoy.burst()
            for op_, want_ in (('kevents', len(dump.stream)), ('os_log_events', len(logs or []))):
                fresh = PyKdebugParser()
                try:
                    n_ = sum(1 for _ in getattr(fresh, op_)(io.BytesIO(dump.blob)))
                except Exception as ex:
                    n_ = 'raised %r' % ex
                if n_ != want_ and not (op_ == 'os_log_events' and logs is None):
                    ctx.violation('C12/object-as-created-filters/%s' % op_, 'a new PyKdebugParser() (no option set) lists %s of the %d records'
                                  % (n_, want_), {'kind': 'pipeline', 'requests': [], 'file_hex': dump.blob.hex(), 'stream': describe(w, dump.stream)})
        # the command-line interface must print exactly what the library lists for the same options
        if i % (5 if ctx.quick else 3) == 0:
            from .pipeline import cli_lines, api_lines
            cmd = 'logs' if logs is not None and rnd.random() < 0.6 else 'kevents'
            cnt = rnd.choice([None, 0, 1, 3, 1000])
            st = rnd.random() < 0.5
            rc, got, args = cli_lines(w, dump, cmd, cfg, ctx.workdir, count=cnt, show_tid=st)
            want = api_lines(w, dump, cmd, cfg, count=cnt, show_tid=st)
            ncli[0] += 1
            if rc != 0 or got != want:
                ctx.violation('C12/cli-differs-from-library/%s' % cmd,
                              'command line `%s %s` (exit %d) printed %d lines, the library lists %d for the same options; first difference: %r vs %r'
                              % (cmd, ' '.join(args), rc, len(got), len(want),
                                 next((a for a, b in zip(got, want) if a != b), got[len(want):len(want) + 1]),
                                 next((b for a, b in zip(got, want) if a != b), want[len(got):len(got) + 1])),
                              {'kind': 'pipeline', 'request_index': 0, 'requests': [(cmd, cfg)], 'file_hex': dump.blob.hex(),
                               'stream': describe(w, dump.stream)})
        oid = 'k%d' % i
        obs.append({'id': oid, 'dump': dump.abstract(), 'reqs': reqs})
        info[oid] = (w, dump, reqs)
    nv, rej, _ = validate_observations('Pipeline_Val', obs, ctx.workdir, name='c12val', consts=VAL_CONSTS, timeout=3000)
    ctx.traces += nv
    for oid, clause in rej:
        w, dump, reqs = info[oid]
        cl, _, at = clause.partition('@')
        r = reqs[int(at) - 1]
        ctx.violation('C12/%s/%s' % (cl, r['op']), 'history %s request %s (%s, cfg %s): %s%s'
                      % (oid, at, r['op'], r['cfg'], cl, (' ' + r['err']) if 'err' in r else ''),
                      {'kind': 'pipeline', 'request_index': int(at), 'requests': [(x['op'], x['cfg']) for x in reqs],
                       'file_hex': dump.blob.hex(), 'stream': describe(w, dump.stream)})
    ctx.sample({'requests': [(r['op'], r['cfg'], r['out'][:10]) for r in obs[1]['reqs']]})
    ctx.extra['code_to_spec'] = {'histories': nv, 'requests': sum(len(o['reqs']) for o in obs),
                                 'command_line_runs_compared_with_library': ncli[0]}
    ctx.assumptions += ['event identity by unique timestamps; a log in the event listing / an event in the log listing '
                        'is reported as index -1']
