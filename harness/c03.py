"""C03 - version-3 container: all chunked events, then logs, metadata sections, tables.
 (1) TLC Container_MC (shared with C02): every chunking of <= 3 records, every block sequence <= MaxBlocks over the
     7 tags: ChunkingInvariance, YieldsExact (events before logs), MetaExact (the three accumulation rules),
     LogStringsResolved, LogsExtendTables.
 (2) code -> spec: seeded v3 files (chunkings into 1..3 chunks incl. empty chunks, stackshot filler with tag
     prefixes and decoy thread-map tags, block sequences up to 7 incl. repeats and unknown tags, logs with / without
     process), mixed with v2 files in histories on one pair of tables; validated by Container_Val in TLC."""
import random

from .c02 import MC_CFG, build_obs, report, replay  # noqa
from .tlc import run_tlc, validate_observations


def run(ctx):
    rnd = random.Random(ctx.seed)
    ctx.expect_ok(run_tlc('Container_MC', MC_CFG % ((2, 1) if ctx.quick else (2, 2)), ctx.workdir, name='container',
                          timeout=7200))
    n = 500 if ctx.quick else 10000
    obs, files_of = build_obs(ctx, rnd, n, [3, 3, 3, 2], ['nz'])
    nv, rej, _ = validate_observations('Container_Val', obs, ctx.workdir, name='c03val', timeout=3000)
    ctx.traces += nv
    report(ctx, 'C03', rej, files_of)
    ctx.sample({'file': obs[1]['parses'][0]['file']})
    ctx.extra['code_to_spec'] = {'histories': nv, 'parses': sum(len(o['parses']) for o in obs)}
    ctx.assumptions += ['v3 encoder follows the declarative layouts of kd_buf_parser.py (no independent reference)',
                        'at most one string-index block per dump; header field values are not constrained']
