"""C03 - version-3 container: all chunked events, then logs, metadata sections, tables.
 (1) TLC Container_MC (shared with C02): every chunking of <= 3 records, every block sequence <= MaxBlocks over the
     7 tags: ChunkingInvariance, YieldsExact (events before logs), MetaExact (the three accumulation rules),
     LogStringsResolved, LogsExtendTables.
 (2) code -> spec: seeded v3 files (chunkings into 1..3 chunks incl. empty chunks, stackshot filler with tag
     prefixes and decoy thread-map tags, block sequences up to 7 incl. repeats and unknown tags, logs with / without
     process), mixed with v2 files in histories on one pair of tables; validated by Container_Val in TLC."""
import random

from .c02 import MC_CFG, build_obs, report, replay  # noqa
from .tlc import run_tlc, validate_observations


def run(ctx):
    rnd = random.Random(ctx.seed)
    # the reader at generator grain (spec/Readers.tla): several reader objects (own tables / the caller's pair), several
    # listings alive on one reader, read in any order; design model-checked by Readers_MC, every next() by Readers_Val
    from . import readers
    readers.model_check(ctx, 'idxOnObject')
    readers.run_sessions(ctx, random.Random(ctx.seed + 91), 300 if ctx.quick else 6000, [3, 3, 2], 'rd', force_logs=True)
    ctx.expect_ok(run_tlc('Container_MC', MC_CFG % ((2, 1) if ctx.quick else (2, 2)), ctx.workdir, name='container',
                          timeout=7200))
    # negative control: the reader that drops a chunk's first record when it equals the record before it must be REJECTED
    # (the model does contain equal records next to a chunk boundary - YieldsExact is not vacuous about them)
    ctx.expect_violation(run_tlc('Container_MC', MC_CFG.replace('DedupChunkHead = FALSE', 'DedupChunkHead = TRUE') % (1, 0),
                                 ctx.workdir, name='neg_dedup_chunk_head', timeout=900, allow_error=True),
                         'reader that reports an "overlapping" record at a chunk boundary once')
    n = 500 if ctx.quick else 10000
    obs, files_of = build_obs(ctx, rnd, n, [3, 3, 3, 2], ['nz'])
    nv, rej, _ = validate_observations('Container_Val', obs, ctx.workdir, name='c03val', timeout=3000)
    ctx.traces += nv
    report(ctx, 'C03', rej, files_of)
    # the metadata commands of the command-line interface print the sections of the dump as JSON
    import json
    import os
    from click.testing import CliRunner
    from pykdebugparser.__main__ import cli
    from .container import encode_file
    ncli = 0
    for oid in list(files_of)[:30 if ctx.quick else 400]:
        hist, via, _ = files_of[oid]
        f = hist[-1]
        if f['ver'] != 3:
            continue
        path = os.path.join(ctx.workdir, 'meta.bin')
        with open(path, 'wb') as fh:
            fh.write(encode_file(f)[0])
        procs = [b['val'] for b in f['blocks'] if b['tag'] == 'procs']
        imgs = [b['val'] for b in f['blocks'] if b['tag'] == 'images']
        kexts = [x for b in f['blocks'] if b['tag'] == 'kexts' for x in b['bins']]
        want = {'processes': {'val': procs[-1]} if procs else {}, 'images': {'val': imgs[-1]} if imgs else {},
                'kexts': {'Binaries': [{'id': x} for x in kexts]}}
        for cmd in ('processes', 'images', 'kexts'):
            res = CliRunner().invoke(cli, [cmd, path])
            ncli += 1
            try:
                got = json.loads(res.output)
            except ValueError:
                got = 'not JSON: %r' % res.output[:100]
            if res.exit_code != 0 or got != want[cmd]:
                ctx.violation('C03/cli-metadata/%s' % cmd, 'command `%s` printed %r, the dump holds %r' % (cmd, got, want[cmd]),
                              {'kind': 'container', 'via': 'cli', 'parse_index': 0, 'files_hex': [encode_file(f)[0].hex()],
                               'file': {a: b for a, b in f.items() if not a.startswith('_')}})
        os.unlink(path)
    ctx.extra['cli_metadata_commands'] = ncli
    ctx.sample({'file': obs[1]['parses'][0]['file']})
    ctx.extra['code_to_spec'] = {'histories': nv, 'parses': sum(len(o['parses']) for o in obs)}
    ctx.assumptions += ['v3 encoder follows the declarative layouts of kd_buf_parser.py (no independent reference)',
                        'at most one string-index block per dump; header field values are not constrained']
