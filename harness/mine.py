"""Input dictionary mined from the working tree (white-box INPUT selection only - never an oracle).

Random and boundary words do not reach a branch such as `if dirfd == AT_FDCWD`, `args[1:4] == (0, 1, 1)` or
`error & 0x300`.  For every registered decoder the integer constants its code (and the helpers / enums / module
constants it mentions, transitively) compares with are collected from the CURRENT sources with `ast`, and the checks
plant them - alone, in pairs, as tuples at every offset, OR-ed / added together - into otherwise in-domain records.
What the decoder must print for such a record is still decided by the specification side of each check."""
import ast
import enum
import inspect
import itertools
import textwrap
import types
from functools import partial

MASK64 = (1 << 64) - 1
_cache = {}


def _is_int(v):
    return isinstance(v, int) and not isinstance(v, bool)


class _Collector(ast.NodeVisitor):
    def __init__(self, glob, depth, seen):
        self.g = glob
        self.depth = depth
        self.seen = seen
        self.scalars = set()
        self.tuples = set()
        self.calls = []
        self.names = set()        # string constants that are NAMES of the bundled code table (records picked by name)
        self.table = set()        # keys of dict tables / members of enums: bulk values, not compared one by one

    # constants used purely as subscripts (args[2], events[-1], x[1:4]) say nothing about VALUES
    def visit_Subscript(self, node):
        self.visit(node.value)
        for sub in ast.walk(node.slice):
            if isinstance(sub, (ast.Name, ast.Attribute, ast.Call)):
                self.visit(sub)

    def visit_Constant(self, node):
        if _is_int(node.value):
            self.scalars.add(node.value)
        elif isinstance(node.value, str) and node.value in _table_names():
            self.names.add(node.value)

    def visit_UnaryOp(self, node):
        if isinstance(node.op, ast.USub) and isinstance(node.operand, ast.Constant) and _is_int(node.operand.value):
            self.scalars.add(-node.operand.value)
        else:
            self.generic_visit(node)

    def visit_Tuple(self, node):
        vals = []
        for e in node.elts:
            v = self._const(e)
            if v is None:
                vals = None
                break
            vals.append(v)
        if vals and len(vals) >= 2:
            self.tuples.add(tuple(vals))
        self.generic_visit(node)

    visit_List = visit_Tuple

    def _const(self, e):
        if isinstance(e, ast.Constant) and _is_int(e.value):
            return e.value
        if isinstance(e, ast.UnaryOp) and isinstance(e.op, ast.USub) and isinstance(e.operand, ast.Constant) \
                and _is_int(e.operand.value):
            return -e.operand.value
        if isinstance(e, (ast.Name, ast.Attribute)):
            v = self._resolve(e)
            if _is_int(v):
                return int(v)
        return None

    def _resolve(self, node):
        try:
            if isinstance(node, ast.Name):
                return self.g.get(node.id, _MISSING)
            if isinstance(node, ast.Attribute):
                base = self._resolve(node.value)
                if base is _MISSING:
                    return _MISSING
                return getattr(base, node.attr, _MISSING)
        except Exception:
            return _MISSING
        return _MISSING

    def _take(self, v):
        if v is _MISSING:
            return
        if _is_int(v):
            self.scalars.add(int(v))
        elif isinstance(v, (tuple, list, set, frozenset)):
            ints = [int(x) for x in v if _is_int(x)]
            if ints and len(ints) == len(v):
                self.scalars.update(ints[:64])
                if isinstance(v, (tuple, list)) and 2 <= len(ints) <= 4:
                    self.tuples.add(tuple(ints))
        elif isinstance(v, dict):
            ks = [int(k) for k in v if _is_int(k)]
            self.table.update(ks[:200])
        elif isinstance(v, type) and issubclass(v, enum.Enum):
            for m in list(v)[:200]:
                if _is_int(m.value):
                    self.table.add(int(m.value))
        elif isinstance(v, (types.FunctionType, partial)):
            self._recurse(v)
        elif isinstance(v, type) and (getattr(v, '__module__', '') or '').startswith('pykdebugparser'):
            # a trace class: its rendering code (__str__, properties) is part of the decoder
            for a in vars(v).values():
                a = getattr(a, 'fget', a)
                a = getattr(a, '__func__', a)
                if isinstance(a, types.FunctionType):
                    self._recurse(a)

    def visit_Name(self, node):
        self._take(self._resolve(node))

    def visit_Attribute(self, node):
        v = self._resolve(node)
        if v is _MISSING:
            self.generic_visit(node)
        else:
            self._take(v)

    def _recurse(self, fn):
        while isinstance(fn, partial):
            fn = fn.func
        if isinstance(fn, types.FunctionType):
            self.calls.append(fn)


_MISSING = object()
_direct = {}
_names = None


def _table_names():
    global _names
    if _names is None:
        from pykdebugparser.trace_codes import default_trace_codes
        _names = set(default_trace_codes().values())
    return _names



def direct(fn):
    """(scalars, tuples, mentioned functions) of ONE function of the package, not following calls."""
    while isinstance(fn, partial):
        fn = fn.func
    if not isinstance(fn, types.FunctionType):
        return set(), set(), [], set(), set()
    if fn in _direct:
        return _direct[fn]
    _direct[fn] = (set(), set(), [], set(), set())
    mod = getattr(fn, '__module__', '') or ''
    if mod.startswith('pykdebugparser'):
        try:
            tree = ast.parse(textwrap.dedent(inspect.getsource(fn)))
            c = _Collector(fn.__globals__, 0, None)
            c.visit(tree)
            _direct[fn] = (c.scalars, c.tuples, [f for f in c.calls if f is not fn], c.table, c.names)
        except (OSError, TypeError, SyntaxError):
            pass
    return _direct[fn]


def reach(fn, depth=4):
    """functions of the package reachable from fn by mention (fn first)."""
    while isinstance(fn, partial):
        fn = fn.func
    out, todo = [], [(fn, 0)]
    while todo:
        f, d = todo.pop(0)
        if f in out or not isinstance(f, types.FunctionType):
            continue
        out.append(f)
        if d < depth:
            todo += [(g, d + 1) for g in direct(f)[2]]
    return out


_fanin = None
SHARED = 8        # a helper mentioned by more decoders than this is "common" (errno table, result formatting ...)


def _handlers():
    from pykdebugparser.traces_parser import TracesParser
    return TracesParser({}, {}, {}).handlers


def _unwrap(fn):
    while isinstance(fn, partial):
        fn = fn.func
    return fn


def fanin():
    global _fanin
    if _fanin is None:
        _fanin = {}
        for root in {_unwrap(f) for f in _handlers().values()}:
            for f in reach(root):
                _fanin[f] = _fanin.get(f, 0) + 1
    return _fanin


def mined(name):
    """constants mentioned by the decoder registered under `name` in the current tree:
    'specific' (its own body and helpers few decoders share), 'common' (widely shared helpers), 'tuples'."""
    if name in _cache:
        return _cache[name]
    fn = _handlers().get(name)
    spec, common, tu, names = set(), set(), set(), set()
    if fn is not None:
        fi = fanin()
        for f in reach(fn):
            sc, t, _, tab, nm = direct(f)
            if fi.get(f, 1) <= SHARED:
                spec |= sc | tab
                tu |= t
                names |= nm
            else:
                common |= sc          # bulk tables of widely shared helpers (errno names ...) are swept by the checks anyway
    ok = lambda v: -(1 << 63) <= v <= MASK64      # noqa
    out = {'specific': sorted(v for v in spec if ok(v)), 'common': sorted(v for v in common - spec if ok(v)),
           'tuples': sorted(t for t in tu if all(ok(v) for v in t)), 'names': sorted(names - {name})}
    _cache[name] = out
    return out


def parser_level():
    """constants of the code every record passes through (TracesParser itself)."""
    if '__parser__' not in _cache:
        from pykdebugparser.traces_parser import TracesParser
        sc, tu = set(), set()
        for m, f in vars(TracesParser).items():
            f = getattr(f, '__func__', f)
            if isinstance(f, types.FunctionType):
                for g in reach(f, 2):
                    if g not in fanin() or g is f:
                        a, b, _, _t, _n = direct(g)
                        sc |= a
                        tu |= b
        _cache['__parser__'] = {'specific': sorted(sc), 'common': [], 'tuples': sorted(tu)}
    return _cache['__parser__']


def as_words(v):
    """the 64-bit words a value can appear as in a record (negative: 64-bit and zero-extended 32-bit forms)"""
    if v >= 0:
        return [v & MASK64]
    return [v & MASK64, v & 0xffffffff]


def derived(scalars, limit=400):
    """all scalars (at most 300), plus pairwise OR and sum (flag bits stacked on codes) of the 24 smallest."""
    base = sorted(set(scalars), key=lambda v: (abs(v), v))[:300]
    out = list(base)
    seen = set(base)
    for a, b in itertools.combinations(base[:24], 2):
        for v in (a | b if a >= 0 and b >= 0 else None, a + b):
            if v is not None and v not in seen and -(1 << 63) <= v <= MASK64:
                seen.add(v)
                out.append(v)
    return out[:limit]


def plant_vectors(name, base_fn, allowed_fn, rnd, budget=300, nwords=8, max_singles=1200, pool=None):
    """Vectors of `nwords` words (START words then END words): base_fn() gives an in-domain vector,
    allowed_fn(pos, word) says whether the word may be put at that position.  Yields (vector, plants): ONE planted
    constant, a tuple constant at every offset, PAIRS (tuple+scalar, scalar+scalar) and a few triples, sampled down
    to about 3*budget.  Decoder-specific constants first, widely shared ones (errno numbers ...) only as partners."""
    m = pool if pool is not None else mined(name)
    raw = list(dict.fromkeys(w for v in sorted(m['specific'], key=lambda v: (abs(v), v))[:60] for w in as_words(v)))
    spec = list(dict.fromkeys(w for v in derived(m['specific']) for w in as_words(v)))
    comm = list(dict.fromkeys(w for v in m['common'] for w in as_words(v)))
    s_spec = [((pos, w),) for pos in range(nwords) for w in spec if allowed_fn(pos, w)]
    s_comm = [((pos, w),) for pos in range(nwords) for w in comm if allowed_fn(pos, w)]
    tups = []
    for t in m['tuples']:
        for forms in itertools.product(*[as_words(v) for v in t]):
            for off in list(range(0, 4 - len(forms) + 1)) + list(range(4, nwords - len(forms) + 1)):
                pl = tuple((off + i, w) for i, w in enumerate(forms))
                if all(allowed_fn(p, w) for p, w in pl):
                    tups.append(pl)

    def sample(xs, n):
        return xs if len(xs) <= n else rnd.sample(xs, n)

    def disjoint(a, b):
        return not ({p for p, _ in a} & {p for p, _ in b})

    # the constants AS WRITTEN in the code at every free position: always all of them; their OR / sum combinations sampled
    s_raw = [((pos, w),) for pos in range(nwords) for w in raw if allowed_fn(pos, w)]
    rawset = set(s_raw)
    combos = s_raw + sample([x for x in s_spec if x not in rawset], max_singles) + sample(tups, budget)
    partners = s_spec + s_comm
    pairs = [t + s for t in tups for s in partners if disjoint(t, s)]
    combos += sample(pairs, budget)
    if s_spec:
        p2 = [a + b for a in sample(s_spec, 60) for b in sample(partners, 60) if disjoint(a, b)]
        combos += sample(p2, budget)
        p3 = []
        for _ in range(budget):
            a, b, c = rnd.choice(s_spec), rnd.choice(partners), rnd.choice(partners)
            if disjoint(a, b) and disjoint(a, c) and disjoint(b, c):
                p3.append(a + b + c)
        combos += p3[:budget // 2]
    for pl in combos:
        vec = list(base_fn())
        for p, w in pl:
            vec[p] = w
        yield tuple(vec), pl


def audit_allowed(audit_entry, skip=()):
    """allowed_fn for plant_vectors from the frozen audit: a word may be planted where the audited domain is free
    or lists it; string-id / ioctl-request positions and `skip` positions are left alone."""
    dom = audit_entry['dom']

    def ok(pos, w):
        if pos in skip:
            return False
        d = dom[pos]
        if d is None:
            return True
        return isinstance(d, list) and w in d
    return ok


def total_specific(names):
    return sum(len(mined(n)['specific']) for n in names)


def reset():
    """forget everything mined (the package was re-imported, e.g. under another host platform)"""
    global _fanin
    _cache.clear()
    _direct.clear()
    _fanin = None


_infra = None


def infra():
    """constants of the INFRASTRUCTURE modules (container reader, parser, formatter, record decoder - not the decoder
    tables): 'bytes' literals / module-level bytes (markers a reader may look for inside the data) and 'sizes' (integers
    >= 64 that may be a block size, a bound on a table or on a window): used as input SHAPES - record heads, filler and
    padding lengths, numbers of threads, window lengths"""
    global _infra
    if _infra is not None:
        return _infra
    import importlib
    import operator
    bts, sizes = set(), set()
    ops = {ast.LShift: operator.lshift, ast.Mult: operator.mul, ast.Add: operator.add, ast.Sub: operator.sub, ast.Pow: operator.pow}

    def fold(node):
        if isinstance(node, ast.Constant) and _is_int(node.value):
            return node.value
        if isinstance(node, ast.BinOp) and type(node.op) in ops:
            a, b = fold(node.left), fold(node.right)
            if a is not None and b is not None and abs(a) < (1 << 40) and abs(b) < 64 or (a is not None and b is not None and type(node.op) in (ast.Add, ast.Sub, ast.Mult) and abs(a) < (1 << 40) and abs(b) < (1 << 40)):
                try:
                    return ops[type(node.op)](a, b)
                except Exception:
                    return None
        return None
    for modname in ('kevent', 'kd_buf_parser', 'traces_parser', 'pykdebugparser', 'callstacks_parser', 'os_log_event',
                    'trace_codes', '__main__', 'trace_handlers.trace', 'trace_handlers.fsystem'):
        try:
            mod = importlib.import_module('pykdebugparser.' + modname)
            tree = ast.parse(inspect.getsource(mod))
        except Exception:
            continue
        for v in vars(mod).values():
            if isinstance(v, (bytes, bytearray)) and 2 <= len(v) <= 16:
                bts.add(bytes(v))
            elif _is_int(v):
                sizes.add(int(v))
        for node in ast.walk(tree):
            if isinstance(node, ast.Constant) and isinstance(node.value, bytes) and 2 <= len(node.value) <= 16:
                bts.add(node.value)
            v = fold(node) if isinstance(node, (ast.Constant, ast.BinOp)) else None
            if v is not None:
                sizes.add(v)
    _infra = {'bytes': sorted(bts), 'sizes': sorted(v for v in sizes if 64 <= v <= (1 << 22))}
    return _infra


SIZE_CAP = (1 << 20) + 64          # quick tier; the thorough tier raises it (common.run_check)


def size_hints(lo=64, hi=None):
    """size-like constants of the infrastructure modules within the tier's cap (see infra()); hi: a lower cap where one
    unit of the size is expensive (a thread, a rendered record)"""
    return [v for v in infra()['sizes'] if lo <= v <= min(SIZE_CAP, hi or SIZE_CAP)]
