"""C17 - every registered decoder is reachable; X and X_nocancel decode alike.
 (1) TLC Tables_MC: on every small configuration of decoder tables and code table the table invariants are exactly
     what makes every registered decoder invocable through feed / parse_event_list.
 (2) TLC Tables.tla on the EXTRACTED configuration of the working tree (468 names, 3018 table lines, every handle_*
     function): names in the table under an id with clear qualifier bits, families disjoint, X_nocancel => X,
     every decoder function registered.
 (3) code: every twin pair rendered on seeded START / END tuples and lookups: identical text after deleting the
     '_nocancel' suffix of the call name (and the same exceptions, if any)."""
import functools
import inspect
import json
import os
import random

from . import mine
from .pairing import AUDIT, default_codes
from .render import Prober
from .tlc import run_tlc, VAL_CFG

MC_CFG = '''SPECIFICATION Spec
INVARIANT AllReachableIffInvariants
INVARIANT ConverseReachability
CHECK_DEADLOCK FALSE
'''


def extract():
    from pykdebugparser.trace_handlers import bsd, mach, dyld, fsystem, perf, trace, turnstile
    mods = {'bsd': bsd, 'mach': mach, 'dyld': dyld, 'fsystem': fsystem, 'perf': perf, 'trace': trace,
            'turnstile': turnstile}
    fams, defined, twins = [], [], []
    handlers = {}
    for fam, m in mods.items():
        hs = m.handlers
        fams.append({'fam': fam, 'names': sorted(hs)})
        reg = set()
        for n, h in hs.items():
            handlers[n] = h
            f = h
            while isinstance(f, functools.partial):
                f = f.func
            reg.add(f)
        # functions reached from registered ones (helpers such as handle_thd_data called by handle_event)
        src_all = inspect.getsource(m)
        for fn_name, fn in inspect.getmembers(m, inspect.isfunction):
            if fn_name.startswith('handle_') and fn.__module__ == m.__name__:
                called = src_all.count(fn_name + '(') > 1 or ('partial(' + fn_name) in src_all
                defined.append({'fam': fam, 'fn': '%s.%s' % (fam, fn_name), 'registered': fn in reg or called})
        for n in hs:
            if n.endswith('_nocancel'):
                twins.append({'twin': n, 'base': n[:-len('_nocancel')]})
    codes = {}
    from pykdebugparser.trace_codes import default_trace_codes
    import pykdebugparser.trace_codes as tc
    text = open(os.path.join(os.path.dirname(tc.__file__), 'trace.codes')).read()
    for line in text.splitlines():
        p = line.split()
        if len(p) >= 2:
            codes.setdefault(p[1], []).append(int(p[0], 16) & 3)
    table = default_trace_codes()
    # the parsed table is what the parser uses: a name survives only under ids that kept it (last wins per id)
    live = {}
    for i, n in table.items():
        live.setdefault(n, []).append(i & 3)
    return {'fams': fams, 'defined': defined, 'twins': twins,
            'codes': [{'name': n, 'lowbits': sorted(set(v)), 'n': len(v)} for n, v in sorted(live.items())]}, handlers


def run(ctx):
    rnd = random.Random(ctx.seed)
    # which decoder serves a record is a function of the fed object's OWN code table (spec/Dispatch_MC.tla): design
    # model-checked with its misplaced-memo variants, behaviours replayed on real parser and dict objects
    from . import dispatch
    dispatch.model_check(ctx, ['memoOnClass'])
    dispatch.run(ctx)
    ctx.expect_ok(run_tlc('Tables_MC', MC_CFG, ctx.workdir, name='tables_design', timeout=600))
    conf, handlers = extract()
    path = os.path.join(ctx.workdir, 'tables.json')
    with open(path, 'w') as f:
        json.dump(conf, f)
    r = run_tlc('Tables', VAL_CFG, ctx.workdir, name='tables_extracted', workers=1, timeout=900, env={'OBS_FILE': path})
    ctx.add_tlc(r, counts=False)
    counts = r.tuples('COUNTS')
    if not counts:
        raise RuntimeError('Tables.tla did not report counts\n' + r.out[-2000:])
    for t in r.tuples('REJ'):
        ctx.violation('C17/%s@%s' % (t[2], t[1]), '%s: %s' % (t[1], t[2]), {'kind': 'tables', 'entry': t[1], 'clause': t[2]})
    ctx.traces += counts[0][1]
    # ---- twins decode alike
    pr = Prober(rnd)
    pairs = [(t['base'], t['twin']) for t in conf['twins'] if t['base'] in handlers]
    ncmp = 0
    nplanted = 0
    for base, twin in pairs:
        name_for_words = twin if twin in AUDIT else base
        vecs = []
        for k in range(60 if ctx.quick else 240):
            S = pr.distinct_words(name_for_words, 'start')
            E = pr.distinct_words(name_for_words, 'end')
            if k % 2 == 0:
                E[0] = 0
            if k >= 2:              # boundary values, one free START word at a time (fd -1 / -2 = AT_FDCWD, flags 0 / 1, ...)
                from .c09 import BOUNDARY
                j = k % 4
                if name_for_words in AUDIT and AUDIT[name_for_words]['dom'][j] is None:
                    S[j] = BOUNDARY[(k // 4 + j) % len(BOUNDARY)]
            vecs.append((S, E, k))
        # constants the twin's / base's own code mentions (mined from the working tree): alone, tuples at every offset,
        # pairs and triples, START and END words (error word included) - a special case must serve both names alike
        if name_for_words in AUDIT:
            ok = mine.audit_allowed(AUDIT[name_for_words])
            basef = lambda: pr.distinct_words(name_for_words, 'start') + pr.distinct_words(name_for_words, 'end')      # noqa
            for nm in (base, twin):
                for vec, pl in mine.plant_vectors(nm, basef, ok, rnd, budget=60 if ctx.quick else 400):
                    nplanted += 1
                    vecs.append((list(vec[:4]), list(vec[4:]), nplanted))
        for S, E, k in vecs:
            # (paths that CONTAIN the call's own name: only the call name gets the suffix)
            bn = base[4:].replace('sys_', '').encode()
            paths = [b'/tw%d' % i if k % 2 else [b'/etc/%sldap/%s.d/%s' % (bn, bn, bn), b'/Downloads/%s(1).pdf, %s_nocancel(2)' % (bn, bn)][(k // 2) % 2]
                     for i in range(k % 3)]

            def rend(n):
                try:
                    # the twin's own id may not be in the audit (a newly registered base): use the table id directly
                    return pr.render(n, S, E, paths)
                except KeyError:
                    raise
                except Exception as ex:
                    return 'RAISED ' + type(ex).__name__
            try:
                a, b = rend(base), rend(twin)
            except KeyError:
                continue
            ncmp += 1
            # identical except for the suffix OF THE CALL NAME: the twin must carry it, the base must not
            def split(t):
                i = t.find('(') if t else -1
                return (t[:i], t[i:]) if i > 0 else (t, '')
            (na, ra), (nb, rb) = split(a), split(b)
            same = a is not None and b is not None and ra == rb and \
                (nb == na + '_nocancel' or (a.startswith('RAISED') and a == b))
            if not same:
                ctx.violation('C17/twins-differ@%s' % base, '%s renders %r, %s renders %r' % (base, a, twin, b),
                              {'kind': 'tables', 'entry': base, 'start': [hex(x) for x in S], 'end': [hex(x) for x in E]})
                break
    from .render import report_unstable
    report_unstable(ctx, pr)
    ctx.sample({'twin_pairs': pairs[:5], 'counts (names, table names, twins, functions)': counts[0][1:]})
    ctx.extra['code'] = {'decoder_names': counts[0][1], 'table_names': counts[0][2], 'twin_pairs': len(pairs),
                         'twin_renderings_compared': ncmp, 'of_which_planted': nplanted, 'decoder_functions': counts[0][4]}
    ctx.assumptions += ['a decoder function counts as registered if it is a value of a handlers dictionary (partial '
                        'unwrapped) or is called by / bound into another function of its module']


def replay(ctx, path):
    rp = json.load(open(path))['replay']
    print(json.dumps(rp, indent=1))
    return 0
