"""C10 - syscall results: errors take precedence and come only from the END record.
 (1) TLC Render_MC: the transcription of serialize_result satisfies ResultOK for every error word 0..120 (known and
     unknown numbers) x return word x with/without success value; three negative controls (words swapped, precedence
     inverted, success value next to errno) must be rejected.
 (2) code -> spec: every BSD decoder x END tuples (error in {0} u 1..106 u {107, 127..256, 9999, 2^16, 2^31, 2^32, 2^63, 2^64-1, random}, return
     word a distinct probe) x START tuples; the result text is parsed into parts, each number is resolved to the
     probe word it IS; dependencies of the result part / call part are measured by one-at-a-time variation;
     validated by Render_Val!ResultVerdict in TLC."""
import json
import random
import re

from . import mine
from .pairing import AUDIT
from .render import Prober, label, tokenize, numval, forms
from .tlc import run_tlc, validate_observations
from .c09 import MC_CFG, replay  # noqa

EXEMPT = {'BSC_getpid', 'BSC_getuid', 'BSC_geteuid', 'BSC_getgid', 'BSC_getegid', 'BSC_getppid', 'BSC_getpgrp',
          'BSC_umask', 'BSC_sync', 'BSC_sys_getdtablesize', 'BSC_getlogin', 'BSC_execve', 'BSC_vfork',
          'BSC_bsdthread_create', 'BSC_abort_with_payload'}
ERRNO_RE = re.compile(r'^errno: (?:([A-Za-z0-9_]+)\((\d+)\)|(\d+))$')
OUTPATH_RE = re.compile(r'\s*[a-z_ ]+: "[^"]*"')


def ref_of(v, S, E):
    for i in range(4):
        if v in forms(E[i]):
            return 'e%d' % i
    for i in range(4):
        if v in forms(S[i]):
            return 's%d' % i
    return 'other'


def parse_result(R, S, E):
    R = OUTPATH_RE.sub('', R).strip()
    if not R:
        return []
    m = ERRNO_RE.match(R)
    if m:
        code = int(m.group(2) or m.group(3))
        return [{'form': 'errno-name' if m.group(1) else 'errno-num', 'ref': 'e0' if code == E[0] else 'other'}]
    parts = []
    for piece in R.split(', '):
        lab, sep, val = piece.partition(': ')
        if not sep:
            lab, sep, val = piece.rpartition(' ')
        val = val.strip()
        if lab.strip().startswith('errno'):
            parts.append({'form': 'errno-num', 'ref': 'other'})
            continue
        v = numval(val)
        if v is not None:
            parts.append({'form': 'value', 'ref': ref_of(v, S, E)})
        elif val in ('True', 'False'):
            parts.append({'form': 'value', 'ref': 'e1' if val == str(bool(E[1])) else 'other'})
        else:
            parts.append({'form': 'junk', 'ref': 'other'})
    return parts


def run(ctx):
    rnd = random.Random(ctx.seed)
    # the decoder that renders a result is the one the fed object's OWN table names (spec/Dispatch_MC.tla)
    from . import dispatch
    dispatch.model_check(ctx, ['memoOnClass'])
    dispatch.run(ctx, 600 if ctx.quick else 10000)
    ctx.expect_ok(run_tlc('Render_MC', MC_CFG % ('ok', 2), ctx.workdir, name='result_rule', timeout=3600))
    for v in ('swapped', 'value-first', 'both'):
        ctx.expect_violation(run_tlc('Render_MC', MC_CFG % (v, 1), ctx.workdir, name='neg_' + v, timeout=600,
                                     allow_error=True), 'serialize_result variant ' + v)
    pr = Prober(rnd, reraise=False)
    names = sorted(n for n, a in AUDIT.items() if n.startswith('BSC_') and a.get('cls'))
    errs = [0] + list(range(1, 107)) + [107, 127, 128, 255, 256, 9999, 65535, 65536, 1 << 31, (1 << 32) - 1, 1 << 32,
                                        (1 << 32) + 2, 1 << 63, (1 << 64) - 1, (1 << 31) - 1, (1 << 63) - 1]
    errs += [(1 << 32) - k for k in range(2, 9)] + [(1 << 64) - k for k in range(2, 9)]      # -2 .. -8 as 32 / 64 bit (kernel pseudo errors)
    errs += [rnd.getrandbits(64) for _ in range(3)]
    deep = [0, 2, 35, 107, 1 << 63] if ctx.quick else [0, 1, 2, 11, 35, 45, 106, 107, 9999, 1 << 31, 1 << 63, (1 << 64) - 1]
    obs, info = [], {}
    for name in names:
        exempt = name in EXEMPT
        pipe = name == 'BSC_pipe'
        for rep in range(1 if ctx.quick else 3):
            S = pr.distinct_words(name, 'start')
            Eb = pr.distinct_words(name, 'end')
            for e0 in errs:
                E = [e0] + Eb[1:]
                oid = '%s#%d#%d' % (name, rep, e0)
                o = {'id': oid, 'kind': 'res', 'name': name, 'exempt': exempt, 'e0zero': e0 == 0,
                     'okrefs': ['e1', 'e2'] if pipe else ['e1'], 'okdeps': [1, 2] if pipe else [1]}
                if e0 in deep:
                    lab = label(pr, name, S, E, [b'/x', b'/y'], nalt=2)
                    if not lab['shaped']:
                        continue
                    text = lab['text']
                    o['res'] = lab['res']
                    o['calldep'] = any(p['de'] for p in lab['params'])
                else:
                    text = pr.render(name, S, E, [b'/x', b'/y'])
                    o['res'] = {'ds': [], 'de': [], 'dl': []}
                    o['calldep'] = False
                tk = tokenize(text) if text else None
                if tk is None:
                    continue
                o['parts'] = parse_result(tk[2], S, E)
                obs.append(o)
                info[oid] = (text, S, E)
    # constants mined from the decoder's own code: as error word stacked on every errno number (flag bits OR-ed /
    # added), and planted into the START / END words (tuples at every offset) under every errno number
    planted = 0
    allerr = list(range(0, 111))
    for name in names:
        m = mine.mined(name)
        if not (m['specific'] or m['tuples']):
            continue
        exempt = name in EXEMPT
        pipe = name == 'BSC_pipe'
        spec = [v for v in mine.derived(m['specific'], 60) if v > 0]
        S = pr.distinct_words(name, 'start')
        Eb = pr.distinct_words(name, 'end')
        cases = []
        # partners: every errno number (thorough) / the ones the code compares with plus a fixed spread (quick)
        part = allerr if not ctx.quick else sorted(set([0, 1, 2, 4, 9, 13, 22, 35, 60, 106] + rnd.sample(allerr, 4) +
                                                       [v for v in m['common'] + m['specific'] if 0 <= v < 256]))
        for v in spec[:24 if ctx.quick else 60]:
            for e in part:
                for e0 in {v | e, v + e}:
                    if e0 < (1 << 64):
                        cases.append((S, [e0] + Eb[1:]))
        ok = mine.audit_allowed(AUDIT[name], skip=(4,))
        rawwords = {w_ for v in m['specific'] for w_ in mine.as_words(v)}
        nraw = 0
        base = lambda: pr.distinct_words(name, 'start') + [0] + pr.distinct_words(name, 'end')[1:]      # noqa
        for vec, pl in mine.plant_vectors(name, base, ok, rnd, budget=20 if ctx.quick else 100,
                                           max_singles=100 if ctx.quick else 1200):
            tup = len(pl) >= 2
            # a constant AS WRITTEN in the code, at a START position: under EVERY error number (the other START words are
            # random non-zero words, so "this word 0 / this word 3, the others set" shapes are all reached)
            rawstart = len(pl) == 1 and pl[0][0] < 4 and pl[0][1] in rawwords and nraw < (10 if ctx.quick else 400)
            nraw += 1 if rawstart else 0
            es = (allerr if (tup or rawstart) else [0] + rnd.sample(allerr, 3)) + [v for v in m['specific'] + m['common'] if 0 < v < 256][:8]
            for e0 in es:
                cases.append((list(vec[:4]), [e0] + list(vec[5:])))
        for S2, E in cases:
            if forms(E[1]) & forms(E[0]):
                continue          # return word indistinguishable from the error word: the probe could not tell them apart
            planted += 1
            oid = '%s#p%d#%d' % (name, planted, E[0])
            text = pr.render(name, S2, E, [b'/x', b'/y'])
            tk = tokenize(text) if text else None
            if tk is None:
                continue
            obs.append({'id': oid, 'kind': 'res', 'name': name, 'exempt': exempt, 'e0zero': E[0] == 0,
                        'okrefs': ['e1', 'e2'] if pipe else ['e1'], 'okdeps': [1, 2] if pipe else [1],
                        'res': {'ds': [], 'de': [], 'dl': []}, 'calldep': False, 'parts': parse_result(tk[2], S2, E)})
            info[oid] = (text, S2, E)
    ctx.extra['planted_results'] = planted
    # SHAPES: every zero / non-zero pattern of the START words (a decoder branching on "no mutex, timeout set" writes no
    # constant the miner could see) under the error numbers - all of them in the thorough tier
    from .encode import make_event
    from pykdebugparser.traces_parser import TracesParser
    errs2 = list(range(1, 111)) if not ctx.quick else [1, 2, 3, 4, 5, 9, 10, 11, 12, 13, 16, 17, 22, 24, 28, 32, 35, 36, 37, 45, 54,
                                                       57, 60, 61, 63, 78, 89, 102, 105]
    nshape = 0
    codes_ = pr.w.codes
    for name in names:
        if name in EXEMPT:
            continue
        dom = AUDIT[name]['dom']
        eid = pr.w.name2id[name]
        pipe = name == 'BSC_pipe'
        for pat in range(16):
            S = []
            for j in range(4):
                zero = pat >> j & 1
                d = dom[j]
                if d is None:
                    S.append(0 if zero else rnd.getrandbits(40) + 1000)
                elif isinstance(d, list) and d:
                    S.append(0 if (zero and 0 in d) else rnd.choice(d))
                else:
                    S.append(0x20006601 if d == 'ioctl' else 0)
            Eb = [rnd.getrandbits(30) + 500, 2, 3]
            for e0 in errs2:
                p_ = TracesParser(codes_, {}, {})
                try:
                    p_.feed(make_event(10, eid | 1, 77, tuple(S)))
                    r = p_.feed(make_event(11, eid | 2, 77, (e0, Eb[0], Eb[1], Eb[2])))
                    text = None if r is None else str(r)
                except Exception as ex:
                    pr.raised.append((name, S, [e0] + Eb, repr(ex)))
                    continue
                tk = tokenize(text) if text else None
                if tk is None:
                    continue
                nshape += 1
                oid = '%s#z%d#%d' % (name, pat, e0)
                obs.append({'id': oid, 'kind': 'res', 'name': name, 'exempt': False, 'e0zero': False,
                            'okrefs': ['e1', 'e2'] if pipe else ['e1'], 'okdeps': [1, 2] if pipe else [1],
                            'res': {'ds': [], 'de': [], 'dl': []}, 'calldep': False, 'parts': parse_result(tk[2], S, [e0] + Eb)})
                info[oid] = (text, S, [e0] + Eb)
    ctx.extra['zero_nonzero_shapes'] = nshape
    # the result part comes from the END record ONLY: records of the thread that lie between START and END - announcements of a
    # new thread / an exec'ed process, terminate records, sampler thread info, undecoded trace-class records - change nothing
    nbetween = 0
    w_ = pr.w
    for name in names:
        S = pr.distinct_words(name, 'start')
        for e0 in (0, 2):
            E = [e0] + pr.distinct_words(name, 'end')[1:]
            base = pr.render(name, S, E, [])
            between = [w_.ntd(1, 2, 4242), w_.exd(1, 4343), w_.tpid(1, 4444), w_.thd(1, 4545, 1), w_.term(1, 2)] + \
                ([w_.known(0, 1, name=rnd.choice(w_.trace_known))] if w_.trace_known else [])
            rnd.shuffle(between)
            n0 = w_.ntd(1, 2, 4242)
            n0.words = (n0.words[0], n0.words[1], 0, n0.words[3])          # a genuine new thread (not the copy made by exec)
            t2 = base
            for var in ([n0], [w_.exd(1, 4343)], between[:rnd.choice([3, 6])]):
                nbetween += 1
                t2 = pr.render(name, S, E, [], nested=var)
                if t2 != base:
                    break
            if base is not None and t2 != base:
                ctx.violation('C10/records-between-change-result@%s' % name, '%s with END %s reads %r; with announcement / terminate / sampler records of the thread between START and END it reads %r'
                              % (name, [hex(x) for x in E], base, t2),
                              {'kind': 'render', 'name': name, 'start': [hex(x) for x in S], 'end': [hex(x) for x in E]})
    ctx.extra['results_with_records_between'] = nbetween
    nv, rej, _ = validate_observations('Render_Val', obs, ctx.workdir, name='c10val', timeout=3000, dedupe=True)
    ctx.traces += nv
    for oid, clause in rej:
        name = oid.split('#')[0]
        text, S, E = info[oid]
        ctx.violation('C10/%s@%s' % (clause, name), '%s with END %s renders %r: %s' % (name, [hex(x) for x in E], text, clause),
                      {'kind': 'render', 'name': name, 'start': [hex(x) for x in S], 'end': [hex(x) for x in E]})
    if len(obs) > 40:
        ctx.sample({'text': info[obs[40]['id']][0], 'parts': obs[40]['parts']})
    ctx.extra['code_to_spec'] = {'bsd_decoders': len(names), 'exempt': sorted(EXEMPT), 'error_values': len(errs),
                                 'observations': nv}
    # the RESULT TEXT itself inside a path of the call, through the formatter with colour on and off: the line is the trace's
    # text, whole (colouring never changes the text; the call part does not depend on the END record)
    import io as _io
    from .pipeline import Dump, strip_ansi
    from .pairing import PATH_CLASSES
    from pykdebugparser.pykdebugparser import PyKdebugParser
    path_names = [n for n in names if AUDIT[n].get('cls') in PATH_CLASSES]
    nfmt = 0
    for i in range(30 if ctx.quick else 400):
        name = path_names[rnd.randrange(len(path_names))]
        S = pr.distinct_words(name, 'start')
        E = [rnd.choice([0, 0, 2, 13, 9999])] + pr.distinct_words(name, 'end')[1:]
        t0 = pr.render(name, S, E, [b'/x', b'/y'])
        tk = tokenize(t0) if t0 else None
        if tk is None:
            continue
        R = tk[2]
        w = pr.w
        path2 = b'/tmp/log, ' + R.encode() + b'/out'
        stream = [w.sys(name, 1, 1, tuple(S))] + w.lookup(1, path2, vid=7) + w.lookup(1, b'/second, ' + R.encode(), vid=7) + [w.sys(name, 2, 1, tuple(E))]
        d = Dump(w, stream, [])
        lines = {}
        for col in (False, True):
            pk = PyKdebugParser()
            pk.color = col
            pk.show_timestamp = pk.show_process = pk.show_tid = False
            try:
                ls = [strip_ansi(x) for x in pk.formatted_traces(_io.BytesIO(d.blob), w.codes)]
                lines[col] = ls[-1] if ls else None
            except Exception as ex:
                lines[col] = 'RAISED ' + repr(ex)
        want = pr.render(name, S, E, [path2, b'/second, ' + R.encode()])
        nfmt += 1
        if lines[False] != want or lines[True] != want:
            ctx.violation('C10/formatted-line-differs@%s' % ('colour' if lines[False] == want else 'plain'),
                          '%s whose path contains its own result text %r: trace text %r, formatted plain %r, coloured (escapes removed) %r'
                          % (name, R, want, lines[False], lines[True]),
                          {'kind': 'render', 'name': name, 'start': [hex(x) for x in S], 'end': [hex(x) for x in E]})
    ctx.extra['formatted_lines_with_result_text_in_path'] = nfmt
    from .render import report_raised, report_unstable
    report_raised(ctx, pr)
    report_unstable(ctx, pr)
    ctx.assumptions += ['NAME of a known errno is judged by C18, not here', 'a quoted output path appended to the result '
                        '(fsgetpath) is not part of the result rule']
