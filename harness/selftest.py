"""./check selftest - demonstrates that the specifications are BOUND to the observations: for every validator a
small batch of genuine observations recorded from the real code is accepted, and the same batch with ONE field of
ONE observation corrupted is rejected with the expected clause.  Not a property check (not in MANIFEST); exit 0 if
every corruption was rejected and every genuine batch accepted."""
import copy
import os
import random
import shutil
import sys

from . import gen
from .common import VERIF, import_repo
from .tlc import validate_observations


def main():
    import_repo()
    work = os.path.join(VERIF, 'work', 'selftest_%d' % os.getpid())
    rnd = random.Random(7)
    fails = []
    done = []

    def case(module, good, mutate, expect, consts=''):
        n, rej, _ = validate_observations(module, good, work, name=module + '_good', consts=consts)
        if rej:
            fails.append('%s: genuine observations rejected: %s' % (module, rej[:3]))
            return
        bad = copy.deepcopy(good)
        what = mutate(bad)
        n, rej, _ = validate_observations(module, bad, work, name=module + '_bad', consts=consts)
        ok = any(expect in c for _, c in rej)
        done.append((module, what, [c for _, c in rej][:2]))
        if not ok:
            fails.append('%s: corruption "%s" not rejected with clause %r (got %s)' % (module, what, expect, rej[:3]))

    # ---- Pairing_Val
    from .pairing import World, run_stream, observation, VAL_CONSTS
    obs = []
    for i in range(20):
        w = World(rnd)
        g = gen.ProgGen(w, rnd, ntids=2, noise=0.0, composites=False, usestr=False)
        stream = gen.interleave(rnd, [g.program(t, 2) for t in (1, 2)])
        obs.append(observation('p%d' % i, stream, run_stream(w, stream), 'full'))

    def m_win(b):
        for o in b:
            for s in o['steps']:
                if s.get('emit') and len(s['win']) > 2:
                    del s['win'][1]
                    return 'dropped one event from a recorded window'
    case('Pairing_Val', obs, m_win, 'window', VAL_CONSTS)

    def m_field(b):
        for o in b:
            for s in o['steps']:
                if s.get('emit') and s['f'].get('ps') and s['f']['ps'][0]:
                    s['f']['ps'][0] = s['f']['ps'][0][:-1]
                    return 'truncated a recorded path by one byte'
    case('Pairing_Val', obs, m_field, 'fields', VAL_CONSTS)

    def m_emit(b):
        for o in b:
            for s in o['steps']:
                if s.get('emit'):
                    s['emit'] = False
                    return 'removed one recorded trace emission'
    case('Pairing_Val', obs, m_emit, 'missing-trace', VAL_CONSTS)

    # ---- KdRecord_Val
    from .c01 import observe
    recs = [observe(bytes(rnd.getrandbits(8) for _ in range(64)), 'r%d' % i) for i in range(20)]

    def m_rec(b):
        b[3]['tid'][2] ^= 1
        return 'flipped one bit of a recorded tid'
    case('KdRecord_Val', recs, m_rec, 'tid')

    # ---- Container_Val
    from .container import FileGen, parse_history
    cobs = []
    for i in range(10):
        g2 = FileGen(rnd)
        cobs.append({'id': 'c%d' % i, 'parses': parse_history([g2.v2(nrec=3), g2.v3(nrec=4, nblocks=3)], 'kdbuf')})

    def m_yield(b):
        b[0]['parses'][0]['yields'].pop()
        return 'removed the last recorded yield'
    case('Container_Val', cobs, m_yield, 'missing-yield')

    def m_tab(b):
        for o in b:
            for p in o['parses']:
                if p['tpid']:
                    p['tpid'][0][1] += 1
                    return 'changed one recorded thread->pid entry'
    case('Container_Val', cobs, m_tab, 'threads_pids')

    # ---- Pipeline_Val
    from .c13 import gen_dump, VAL_CONSTS as PCONST
    from .pipeline import request, apply_cfg
    from pykdebugparser.pykdebugparser import PyKdebugParser
    pobs = []
    for i in range(10):
        w, dump = gen_dump(rnd)
        p = PyKdebugParser()
        apply_cfg(w, p, {'ftid': 0, 'fproc': {'kind': 'none'}, 'fclass': [4], 'fsub': []})
        r, _ = request(w, p, dump, 'traces')
        pobs.append({'id': 'q%d' % i, 'dump': dump.abstract(), 'reqs': [r]})

    def m_tr(b):
        for o in b:
            if o['reqs'][0]['out']:
                o['reqs'][0]['out'].pop(0)
                return 'removed the first recorded trace of a filtered listing'
    case('Pipeline_Val', pobs, m_tr, 'traces-', PCONST)

    def m_set(b):
        b[0]['reqs'][0]['after']['fclass'].append(7)
        return 'recorded settings-after differ from settings-before'
    case('Pipeline_Val', pobs, m_set, 'settings-changed', PCONST)

    # ---- Flags_Val
    fobs = [{'id': 'f1', 'kind': 'flags', 'fam': 'open', 'bits': [0, 9], 'shown': ['O_WRONLY', 'O_CREAT'], 'via': 'x'},
            {'id': 'f2', 'kind': 'ioctl', 'd': 2, 'len': 4096, 'group': 102, 'num': 1,
             'sh': {'ok': True, 'params': 'IOC_OUT', 'group': 102, 'num': 1, 'len': 4096}}]

    def m_flag(b):
        b[0]['shown'].append('O_TRUNC')
        return 'added a flag name whose bit is not set'
    case('Flags_Val', fobs, m_flag, 'name-shown-for-bits-not-set')

    def m_ioc(b):
        b[1]['sh']['len'] = 0
        return 'recorded ioctl length differs'
    case('Flags_Val', fobs, m_ioc, 'length')

    # ---- LogDecode_Val
    from .c16 import LogWorld, decode_direct, default_event
    lw = LogWorld(rnd)
    lobs = []
    for i, keys in enumerate([(), ('p', 'pid'), ('ti', 'dm', 'bt')]):
        raw, ab = lw.record(keys)
        lobs.append({'id': 'l%d' % i, 'raw': ab, 'empty': lw.sid[''], 'dec': lw.project(decode_direct(lw, raw), default_event())})

    def m_log(b):
        b[1]['dec']['process_identifier'] = 0
        return 'decoded pid replaced by its default'
    case('LogDecode_Val', lobs, m_log, 'field-value:process_identifier')

    # ---- CodeTable_Val
    tobs = [{'id': 't', 'lines': [{'id': [48, 120, 49, 48], 'name': 'A', 'rest': False}, {'id': [49, 48], 'name': 'B', 'rest': True}],
             'map': [[[1, 0], 'B']]}]

    def m_ct(b):
        b[0]['map'][0][1] = 'A'
        return 'first occurrence instead of last'
    case('CodeTable_Val', tobs, m_ct, 'name-or-last-wins')

    # ---- Host_Val
    hobs = [{'id': 'h', 'host': 'x', 'kind': 'errno', 'num': 35, 'shown': 'EAGAIN'}]

    def m_h(b):
        b[0]['shown'] = 'EDEADLK'
        return 'Linux name for errno 35'
    case('Host_Val', hobs, m_h, 'errno-name-not-darwin')

    # ---- Truncation_Val
    lay = [['ver2', 0, 4], ['hdr', 4, 288], ['rec', 288, 352], ['rec', 352, 416]]
    tob = [{'id': 'x', 'api': 'kevents', 'cut': 400, 'layout': lay, 'n': 1, 'full': 2, 'prefix': True, 'calls': 9,
            'bytes': 500, 'status': 'raised'}]

    def m_t(b):
        b[0]['n'] = 2
        return 'an event reported from a partial record'
    case('Truncation_Val', tob, m_t, 'fabricated-from-partial-record')

    def m_t2(b):
        b[0]['status'] = 'budget'
        return 'run did not stop within the read budget'
    case('Truncation_Val', tob, m_t2, 'no-termination')

    # ---- Callstacks_Val
    from .c15 import drive, sample_events
    w = World(rnd)
    st = [w.img(1, 2, 1), w.img(1, 5, 2)] + sample_events(w, 1, [1, 2, 3, 5, 6])
    steps, _ = drive(w, st)
    evs = []
    for k, a in enumerate(st, 1):
        d = dict(a.abs)
        d['k'] = k
        evs.append(d)
    sob = [{'id': 'cs', 'events': evs, 'steps': steps}]

    def m_cs(b):
        b[0]['steps'][-1]['frames'][2][1] = 2
        return 'a frame attributed to the other image'
    case('Callstacks_Val', sob, m_cs, 'attribution', VAL_CONSTS)

    # ---- Render_Val
    from .render import Prober, label
    pr = Prober(rnd)
    o = label(pr, 'BSC_read', [7, 1 << 40, 300000, 99999999], [0, 5, 6, 7], [])
    o.pop('text')
    o.update(id='rd', kind='pos')

    def m_r(b):
        b[0]['params'][2]['eq'] = [1]
        return 'third parameter equals START word 1'
    case('Render_Val', [o], m_r, 'shows-another-argument')

    # ---- Sessions_Val
    from . import sessions
    from .c13 import gen_dump as gd, gen_cfg as gc
    sobs = []
    for i in range(12):
        w, d1 = gd(rnd)
        o, _, _g = sessions.run_session(rnd, w, [d1], sessions.KINDS_ALL, gc)
        o['id'] = 'ss%d' % i
        sobs.append(o)

    def m_ses(b):
        for o in b:
            for a in o['acts']:
                if a['op'] == 'adv' and a['found'] and 'k' in a['item']:
                    a['item']['k'] += 1
                    return 'one next() of a listing returned the following event'
    case('Sessions_Val', sobs, m_ses, 'wrong-', sessions.VAL_CONSTS)

    def m_ses2(b):
        for o in b:
            for a in o['acts']:
                if a['op'] == 'adv' and not a['found']:
                    a['found'] = True
                    a['item'] = {'k': 1, 'first': 1, 'name': '-', 'start': 1, 'frames': [], 'proc': {'shown': False}}
                    return 'a listing went on after its end'
    case('Sessions_Val', sobs, m_ses2, 'listing-has-extra-item', sessions.VAL_CONSTS)

    # ---- Readers_Val
    from . import readers
    robs = []
    for i in range(12):
        o, _, _b, _g = readers.run_session(rnd, [2, 3], force_logs=True)
        o['id'] = 'rr%d' % i
        robs.append(o)

    def m_rd(b):
        for o in b:
            for a in o['acts']:
                if a['op'] == 'adv' and not a['found'] and a.get('tabs'):
                    a['tabs'][0][0].append([99, 98])
                    return 'an entry of another parse in the first reader object\'s table'
    case('Readers_Val', robs, m_rd, 'tables-of-some-reader-object', readers.VAL_CONSTS)

    def m_rd2(b):
        for o in b:
            for a in o['acts']:
                if a['op'] == 'adv' and a['found'] and a['item'].get('k') == 'log':
                    a['item']['msg'] += '?'
                    return 'a log message resolved to another string'
    case('Readers_Val', robs, m_rd2, 'yield-content-or-order', readers.VAL_CONSTS)

    shutil.rmtree(work, ignore_errors=True)
    for m, what, got in done:
        print('selftest %-16s corruption: %-55s -> rejected %s' % (m, what, got))
    for f in fails:
        print('SELFTEST FAILURE:', f)
    print('selftest: %d corruptions, %d failures' % (len(done), len(fails)))
    return 1 if fails else 0


if __name__ == '__main__':
    sys.exit(main())
