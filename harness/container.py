"""Structural file values (Container.tla) <-> bytes, and runners for the real container reader."""
import io
import plistlib
import struct

from . import encode as E

TID_BASE = 0x700000000000


def ctid(a):
    return 0 if a == 0 else TID_BASE + a * 0x100000001


def atid(c):
    if c == 0:
        return 0
    d = c - TID_BASE
    if d > 0 and d % 0x100000001 == 0 and d // 0x100000001 < 100000:
        return d // 0x100000001
    return -2


def cpid(p):
    return p + 0x7fff0000 if p % 2 else p


def apid(c):
    if c >= 0x7fff0000:
        return c - 0x7fff0000
    return c if c < 0x10000 else -2


JUNK = [b'', b'', b'ter\x00xyz', b'\xff\xfe stale', b'Z' * 19, b'\x00\x00tail']      # bytes after the terminator
NAMES = ['a', 'launchd', 'kernel_task', 'x' * 19, 'SpringBoard', 'é' * 9, 'p', 'mediaserverd', 'with space', '',
         # names are byte strings of the file, reported as they are: text that is EQUIVALENT under some normalisation (Unicode
         # composition, compatibility forms, case folding, stripping) is still another name
         'Cafe\u0301', 'Caf\u00e9', 'u\u0308ber', '\u2126hm', '\u03a9hm', '\ufb01le', 'file', 'stra\u00dfe', 'STRASSE', 'launchD', ' pad ', 'tab\tx',
         '\u0130x', 'i\u0307x']


def independent_decode(rec):
    ts, data, tid, dbg, cpu, unused = struct.unpack('<Q32sQIIQ', rec)
    return (ts, data, struct.unpack('<QQQQ', data), tid, dbg, dbg & 0xfffffffc, dbg & 3)


BIG_FILLS = [0]


class FileGen:
    def __init__(self, rnd):
        self.rnd = rnd
        self.ts = 1

    def tmap(self, maxn=6):
        rnd = self.rnd
        n = rnd.choice([0, 1, 2, 3, maxn, maxn, 40])
        return [{'tid': rnd.randrange(0, 5), 'pid': rnd.randrange(0, 5), 'name': rnd.choice(NAMES)} for _ in range(n)]

    def record(self, lead=None):
        """64 bytes; lead: None = random, 'nz' = first byte non-zero, 'z' = first k bytes zero but not all-zero."""
        rnd = self.rnd
        b = bytearray(rnd.getrandbits(8) for _ in range(64))
        self.ts += 1
        b[56:64] = struct.pack('<Q', self.ts)         # 'unused' word keeps records pairwise distinct... (not decoded)
        b[1:5] = struct.pack('<I', self.ts)            # ...and so do timestamp bytes 1..4
        if lead == 'magic':
            # the record BEGINS with bytes the reader looks for elsewhere in a file (version magics, section tags, the
            # stackshot marker - mined from the sources): inside the record area they are just the low bytes of a timestamp
            from . import mine
            m = rnd.choice(mine.infra()['bytes'] or [b'\x00\x02\xaa\x55'])
            b[0:len(m)] = m
        elif lead == 'nz':
            b[0] = rnd.randrange(1, 256)
        elif lead == 'z':
            k = rnd.choice([1, 1, 2, 8, 9, 40, 48])
            b[0:k] = bytes(k)
            if not any(b[:56]):
                b[50] = 1
        return bytes(b)

    def v2(self, lead='nz', nrec=None, pad=None):
        rnd = self.rnd
        n = rnd.choice([0, 1, 2, 5, 20]) if nrec is None else nrec
        recs = [self.record(lead if i == 0 else ('magic' if rnd.random() < 0.12 else None)) for i in range(n)]
        # incl. lengths around page / buffer sizes (4 KiB, 8 KiB, 16 KiB, 64 KiB)
        from . import mine
        pad = rnd.choice([0, 0, 1, 7, 63, 64, 200, 4000, 4095, 4096, 4097, 4160, 8192, 8193, 16384, 16448, 65536, 65537] +
                         [h + d for h in mine.size_hints(512) for d in (1, 64)]) if pad is None else pad
        if n >= 2 and (n + pad) % 3 == 0:
            recs[-1] = recs[-2]                 # equal neighbouring records
            if n >= 5:
                recs[2] = recs[1]
        return {'ver': 2, 'tmap': self.tmap(), 'recs': list(range(1, n + 1)), '_recs': recs, '_pad': pad}

    def block(self, kind, strings, minlogs=0):
        rnd = self.rnd
        if kind == 'codes':
            return {'tag': 'codes', 'txt': rnd.choice(['0x1 A\n', '0x40c0004 BSC_x\n', '', 'ff Z\n0x10 Y\n'])}
        if kind == 'kexts':
            return {'tag': 'kexts', 'bins': [rnd.randrange(1, 50) for _ in range(rnd.randrange(0, 3))]}
        if kind == 'dyld':
            return {'tag': 'dyld', 'bins': [rnd.randrange(1, 50) for _ in range(rnd.randrange(0, 3))],
                    'extra': rnd.randrange(1, 9)}
        if kind in ('procs', 'images'):
            return {'tag': kind, 'val': rnd.randrange(1, 99)}
        if kind == 'logs':
            evs = []
            for _ in range(rnd.randrange(minlogs, 4)):
                evs.append({'cm': rnd.randrange(0, len(strings)),
                            'p': rnd.choice([-1, rnd.randrange(0, len(strings))]),
                            'tid': rnd.choice([0, 1, 2, 5, 6]), 'pid': rnd.randrange(0, 6)})
            return {'tag': 'logs', 'evs': evs}
        if kind == 'other':
            return {'tag': 'other'}
        raise KeyError(kind)

    def v3(self, nrec=None, nchunks=None, nblocks=None, force_logs=False):
        rnd = self.rnd
        n = rnd.choice([0, 1, 2, 3, 5, 9]) if nrec is None else nrec
        k = rnd.choice([1, 1, 2, 3]) if nchunks is None else nchunks
        cuts = sorted(rnd.randrange(0, n + 1) for _ in range(k - 1))
        ids = list(range(1, n + 1))
        chunks = [ids[a:b] for a, b in zip([0] + cuts, cuts + [n])]
        recs = [self.record('magic' if (i and rnd.random() < 0.12) else None) for i in range(n)]
        strings = ['msg %d' % i for i in range(rnd.randrange(1, 5))] + ['procA', 'procB', '']
        rnd.shuffle(strings)
        nb = rnd.choice([0, 1, 2, 3, 4, 6]) if nblocks is None else nblocks
        kinds = [rnd.choice(['codes', 'kexts', 'dyld', 'procs', 'images', 'logs', 'other']) for _ in range(nb)]
        if force_logs and 'logs' not in kinds:
            kinds.insert(rnd.randrange(0, len(kinds) + 1), 'logs')
        blocks = [self.block(kd, strings, 2 if force_logs else 0) for kd in kinds]
        if any(b['tag'] == 'logs' for b in blocks) or rnd.random() < 0.2:
            blocks.insert(rnd.randrange(0, len(blocks) + 1), {'tag': 'strings', 'idx': strings})
        if n >= 2 and (n + k + nb) % 3 == 0:
            # EQUAL neighbouring records ("all record contents"): across every chunk boundary (also over an empty chunk) and
            # inside the first chunk.  Decided by the file's shape, not drawn from the random stream.
            for c in sorted(set(cuts) | {1}):
                if 0 < c < n:
                    recs[c] = recs[c - 1]
        return {'ver': 3, 'tmap': self.tmap(), 'chunks': chunks, 'blocks': blocks, '_recs': recs,
                '_fills': [self.fill(60, decoy=True, big=True), self.fill(20, big=True), self.fill(12, big=True), self.fill(9)]}

    def fill(self, maxlen, decoy=False, big=False):
        rnd = self.rnd
        parts = []
        if big and rnd.random() < 0.08:      # a marker that straddles an I/O buffer boundary (4 / 8 / 16 KiB)
            from . import mine
            hints = [h for h in mine.infra()['sizes'] if 512 <= h <= (1 << 21)]     # (also large ones: a filler is cheap to build)
            n = rnd.choice([4096, 8192, 16384, 65536, 65536, 131072] + hints + hints) - rnd.choice([rnd.randrange(0, 24), 1, 7, 9, 15])
            if n > 200000:
                BIG_FILLS[0] += 1
                if BIG_FILLS[0] > 60:             # ... but slow to scan byte by byte: a handful per run
                    n = 65536 - rnd.randrange(0, 24)
            target = n
        else:
            target = 0
        for _ in range(rnd.randrange(0, 4)):
            r = rnd.random()
            if r < 0.3:
                t = rnd.choice(E.ALL_TAGS)
                parts.append(t[:rnd.randrange(1, len(t))])          # proper prefix of a tag
            elif r < 0.4 and decoy:
                parts.append(E.TAG_THREADMAP)                        # "appears randomly in the stackshot"
            else:
                parts.append(bytes(rnd.getrandbits(8) for _ in range(rnd.randrange(0, maxlen))))
        b = b''.join(parts)
        for t in E.ALL_TAGS:
            if not (decoy and t == E.TAG_THREADMAP):
                while t in b:
                    b = b.replace(t, b'\x01' * len(t))
        if decoy and ((rnd.random() < 0.3) | bool(getattr(self, 'force_ghost', False))):
            # the stackshot blob may hold bytes that LOOK like a whole thread-map section followed by an events section
            # with a record (stale buffer contents): nothing of it is part of the dump
            ghost = bytearray(rnd.getrandbits(8) for _ in range(64))
            ghost[56:64] = struct.pack('<Q', 0x6706057)
            b += (E.TAG_THREADMAP + struct.pack('<Q', 28) + E.threadmap_entry(ctid(3), cpid(4), b'ghost') +
                  bytes(rnd.randrange(0, 9)) + E.TAG_EVENTS + struct.pack('<Q', 64) + bytes(8) + bytes(ghost) + bytes(8))
        if target > len(b):
            # the WHOLE filler has the chosen length (what follows it starts that far from where the reader began to search)
            b = bytes((i * 31 + 7) % 251 + 1 for i in range(target - len(b))) + b
        return b


TAGS = {'codes': E.TAG_CODES, 'kexts': E.TAG_KEXTS, 'dyld': E.TAG_DYLD, 'procs': E.TAG_PROCESSES,
        'images': E.TAG_IMAGES, 'logs': E.TAG_LOG_EVENTS, 'strings': E.TAG_LOG_STRINGS,
        'other': b'\x77\x80\x00\x00\x00\x00\x00\x00'}


def raw_log(l, k):
    d = {'cm': l['cm'], 't': 'logEvent', 's': 100 + k, 'tid': ctid(l['tid']), 'ns': 5, 'mct': 6,
         'b': b'B' * 16, 'piu': b'P' * 16, 'ud': {'sec': 1600000000 + k, 'usec': 7}, 'utz': {'mw': 0, 'dt': 0},
         'pid': cpid(l['pid'])}
    if l['p'] >= 0:
        d['p'] = l['p']
    return d


def encode_file(f):
    tm = [(ctid(e['tid']), cpid(e['pid']), e['name'].encode(), JUNK[(e['tid'] * 7 + e['pid']) % len(JUNK)]) for e in f['tmap']]
    if f['ver'] == 2:
        return E.encode_v2(tm, f['_pad'], f['_recs'])
    blocks = []
    k = 0
    for b in f['blocks']:
        t = b['tag']
        if t == 'codes':
            payload = b['txt'].encode()
        elif t == 'kexts':
            payload = plistlib.dumps({'Binaries': [{'id': x} for x in b['bins']]}, fmt=plistlib.FMT_BINARY)
        elif t == 'dyld':
            payload = plistlib.dumps({'Binaries': [{'id': x} for x in b['bins']], 'extra': b['extra']},
                                     fmt=plistlib.FMT_BINARY)
        elif t in ('procs', 'images'):
            payload = plistlib.dumps({'val': b['val']}, fmt=plistlib.FMT_BINARY)
        elif t == 'logs':
            evs = []
            for l in b['evs']:
                k += 1
                evs.append(raw_log(l, k))
            payload = plistlib.dumps({'Events': evs}, fmt=plistlib.FMT_BINARY)
        elif t == 'strings':
            payload = plistlib.dumps({'StringIndex': {s: i for i, s in enumerate(b['idx'])}},
                                     fmt=plistlib.FMT_BINARY)
        else:
            payload = b'ignored payload'
        blocks.append((TAGS[t], payload))
    chunks = [[f['_recs'][i - 1] for i in ch] for ch in f['chunks']]
    fl = f['_fills']
    # the header is part of "every version-3 dump": its cpu-info plist has any length (so the 8-byte alignment pad after it
    # takes every value 0..7) and its scalar fields any value.  Derived from the file's shape, NOT drawn from the generator's
    # random stream, so that the files of a seed stay the files they were.
    hv = len(f['_recs']) * 5 + len(f['blocks']) * 3 + len(f['tmap']) + sum(len(c) for c in f['chunks'][:1])
    cpu = {'cpus': 2 + hv % 3, 'pad': 'x' * (hv % 9)} if hv % 4 else None
    hdr = {'numer': 1 + hv % 200, 'denom': 1 + hv % 7, 'timestamp': hv * 7919, 'secs': 1600000000 + hv, 'usecs': hv % 1000,
           'mw': hv % 720, 'dst': hv % 2, 'flags': hv % 4, 'length': hv % 64} if hv % 4 else None
    return E.encode_v3(tm, chunks, blocks, fill1=fl[0], fill2=fl[1], fill3=fl[2], more_fill=fl[3], cpu_info=cpu,
                       header_fields=hdr)


def reader_of(rnd, blob):
    """the dump as a caller may hand it over: in memory, behind a buffered reader (small / large buffer), a file on disk"""
    r = rnd.random()
    if r < 0.55:
        return io.BytesIO(blob)
    if r < 0.8:
        return io.BufferedReader(io.BytesIO(blob), buffer_size=rnd.choice([16, 64, 4096, 65536]))
    import tempfile
    f = tempfile.TemporaryFile()
    f.write(blob)
    f.seek(0)
    return f


def public(f):
    return {k: v for k, v in f.items() if not k.startswith('_')}


def project_item(item, index):
    """yielded item -> abstract; index: decoded-tuple -> record id"""
    from pykdebugparser.os_log_event import OsLogEvent
    if isinstance(item, OsLogEvent):
        return {'k': 'log', 'msg': item.composed_message, 'proc': item.process,
                'tid': atid(item.thread_identifier), 'pid': apid(item.process_identifier)}
    ids = index.get(tuple(item), -1)
    if isinstance(ids, list):
        # equal records (the kernel may well log the same 64 bytes twice): the k-th yield of that content is the k-th record
        # of that content in the file; one yield too many of it is a record the file does not have
        return {'k': 'ev', 'id': ids.pop(0) if ids else -1}
    return {'k': 'ev', 'id': ids}


def make_index(recs):
    """decoded content -> ids (1-based positions) of the records with that content, ascending; consumed by project_item"""
    index = {}
    for i, r in enumerate(recs):
        index.setdefault(independent_decode(r), []).append(i + 1)
    return index


def meta_of(kp):
    def ids(d):
        return [b.get('id', -2) for b in d.get('Binaries', [])] if isinstance(d, dict) else [-2]
    return {'codes': kp.trace_codes,
            'kexts': ids(kp.kernel_extensions),
            'dyld': {'bins': ids(kp.dyld_modules), 'extra': kp.dyld_modules.get('extra', 0) if kp.dyld_modules else 0},
            'procs': kp.processes.get('val', 0) if kp.processes else 0,
            'images': kp.images.get('val', 0) if kp.images else 0}


def tables(tp, pn):
    return ([[atid(k), apid(v)] for k, v in sorted(tp.items())], [[apid(k), v] for k, v in sorted(pn.items())])


def parse_history(files, via='kdbuf', rnd=None):
    """Parse the files in order on ONE pair of tables.  via: 'kdbuf' (one KdBufParser object), 'fresh' (new
    KdBufParser per file on shared dicts - what PyKdebugParser does), 'api' (PyKdebugParser.kevents + os_log_events)."""
    from pykdebugparser.kd_buf_parser import KdBufParser
    from pykdebugparser.pykdebugparser import PyKdebugParser
    tp, pn = {}, {}
    kp = KdBufParser(tp, pn) if via == 'kdbuf' else None
    api = PyKdebugParser() if via == 'api' else None
    if api:
        tp, pn = api.threads_pids, api.pids_names
    out = []
    pre = None
    if via == 'preopen':      # every parse is OPENED first (generators created), then they are read one after the other
        kp = KdBufParser(tp, pn)
        pre = [kp.parse(io.BytesIO(encode_file(f)[0])) for f in files]
    import random as _random
    rnd = rnd or _random.Random(len(files))
    _bio = io.BytesIO

    def BytesIO_(b):
        return reader_of(rnd, b)
    for fi, f in enumerate(files):
        blob, layout = encode_file(f)
        index = make_index(f['_recs'])
        p = {'file': public(f)}
        try:
            if via == 'api':
                items = list(api.kevents(BytesIO_(blob))) + list(api.os_log_events(BytesIO_(blob)))
                k2 = KdBufParser({}, {})
                list(k2.parse(BytesIO_(blob)))
                p['meta'] = meta_of(k2)
            elif via == 'preopen':
                items = list(pre[fi])
                p['meta'] = meta_of(kp)
            else:
                if via == 'fresh':
                    kp = KdBufParser(tp, pn)
                items = list(kp.parse(BytesIO_(blob)))
                p['meta'] = meta_of(kp)
            p['yields'] = [project_item(it, index) for it in items]
        except Exception as ex:
            p['err'] = type(ex).__name__
            p['yields'] = []
            p['meta'] = {'codes': '', 'kexts': [], 'dyld': {'bins': [], 'extra': 0}, 'procs': 0, 'images': 0}
        p['tpid'], p['pname'] = tables(tp, pn)
        out.append(p)
    return out
