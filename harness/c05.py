"""C05 - per-thread results are invariant under interleaving.
 (1) TLC Interleave_MC: all pairs of per-thread programs over a template alphabet x ALL interleavings;
     invariant log[t] = Solo(prefix of t); negative control "sharedslot" (the pinned tree's design).
 (2) spec -> code: every complete schedule exported by Interleave_MBT is replayed on the real TracesParser and the
     per-thread masked logs are compared with the spec's.
 (3) code: seeded random per-thread programs over all decoder families, several interleavings each: per-thread
     traces (order, windows, rendered text) and the assignments caused by the thread's own records must equal the
     thread's SOLO run of the code; every interleaved run is also validated against Pairing!Step (full mode)."""
import json
import random

from . import gen
from .pairing import World, run_stream, validate_streams, describe
from .tlc import run_tlc, simulate_behaviours
from .c04 import replay_stream

MC_CFG = '''SPECIFICATION Spec
CONSTANTS Threads = {%s}
 MaxProg = %d
 Alphabet = {%s}
 Variant = "%s"
INVARIANT InterleavingInvariance
CHECK_DEADLOCK FALSE
'''
MBT_CFG = '''SPECIFICATION MSpec
CONSTANTS Threads = {%s}
 MaxProg = %d
 Alphabet = {%s}
 Variant = "ok"
INVARIANT Export
CHECK_DEADLOCK FALSE
'''
A7 = '"NTD", "NTS", "EXD", "EXS", "S1", "E1", "LK"'
A10 = A7 + ', "TN", "TERM", "TPID", "THD", "NTDo", "KN"'


def mk(world, tpl, t, known=None):
    """template of Interleave_MC!Mk -> concrete recipe (same abstract arguments)."""
    w = world
    if tpl == 'NTD':
        return w.ntd(t, 10 + t, 100 + t)
    if tpl == 'NTDo':
        ev = w.ntd(t, 2 if t == 1 else 1, 110 + t)
        ev.words = (ev.words[0], ev.words[1], w.rnd.choice([1, 1, 0, 7]), ev.words[3])     # is_exec_copy mostly set
        return ev
    if tpl == 'NTS':
        return w.nts(t, {1: 'one', 2: 'two'}.get(t, 'three'))
    if tpl == 'EXD':
        return w.exd(t, 200 + t)
    if tpl == 'EXS':
        return w.exs(t, {1: 'x1', 2: 'x2'}.get(t, 'x3'))
    if tpl in ('S0', 'E0'):
        return w.sys('BSC_getpid', 1 if tpl == 'S0' else 2, t)
    if tpl in ('S1', 'E1'):
        return w.sys('BSC_stat64', 1 if tpl == 'S1' else 2, t)
    if tpl == 'LK':
        return w.chunk('VFS_LOOKUP', 'LKP', 3, t, (bytes([t] * 8) + bytes([47, 96 + t])).ljust(32, b'\x00'))
    if tpl == 'TN':
        return w.chunk('TRACE_STRING_THREADNAME', 'TNAME', 3, t, bytes([84, 48 + t]).ljust(32, b'\x00'))
    if tpl == 'TERM':
        return w.term(t, 2 if t == 1 else 1)
    if tpl == 'TPID':
        return w.tpid(t, 300 + t)
    if tpl == 'THD':
        return w.thd(t, 400 + t, t)
    if tpl == 'KN':
        return w.known(0, t, name=known)
    raise KeyError(tpl)


def masked(step, stream_pos):
    """code step -> Interleave_MC!Mask shape; windows as 8*j+t (thread-local)."""
    if not step.get('emit'):
        return {'emit': False, 'win': [], 'f': {'c': '-'}, 'eff': step.get('eff', [])}
    f = dict(step['f'])
    if f['c'] == 'TERM':
        f = {'c': 'TERM', 'ttid': f['ttid']}
    elif f['c'] == 'USESTR':
        f = {'c': 'USESTR'}
    return {'emit': True, 'win': [stream_pos.get(k, -1) for k in step['win']], 'f': f, 'eff': step['eff']}


def replay_schedule(ctx, b, known=None):
    w = World(random.Random(1), big_tids=True)
    # abstract tids used as arguments (ntid = 10 + t, ttid) must map consistently
    stream, pos, owner = [], {}, []
    pc = {}
    for t in b['sched']:
        j = pc.get(t, 0) + 1
        pc[t] = j
        stream.append(mk(w, b['prog'][t - 1][j - 1], t, known))
        pos[len(stream)] = 8 * j + t
        owner.append(t)
    ex = run_stream(w, stream)
    logs = {}
    for k, st in enumerate(ex.steps):
        if 'err' in st:
            ctx.violation('C05/replay/raised', 'schedule %s raised %s' % (b, ex.error), {'kind': 'schedule', 'b': b})
            return False
        logs.setdefault(owner[k], []).append(masked(st, pos))
    for t, exp in enumerate(b['log'], 1):
        got = logs.get(t, [])
        if got != exp:
            # RELATIONAL: the code differs from Pairing's solo result.  C05 is violated when the thread's result depends on
            # the interleaving - when the code, fed this thread's program ALONE, gives something else than it gave here.
            # (If it gives the same, the deviation from Pairing is C04's / C08's business and their checks report it.)
            solo_stream = [mk(w, tpl, t, known) for tpl in b['prog'][t - 1][:pc.get(t, 0)]]
            sx = run_stream(w, solo_stream)
            spos = {j: 8 * j + t for j in range(1, len(solo_stream) + 1)}
            if not any('err' in st for st in sx.steps) and [masked(st, spos) for st in sx.steps] == got:
                ctx.extra['deviations_left_to_other_checks'] = ctx.extra.get('deviations_left_to_other_checks', 0) + 1
                continue
            i = next((i for i in range(max(len(got), len(exp))) if i >= len(got) or i >= len(exp) or got[i] != exp[i]), 0)
            ctx.violation('C05/replay/thread-log',
                          'programs %s schedule %s: thread %d step %d: code %s, spec %s'
                          % (b['prog'], b['sched'], t, i + 1, got[i] if i < len(got) else None, exp[i] if i < len(exp) else None),
                          {'kind': 'schedule', 'b': b, 'known': known, 'stream': describe(w, stream)})
            return False
    return True


def thread_view(world, stream, ex, t):
    """what thread t got: per own event (local index): emitted?, local window, text (masked), own assignments."""
    local = {}
    j = 0
    for k, a in enumerate(stream, 1):
        if a.abs['tid'] == t:
            j += 1
            local[k] = j
    texts = dict(ex.texts)
    view = []
    for k, a in enumerate(stream[:len(ex.steps)], 1):
        if a.abs['tid'] != t:
            continue
        st = ex.steps[k - 1]
        if 'err' in st:
            view.append(('ERR', st['err']))
            break
        if not st['emit']:
            view.append((local[k], None, None, json.dumps(st['eff'], sort_keys=True)))
            continue
        cls = st['f']['c']
        txt = texts.get(k)
        if cls in ('TERM', 'USESTR'):
            txt = cls                     # reads tables written by other threads, by design
        view.append((local[k], tuple(local.get(x, ('other', x)) for x in st['win']), txt,
                     json.dumps(st['eff'], sort_keys=True)))
    return view


def run(ctx):
    rnd = random.Random(ctx.seed)
    if ctx.quick:
        ctx.expect_ok(run_tlc('Interleave_MC', MC_CFG % ('1, 2', 3, A7, 'ok'), ctx.workdir, name='il_2x3', timeout=1200))
        # records of one thread that NAME the other thread (terminate, sampler thread-info) between its pairs
        ctx.expect_ok(run_tlc('Interleave_MC', MC_CFG % ('1, 2', 2, A10, 'ok'), ctx.workdir, name='il_2x2_a10', timeout=1200))
    else:
        ctx.expect_ok(run_tlc('Interleave_MC', MC_CFG % ('1, 2', 3, A10, 'ok'), ctx.workdir, name='il_2x3_a10',
                              timeout=7200))
        ctx.expect_ok(run_tlc('Interleave_MC', MC_CFG % ('1, 2, 3', 2, A7, 'ok'), ctx.workdir, name='il_3x2',
                              timeout=7200))
    ctx.expect_violation(run_tlc('Interleave_MC', MC_CFG % ('1, 2', 2, A7, 'sharedslot'), ctx.workdir,
                                 name='neg_sharedslot', timeout=600, allow_error=True),
                         'one parser-wide last new-thread/exec slot')
    # ---- spec -> code
    r = run_tlc('Interleave_MBT', MBT_CFG % ('1, 2', 2, A10), ctx.workdir, name='il_mbt', workers=8, timeout=3000)
    ctx.add_tlc(r, counts=False)
    behs = [json.loads(t[1]) for t in r.tuples('BEH')]
    if ctx.quick:        # every schedule of total length <= 3, every 4th of the longer ones
        behs = [b for i, b in enumerate(behs) if len(b['sched']) <= 3 or i % 8 == 0]
    tuples, info = simulate_behaviours('Interleave_MBT', MBT_CFG % ('1, 2, 3', 2, A7), ctx.workdir,
                                       2000 if ctx.quick else 40000, name='il_sim', depth=14, seed=ctx.seed + 5)
    ctx.tlc_runs.append(info)
    behs += [json.loads(t[1]) for t in tuples]
    if len(behs) < 1000:
        raise RuntimeError('schedule export too small: %d' % len(behs))
    ok = sum(1 for b in behs if replay_schedule(ctx, b))
    # schedules holding a named-but-undecoded record: once more with every such code of the trace class
    kn = World(random.Random(1)).trace_known
    extra = 0
    for i, b in enumerate(behs):
        if any('KN' in p for p in b['prog']) and (not ctx.quick or i % 8 == 0):
            for name in kn:
                extra += 1
                replay_schedule(ctx, b, known=name)
    ctx.extra['undecoded_trace_class_reruns'] = extra
    ctx.traces += len(behs)
    ctx.extra['spec_to_code'] = {'schedules_replayed': len(behs), 'agreeing': ok}
    ctx.sample({'schedule': behs[len(behs) // 3]})
    # ---- code: solo vs interleaved, and interleaved vs spec
    cases = []
    solo_cases, baseline = [], {}
    nsets = 150 if ctx.quick else 3000
    nil = 4 if ctx.quick else 8
    solo_cmp = 0
    for i in range(nsets):
        w = World(rnd, ts='any')
        nt = rnd.choice([2, 2, 3])
        g = gen.ProgGen(w, rnd, ntids=nt, noise=0.1)
        w.feed_pieces = rnd.random() < 0.3      # handed to the parser in consecutive pieces through feed_generator
        progs = [g.program(t, rnd.randrange(1, 4)) for t in range(1, nt + 1)]
        solos = {}
        for t, p in enumerate(progs, 1):
            ex = run_stream(w, p)
            solos[t] = thread_view(w, p, ex, t)
        for t, p in enumerate(progs, 1):
            solo_cases.append(('p%d_s%d' % (i, t), w, p))
        for j in range(nil):
            stream = gen.interleave(rnd, progs, burst=rnd.choice([1, 2, 4]))
            oid = 'p%d_i%d' % (i, j)
            cases.append((oid, w, stream))
            baseline[oid] = ['p%d_s%d' % (i, t) for t in range(1, nt + 1)]
            ex = run_stream(w, stream)
            for t in range(1, nt + 1):
                v = thread_view(w, stream, ex, t)
                solo_cmp += 1
                if v != solos[t]:
                    d = next((x for x in range(max(len(v), len(solos[t])))
                              if x >= len(v) or x >= len(solos[t]) or v[x] != solos[t][x]), 0)
                    a = v[d] if d < len(v) else None
                    b = solos[t][d] if d < len(solos[t]) else None
                    cls = next((e.abs['cls'] for e in progs[t - 1][d:d + 1]), '?')
                    ctx.violation('C05/solo-vs-interleaved@%s' % cls,
                                  'thread %d differs at its event %d: interleaved %s, solo %s' % (t, d + 1, a, b),
                                  {'kind': 'code->spec', 'stream': describe(w, stream), 'thread': t})
    # SCALE: many threads at once (a per-thread table that is bounded, evicts or hashes coarsely shows only then): every
    # thread records new-thread / exec data and string records twice, all threads merged record by record
    nbig = 0
    for i in range(3 if ctx.quick else 40):
        w = World(rnd)
        nt = rnd.choice([70, 100, 140])
        progs = []
        for t in range(1, nt + 1):
            p = [w.ntd(t, 1000 + t, 2000 + t), w.nts(t, 'n%d' % t), w.exd(t, 3000 + t), w.exs(t, 'x%d' % t),
                 w.ntd(t, 1000 + t, 4000 + t), w.nts(t, 'm%d' % t)]
            progs.append(p[:rnd.choice([2, 4, 6, 6])])
        solos = {t: thread_view(w, p, run_stream(w, p), t) for t, p in enumerate(progs, 1)}
        for j in range(2):
            stream = gen.interleave(rnd, progs, burst=rnd.choice([1, 1, 2]))
            ex = run_stream(w, stream)
            nbig += 1
            for t in range(1, nt + 1):
                v = thread_view(w, stream, ex, t)
                if v != solos[t]:
                    ctx.violation('C05/solo-vs-interleaved@many-threads',
                                  '%d threads merged: thread %d differs from its solo run: interleaved %s, solo %s'
                                  % (nt, t, v, solos[t]), {'kind': 'code->spec', 'stream': describe(w, stream), 'thread': t})
                    break
            if j == 0 and i < 2:
                cases.append(('big%d' % i, w, stream))
    ctx.extra['many_thread_streams'] = nbig
    # ... and as many threads as a size-like constant of the parser's sources suggests (a bound on a table of pending records
    # would sit there), each with a new-thread data / string pair and an exec pair: whatever the merge, every pair learns its name
    from . import mine
    from .encode import make_event
    from pykdebugparser.traces_parser import TracesParser
    from .pairing import default_codes
    codes_ = default_codes()
    n2i = {n: i for i, n in codes_.items() if i & 3 == 0}
    nts_big = sorted({h + d for h in mine.size_hints(64, hi=70000 if ctx.quick else 300000) for d in (1, 9)} | ({300} if ctx.quick else {300, 5000}))
    for nt in nts_big:
        evs = {}
        for t in range(1, nt + 1):
            tid = 0x10000000 + t
            nm = ('n%d' % t).encode().ljust(32, b'\x00')
            xm = ('x%d' % t).encode().ljust(32, b'\x00')
            evs[t] = [make_event(5, n2i['TRACE_DATA_NEWTHREAD'], tid, (0x20000000 + t, t, 0, 0)),
                      make_event(5, n2i['TRACE_STRING_NEWTHREAD'] | 3, tid, data=nm),
                      make_event(5, n2i['TRACE_DATA_EXEC'], tid, (nt + t, 0, 0, 0)),
                      make_event(5, n2i['TRACE_STRING_EXEC'] | 3, tid, data=xm),
                      # ... and an operation of its own: START, END (a bounded table of OPEN operations would sit there too)
                      make_event(5, n2i['BSC_getpid'] | 1, tid, (0, 0, 0, 0)),
                      make_event(5, n2i['BSC_getpid'] | 2, tid, (0, t & 0xffff, 0, 0))]
        order = list(range(1, nt + 1))
        merges = {'one thread after the other': [e for t in order for e in evs[t]],
                  'record by record': [evs[t][j] for j in range(6) for t in order],
                  'first thread last': [evs[t][j] for j in (0, 2, 4) for t in order] + [evs[t][j] for j in (1, 3, 5) for t in reversed(order)],
                  'first thread spans the others': evs[1][:5] + [e for t in order[1:] for e in evs[t]] + evs[1][5:]}
        # (relational: what thread 1 gets ALONE is the reference)
        ps_ = TracesParser(codes_, {}, {})
        try:
            solo_tr = [r_ for r_ in (ps_.feed(e) for e in evs[1]) if r_ is not None and r_.ktraces[0].eventid == n2i['BSC_getpid']]
        except Exception:
            solo_tr = []
        solo_ok = len(solo_tr) == 1 and len(solo_tr[0].ktraces) == 2
        for how, stream in merges.items():
            p_ = TracesParser(codes_, {}, {})
            done = set()
            try:
                for e in stream:
                    r_ = p_.feed(e)
                    if r_ is not None and e.eventid == n2i['BSC_getpid'] and len(r_.ktraces) == 2 and r_.ktraces[0].tid == r_.ktraces[1].tid == e.tid:
                        done.add(e.tid)
            except Exception as ex:
                ctx.violation('C05/many-threads-raised', '%d threads merged %s: %r' % (nt, how, ex), {'kind': 'schedule', 'b': {}})
                continue
            bad = [t for t in order if p_.pids_names.get(t) != 'n%d' % t or p_.pids_names.get(nt + t) != 'x%d' % t
                   or p_.threads_pids.get(0x20000000 + t) != t]
            nbig += 1
            lost = [t for t in order if 0x10000000 + t not in done]
            if lost and solo_ok:
                # alone, every thread's START / END gives its trace (C04); here it depends on how many other threads came between
                ctx.violation('C05/many-threads-operation', '%d threads merged %s: %d threads did not get the trace of their own START / END (first: thread %d)'
                              % (nt, how, len(lost), lost[0]), {'kind': 'schedule', 'b': {}})
            if bad:
                ctx.violation('C05/many-threads-table', '%d threads merged %s: %d threads did not learn their process name / pid (first: thread %d)'
                              % (nt, how, len(bad), bad[0]), {'kind': 'schedule', 'b': {}})
    ctx.extra['many_thread_counts'] = nts_big
    # the interleavings of one program set (same world) also run on separate parser objects fed alternately
    # (relational: a deviation from Pairing is reported only when the programs of that set, each run ALONE, do not deviate)
    for oid, w_, st_ in cases:
        if oid.startswith('big'):
            baseline[oid] = []
    validate_streams(ctx, solo_cases, 'full', 'c05solo', report=False)        # each program alone, one parser object each
    validate_streams(ctx, cases, 'full', 'c05val', alternate_rnd=rnd, baseline=baseline, baseline_rejected=ctx.last_rejected)
    ctx.extra['code'] = {'program_sets': nsets, 'interleavings_each': nil, 'solo_comparisons': solo_cmp}
    ctx.assumptions += ['thread-terminate pid/name and dyld string lookups read tables written by other threads by '
                        'design: masked', 'per-thread assignments compared as the ordered list of table writes made '
                        'while feeding that thread\'s own events']


def replay(ctx, path):
    rp = json.load(open(path))['replay']
    print(json.dumps(rp, indent=1)[:3000])
    if rp.get('kind') == 'schedule':
        return 0 if replay_schedule(ctx, rp['b'], rp.get('known')) else 1
    return replay_stream(ctx, rp)
