"""C09 - syscall / trap arguments are rendered from the matching START argument, in order.
 (1) TLC Render_MC: soundness of the differential labelling on an abstract renderer over EVERY signature of
     arity <= 4 (cells: argument j, path i, symbol of argument j, constant): the verdict on inferred labels is "ok"
     exactly when each numeric / symbolic cell at position k renders argument k.
 (2) code -> spec: every BSD syscall and Mach trap decoder rendered as name(p0, ...) is probed with in-domain,
     pairwise distinct 64-bit words (boundary values included), each START word, END word and lookup varied one
     at a time; the labels are validated by Render!PositionVerdict in TLC."""
import json
import random

from . import mine
from .pairing import AUDIT
from .render import Prober, label
from .tlc import run_tlc, validate_observations

MC_CFG = '''SPECIFICATION Spec
CONSTANTS Variant = "%s"
 MaxErr = 120
 Arity = %d
INVARIANT ResultRule
INVARIANT LabellingSound
CHECK_DEADLOCK FALSE
'''
BOUNDARY = [0, 1, 2, (1 << 31) - 1, 1 << 31, (1 << 32) - 1, (1 << 32) - 2, (1 << 32) - 100, 1 << 32, (1 << 63) - 1, 1 << 63,
            (1 << 64) - 1, (1 << 64) - 2, (1 << 64) - 100]      # incl. -1 / -2 (AT_FDCWD) / -100 as 32 and 64 bit


def decoders():
    return sorted(n for n, a in AUDIT.items() if n.startswith(('BSC_', 'MSC_')) and a.get('cls'))


def run(ctx):
    rnd = random.Random(ctx.seed)
    ctx.expect_ok(run_tlc('Render_MC', MC_CFG % ('ok', 3 if ctx.quick else 4), ctx.workdir, name='render', timeout=3600))
    pr = Prober(rnd, reraise=False)
    obs, texts = [], {}
    nprobe = 6 if ctx.quick else 16
    shaped = 0
    for name in decoders():
        for k in range(nprobe):
            S = pr.distinct_words(name, 'start')
            E = [0] + pr.distinct_words(name, 'end')[1:]
            if k >= 1:                       # boundary values where the domain is free (one word at a time from k = 2 on)
                for j in range(4):
                    if AUDIT[name]['dom'][j] is None and (k == 1 or j == (k - 2) % 4):
                        S[j] = rnd.choice(BOUNDARY)
            npaths = [2, 0, 1, 2, 6][k % 5]
            paths = [b'/path%d_%d' % (k, i) for i in range(npaths)]
            o = label(pr, name, S, E, paths, nalt=2 if ctx.quick else 3)
            if not o['shaped']:
                continue
            shaped += 1
            o['id'] = '%s#%d' % (name, k)
            o['kind'] = 'pos'
            texts[o['id']] = (o.pop('text'), S, E)
            obs.append(o)
    # constants the decoder's own code mentions (mined from the working tree) planted into the START / END words:
    # alone, as tuples, in pairs - values random and boundary words do not reach
    planted = 0
    for name in decoders():
        ok = mine.audit_allowed(AUDIT[name], skip=(4,))
        base = lambda: pr.distinct_words(name, 'start') + [0] + pr.distinct_words(name, 'end')[1:]      # noqa
        for vec, pl in mine.plant_vectors(name, base, ok, rnd, budget=40 if ctx.quick else 300):
            S, E = list(vec[:4]), list(vec[4:])
            o = label(pr, name, S, E, [b'/pp0', b'/pp1'], nalt=1 if ctx.quick else 2)
            if not o['shaped']:
                continue
            planted += 1
            o['id'] = '%s#p%d' % (name, planted)
            o['kind'] = 'pos'
            texts[o['id']] = (o.pop('text'), S, E)
            obs.append(o)
    ctx.extra['planted_probes'] = planted
    # records the decoder's code picks BY NAME (names of the code table mentioned in its source) nested in the window, their
    # words COPIED from the call's own words in every order: the call part is made of the START arguments and the lookups only
    import itertools
    nnested = 0
    for name in decoders():
        for other in mine.mined(name)['names']:
            if other not in pr.w.name_ids:
                continue
            S = pr.distinct_words(name, 'start')
            E = [0] + pr.distinct_words(name, 'end')[1:]
            base = pr.render(name, S, E, [b'/n0'])
            pool = list(S) + list(E[1:])
            perms = list(itertools.permutations(S, 4)) + [tuple(rnd.sample(pool, 4)) for _ in range(12)]
            for words in perms:
                for q in (0, 3):
                    ev = pr.w._mk(other, 'KNOWN' if other not in AUDIT else AUDIT[other].get('cls') or 'SYS0', q, 1, {'x': 0}, words=tuple(words))
                    t2 = pr.render(name, S, E, [b'/n0'], nested=[ev])
                    nnested += 1
                    if base is not None and t2 != base:
                        ctx.violation('C09/nested-record-changes-call@%s' % name,
                                      '%s reads %r; with a %s record carrying %s nested in its window it reads %r'
                                      % (name, base, other, [hex(x) for x in words], t2),
                                      {'kind': 'render', 'name': name, 'start': [hex(x) for x in S], 'end': [hex(x) for x in E]})
                        break
                else:
                    continue
                break
    ctx.extra['nested_named_records'] = nnested
    # CROSSING operations of one thread (START A, START B, END A, END B - a call parked in the kernel while another one of the
    # thread completes; a lost END): B is still rendered from B's START record - never from a word of A's records
    ncross = 0
    names_c = decoders()
    for name in names_c:
        for rep in range(1 if ctx.quick else 4):
            other = names_c[rnd.randrange(len(names_c))]
            if other == name:
                continue
            S = pr.distinct_words(name, 'start')
            E = [0] + pr.distinct_words(name, 'end')[1:]
            base = pr.render(name, S, E, [])
            t2 = pr.render(name, S, E, [], cross=(other, pr.distinct_words(other, 'start'), [0] + pr.distinct_words(other, 'end')[1:]))
            ncross += 1
            if base is not None and t2 != base:
                ctx.violation('C09/crossing-operation-changes-call@%s' % name,
                              '%s reads %r; started inside a %s call of the same thread that ends before it, it reads %r' % (name, base, other, t2),
                              {'kind': 'render', 'name': name, 'start': [hex(x) for x in S], 'end': [hex(x) for x in E]})
    ctx.extra['crossing_operations'] = ncross
    # SCALE: an operation whose START and END are thousands of records apart (a parked thread, nested interrupts): the
    # call is still rendered from ITS START record
    from .pairing import new_parser
    nlong = 0
    names_ = decoders()
    for i in range(4 + 2 * 5 * len(mine.size_hints(256, hi=70000)) if ctx.quick else 40 + 2 * 5 * len(mine.size_hints(256, hi=70000))):
        name = names_[rnd.randrange(len(names_))]
        S = pr.distinct_words(name, 'start')
        E = [0] + pr.distinct_words(name, 'end')[1:]
        base = pr.render(name, S, E, [])
        hints = [h + d for h in mine.size_hints(256, hi=70000) for d in (-2, -1, 0, 1, 2)]
        n = hints[i % len(hints)] if (hints and i % 2) else rnd.choice([4094, 4095, 4096, 4200, 8200, 16500, 65600][:4 if ctx.quick else 7])
        w = pr.w
        inner = []
        for k in range(n):
            r = k % 3
            inner.append(w.known(rnd.choice([0, 3]), 1) if r == 0 else w.sys('BSC_getpid', 0, 1) if r == 1 else w.unknown(0, 1))
        stream = [w.sys(name, 1, 1, tuple(S))] + inner + [w.sys(name, 2, 1, tuple(E))]
        p_ = new_parser(w)
        out = None
        try:
            for k, a in enumerate(stream, 1):
                r = p_.feed(w.concrete(a, k))
                if k == len(stream):
                    out = None if r is None else str(r)
        except Exception as ex:
            out = 'RAISED ' + type(ex).__name__
        nlong += 1
        if out != base:
            ctx.violation('C09/long-window@%s' % name, '%s with %d records of the thread between START and END renders %r, '
                          'without them %r' % (name, n, out, base),
                          {'kind': 'render', 'name': name, 'start': [hex(x) for x in S], 'end': [hex(x) for x in E], 'nested': n})
    ctx.extra['long_windows'] = nlong
    # RESTARTED operation: START X(A) whose END never reached the dump (record dropped, thread interrupted in the call), later on
    # the same thread START X(S) .. END X: the call is rendered from the START its END matches - the most recent one - never
    # from a word of the older START
    nrestart = 0
    for name in names_c:
        S = pr.distinct_words(name, 'start')
        E = [0] + pr.distinct_words(name, 'end')[1:]
        base = pr.render(name, S, E, [])
        if base is None:
            continue
        A = [(x * 3 + 0x1111) & 0xffffffff for x in S]
        w = pr.w
        stream = [w.sys(name, 1, 1, tuple(A)), w.sys('BSC_getpid', 0, 2), w.sys(name, 1, 1, tuple(S))] + \
                 ([w.sys('BSC_getpid', 0, 1)] if nrestart % 2 else []) + [w.sys(name, 2, 1, tuple(E))]
        p_ = new_parser(w)
        out = None
        try:
            for k, a in enumerate(stream, 1):
                r = p_.feed(w.concrete(a, k))
                if k == len(stream):
                    out = None if r is None else str(r)
        except Exception as ex:
            out = 'RAISED ' + type(ex).__name__
        nrestart += 1
        if out != base:
            ctx.violation('C09/restarted-operation-rendered-from-older-start@%s' % name,
                          '%s renders %r; when an earlier START of the same call on the thread (arguments %s) never got its END, '
                          'it renders %r' % (name, base, [hex(x) for x in A], out),
                          {'kind': 'render', 'name': name, 'start': [hex(x) for x in S], 'end': [hex(x) for x in E],
                           'older_start': [hex(x) for x in A]})
    ctx.extra['restarted_operations'] = nrestart
    nv, rej, _ = validate_observations('Render_Val', obs, ctx.workdir, name='c09val', timeout=3000)
    ctx.traces += nv
    by = {o['id']: o for o in obs}
    for oid, clause in rej:
        name = oid.split('#')[0]
        o = by[oid]
        if o.get('history_dep'):
            texts[oid] = (texts[oid][0] + '  BUT after %s: %s' % (o['history'], o['text_after_history']),) + texts[oid][1:]
        bad = next((p for p in o['params'] if p['de'] or (p['kind'] == 'num' and (p['eq'] and p['pos'] not in p['eq'] or set(p['ds']) - {p['pos']}))), None)
        ctx.violation('C09/%s@%s' % (clause, name), '%s renders %r from START %s: %s (parameter %s)'
                      % (name, texts[oid][0], [hex(x) for x in texts[oid][1]], clause, bad),
                      {'kind': 'render', 'name': name, 'start': [hex(x) for x in texts[oid][1]],
                       'end': [hex(x) for x in texts[oid][2]], 'labels': o['params']})
    if len(obs) > 5:
        ctx.sample({'text': texts[obs[5]['id']][0], 'labels': obs[5]['params']})
    ctx.extra['code_to_spec'] = {'decoders': len(decoders()), 'probes': nv, 'call_shaped_probes': shaped}
    from .render import report_raised, report_unstable
    report_raised(ctx, pr)
    report_unstable(ctx, pr)
    ctx.assumptions += ['decimal / hexadecimal conversion of 64-bit integers is Python\'s (trusted)',
                        'in-domain arguments from the frozen audit; a number is "the argument" if it equals it as '
                        'unsigned or signed 64 / 32 bit value']


def replay(ctx, path):
    rp = json.load(open(path))['replay']
    pr = Prober(random.Random(0))
    S = [int(x, 16) for x in rp['start']]
    E = [int(x, 16) for x in rp['end']]
    print(rp['name'], 'START', rp['start'], 'END', rp['end'])
    print(' ->', pr.render(rp['name'], S, E, [b'/p0', b'/p1']))
    return 0
