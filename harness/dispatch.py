"""spec -> code for Dispatch_MC: behaviours (table objects refilled in place, parser objects constructed with them,
records fed) exported by Dispatch_MBT are replayed on REAL dict objects and REAL TracesParser objects; for every Feed the
decoder that serves the record, its pairing domain and the records its window decoder treats as helper records are
observed and compared with what the design answers from the object's own table."""
import json
import random
import struct

from .tlc import run_tlc, simulate_behaviours

MC_CFG = 'SPECIFICATION Spec\nCONSTANTS Variant = "%s"\n MaxSteps = %d\nINVARIANT OwnTable\nCHECK_DEADLOCK FALSE\n'
MBT_CFG = 'SPECIFICATION MSpec\nCONSTANTS Variant = "ok"\n MaxSteps = %d\nINVARIANT Export\nCHECK_DEADLOCK FALSE\n'
NEG = {'memoOnClass': 'id -> handler / domain remembered on the class',
       'memoByTableId': 'trace-domain ids remembered per identity of the table object',
       'lazyModuleNames': 'helper record ids resolved once per process'}
# abstract names -> real names: "r" a decoder that picks helper records (lookups) out of its window, "g" another decoder,
# "s" a trace-domain record, "h" the helper record, "u" a name without decoder
REAL = {'r': 'BSC_rename', 'g': 'BSC_getpid', 's': 'TRACE_STRING_THREADNAME', 'h': 'VFS_LOOKUP', 'u': 'decoy_undecoded_name'}
CLS = {'BscRename': 'r', 'BscGetpid': 'g', 'TraceStringThreadname': 's', 'VfsLookup': 'h'}


def model_check(ctx, negs):
    ctx.expect_ok(run_tlc('Dispatch_MC', MC_CFG % ('ok', 6 if ctx.quick else 7), ctx.workdir, name='dispatch', timeout=3000))
    for v in negs:
        ctx.expect_violation(run_tlc('Dispatch_MC', MC_CFG % (v, 6), ctx.workdir, name='dispatch_neg_' + v, timeout=600,
                                     allow_error=True), NEG[v])


class Replayer:
    def __init__(self, rnd):
        from .pairing import default_codes
        from .encode import make_event
        self.make_event = make_event
        self.rnd = rnd
        d = default_codes()
        by = {n: i for i, n in d.items() if i & 3 == 0}
        # three ids that carry no decoder in the bundled table + one fixed ordinary decoder for the domain probe
        free = sorted(i for i, n in d.items() if i & 3 == 0 and (i >> 24) == 0x21)[:3]
        self.ids = {1: free[0], 2: free[1], 3: free[2]}
        self.base = {i: n for i, n in d.items() if i not in free}
        self.outer = by['BSC_read']
        self.ts = 100

    def table(self, t):
        m = dict(self.base)
        for k, nm in enumerate(t, 1):
            if nm != '-':
                m[self.ids[k]] = REAL[nm]
        return m

    def ev(self, eid, q, tid, data=None, words=(5, 6, 7, 8)):
        self.ts += 1
        return self.make_event(self.ts, eid | q, tid, words, data)

    def observe(self, parser, i, tid):
        """(handler, domain, helpers) as the parser object shows them for a record of id i"""
        eid = self.ids[i]
        lk = lambda txt: (struct.pack('<Q', 9) + txt).ljust(32, b'\x00')      # noqa: one-record lookup: vnode id + path
        # handler: the record alone (START|END qualified) on a fresh thread
        r = parser.feed(self.ev(eid, 3, tid, data=lk(b'/solo')))
        handler = 'none' if r is None else CLS.get(type(r).__name__, type(r).__name__)
        # domain: the record between START and END of an ordinary operation of another fresh thread
        t2 = tid + 1
        parser.feed(self.ev(self.outer, 1, t2))
        parser.feed(self.ev(eid, 3, t2, data=lk(b'/in')))
        out = parser.feed(self.ev(self.outer, 2, t2))
        inside = out is not None and any((e.eventid & 0xfffffffc) == eid for e in out.ktraces[1:-1])
        domain = 'ord' if inside else 'trc'
        helpers = None
        if handler == 'r':
            # the window decoder: START(i), one candidate helper record per id, END(i): which paths does it show?
            t3 = tid + 2
            parser.feed(self.ev(eid, 1, t3))
            for j in (1, 2, 3):
                if j != i:
                    parser.feed(self.ev(self.ids[j], 3, t3, data=lk(b'/id%d' % j)))
            out = parser.feed(self.ev(eid, 2, t3))
            txt = str(out) if out is not None else ''
            helpers = [('/id%d' % j) in txt for j in (1, 2, 3)]
        return handler, domain, helpers


def replay(ctx, beh, rnd):
    from pykdebugparser.traces_parser import TracesParser
    rp = Replayer(rnd)
    objs = {'ta': {}, 'tb': {}}
    parsers = {}
    tid = 1000
    for k, a in enumerate(beh):
        act = a['act']
        if act == 'init':
            for o in ('ta', 'tb'):
                objs[o].update(rp.table(a[o]))
        elif act == 'refill':
            objs[a['o']].clear()                      # the SAME dict object, other contents
            objs[a['o']].update(rp.table(a['t']))
        elif act == 'construct':
            parsers[a['p']] = TracesParser(objs[a['o']], {}, {})
        else:
            tid += 10
            try:
                got = rp.observe(parsers[a['p']], a['i'], tid)
            except Exception as ex:
                got = ('RAISED ' + type(ex).__name__, '', None)
            want_helpers = None
            if a['handler'] == 'r':
                want_helpers = [bool(h) and j != a['i'] for j, h in zip((1, 2, 3), a['helpers'])]
                # the decoder shows the first two lookups of its window
                shown = [j for j, h in enumerate(want_helpers) if h][:2]
                want_helpers = [j in shown for j in range(3)]
            want = (a['handler'], a['domain'], want_helpers)
            if not a.get('pinned', True):
                continue        # its table object was refilled after the parser was constructed: not pinned (see Dispatch_MC)
            if got != want:
                ctx.violation('%s/dispatch/%s' % (ctx.prop, 'handler' if got[0] != want[0] else 'domain' if got[1] != want[1] else 'helpers'),
                              'step %d of %s: parser %s fed id %d answers %s, its own table demands %s'
                              % (k, json.dumps(beh)[:600], a['p'], a['i'], got, want), {'kind': 'dispatch', 'behaviour': beh})
                return False
    return True


def run(ctx, n=None):
    rnd = random.Random(ctx.seed + 5)
    n = n or (1500 if ctx.quick else 30000)
    tuples, info = simulate_behaviours('Dispatch_MBT', MBT_CFG % 9, ctx.workdir, n, name='dispatch_sim', depth=10, seed=ctx.seed + 3)
    ctx.tlc_runs.append(info)
    behs = [json.loads(t[1]) for t in tuples]
    ok = sum(1 for b in behs if replay(ctx, b, rnd))
    ctx.traces += len(behs)
    ctx.extra['dispatch'] = {'behaviours_replayed': len(behs), 'agreeing': ok,
                             'feeds': sum(1 for b in behs for a in b if a['act'] == 'feed')}
