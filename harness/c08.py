"""C08 - multi-record paths / strings are reassembled exactly, once; syscalls show looked-up paths in order.
 (1) TLC Chunks_MC: every text length 0..184 x header kind x {with, without} unrelated records in every gap:
     exactly one trace at the last record with exactly the text; negative control "noswallow".
 (2) code -> spec (Pairing_Val, mode full): every path-taking decoder x number of lookups x boundary lengths x
     unrelated same-thread records in the gaps; lookups / global strings / thread names of every length."""
import random

from . import gen
from .pairing import World, validate_streams, PATH_CLASSES, AUDIT
from .tlc import run_tlc
from .c04 import replay  # noqa  (same replay format)

CH_CFG = '''SPECIFICATION Spec
CONSTANTS MaxText = %d
 Gaps = {TRUE, FALSE}
 Variant = "%s"
INVARIANT ReassembleExact
CHECK_DEADLOCK FALSE
'''


def run(ctx):
    rnd = random.Random(ctx.seed)
    ctx.expect_ok(run_tlc('Chunks_MC', CH_CFG % (184, 'ok'), ctx.workdir, name='chunks_184', timeout=900))
    ctx.expect_violation(run_tlc('Chunks_MC', CH_CFG % (184, 'noswallow'), ctx.workdir, name='neg_noswallow',
                                 timeout=900, allow_error=True), 'continuation fragments emit traces')
    cases = []
    lens = gen.BOUNDARY_LENS if ctx.quick else list(range(0, 185))
    # texts of every length through the three chunkers, alone on a thread and with other-domain records in the gaps
    for n in lens:
        for kind in ('lkp', 'gstr', 'tname', 'tnamep'):
            for gaps in (False, True):
                w = World(rnd, ts='any')
                g = gen.ProgGen(w, rnd)
                txt = gen.pos_text(rnd, n, n)
                if kind == 'lkp':
                    ch = w.lookup(1, txt)
                elif kind == 'gstr':
                    ch = w.gstr(1, txt, 40 + n)
                else:
                    ch = w.tname(1, txt, prev=(kind == 'tnamep'))
                stream = []
                for i, c in enumerate(ch):
                    if gaps and i:
                        # unrelated same-thread record (other pairing domain for string chunks), other thread's chunk
                        # (for string chunks: records of the OTHER pairing domain, and single records of their own domain -
                        # a new-thread / exec data record, a terminate record, an undecoded trace-class record - which land
                        # in the string's window: the text is made of the string's own records only)
                        if kind == 'lkp':
                            # (also records that NAME a thread - the lookup's own or another: a terminate record, a sampler's
                            # thread info, a new-thread announcement - they say nothing about the lookup in flight)
                            stream += [rnd.choice([lambda: w.known(rnd.choice([0, 3]), 1), lambda: w.known(rnd.choice([0, 3]), 1),
                                                   lambda: w.term(1, 1), lambda: w.term(1, 2), lambda: w.thd(1, 9, 1), lambda: w.ntd(1, 1, 7),
                                                   lambda: w.tpid(1, 5)])()]
                        else:
                            r_ = rnd.random()
                            stream += g.ord_single(1) if r_ < 0.4 else [rnd.choice([
                                lambda: w.ntd(1, 2, 7), lambda: w.exd(1, 9), lambda: w.term(1, 2), lambda: w.tpid(1, 5),
                                lambda: w.known(rnd.choice([0, 3]), 1, name=rnd.choice(w.trace_known))])()]
                        stream += w.lookup(2, b'/other') if kind == 'lkp' else w.tname(2, b'oth')
                    stream.append(c)
                cases.append(('%s_%d_%d' % (kind, n, gaps), w, stream))
    # a text whose LAST records were lost (its first record alone), then - on the same thread - a complete text of the same kind:
    # the complete one is reported with exactly its own text (the first record of a text starts it afresh)
    for n in lens:
        for kind in ('lkp', 'gstr', 'tname', 'tnamep'):
            w = World(rnd, ts='any')
            g = gen.ProgGen(w, rnd)
            stale = gen.pos_text(rnd, 60, 150)
            txt = gen.pos_text(rnd, n, n)
            if kind == 'lkp':
                ch0, ch = w.lookup(1, stale), w.lookup(1, txt)
            elif kind == 'gstr':
                ch0, ch = w.gstr(1, stale, 30 + n), w.gstr(1, txt, 40 + n)
            else:
                ch0, ch = w.tname(1, stale, prev=(kind == 'tnamep')), w.tname(1, txt, prev=(kind == 'tnamep'))
            stream = [ch0[0]] + (g.ord_single(1) if n % 2 else []) + list(ch)
            cases.append(('%s_stale_%d' % (kind, n), w, stream))
    # every path-taking decoder x number of lookups x gap records
    names = [n for n, a in sorted(AUDIT.items()) if a.get('cls') in PATH_CLASSES]
    nl_choices = [0, 1, 2, 3, 6, 7]
    for name in names:
        for nl in nl_choices:
            for rep in range(1 if ctx.quick else 6):
                w = World(rnd, ts='any')
                g = gen.ProgGen(w, rnd)
                stream = [w.sys(name, 1, 1)]
                for j in range(nl):
                    if rnd.random() < 0.5:
                        stream += g.single(1)
                    if rnd.random() < 0.25:
                        stream += [rnd.choice([lambda: w.term(1, 1), lambda: w.term(1, 2), lambda: w.thd(1, 9, 1), lambda: w.ntd(1, 1, 7)])()]
                    if rnd.random() < 0.3:
                        stream += w.lookup(2, g.text())      # another thread's lookup must not leak in
                    stream += w.lookup(1, g.text(rnd.choice(lens)))
                if rnd.random() < 0.5:
                    stream += g.single(1)
                if rnd.random() < 0.25:
                    stream += [rnd.choice([lambda: w.term(1, 1), lambda: w.term(1, 2), lambda: w.exd(1, 9)])()]
                stream.append(w.sys(name, 2, 1))
                cases.append(('%s_%d_%d' % (name, nl, rep), w, stream))
    # two lookups whose FIRST records are byte-identical (same vnode id, same first 24 path bytes, same coarse timestamp):
    # records are told apart by their position in the stream, not by their contents
    for name in names:
        for rep in range(2 if ctx.quick else 10):
            w = World(rnd, ts=rnd.choice(['const', 'tied']))
            w.ts_g = 50
            vid = rnd.getrandbits(64)
            pre = b'/System/Library/Caches/x'                       # 24 bytes: exactly the text of a first record
            a, b = rnd.choice([(pre + b'/old-name.plist', pre + b'/new-name.plist'), (b'/tmp/same', b'/tmp/same'),
                               (pre, pre + b'-and-more'), (pre + b'A' * 40, pre + b'A' * 39 + b'B')])
            stream = [w.sys(name, 1, 1)] + w.lookup(1, a, vid=vid) + w.lookup(1, b, vid=vid)
            if rnd.random() < 0.5:
                stream += w.lookup(1, rnd.choice([a, b, b'/third']), vid=vid)
            stream.append(w.sys(name, 2, 1))
            cases.append(('%s_twin_lookups_%d' % (name, rep), w, stream))
    # nested operations: inner syscall's lookups are part of the outer window too
    for i in range(100 if ctx.quick else 2000):
        w = World(rnd, ts='any')
        g = gen.ProgGen(w, rnd, noise=0.0, composites=False, usestr=False)
        progs = [g.program(t, rnd.randrange(1, 4)) for t in (1, 2)]
        cases.append(('mix%d' % i, w, gen.interleave(rnd, progs)))
    # through the public pipeline: whenever BSD is requested (class 4 or a BSD subclass) - whatever ELSE the filter lists
    # name - the lookups are read and every reported BSD syscall shows the same paths as in the unfiltered run
    from .pipeline import traces_via_api, traces_direct
    nmix = 0
    mixes = [{'fclass': [4], 'fsub': []}, {'fclass': [4], 'fsub': [0x0302]}, {'fclass': [4, 1], 'fsub': [0x0308, 0x0140]},
             {'fclass': [], 'fsub': [0x040c, 0x0302]}, {'fclass': [4], 'fsub': [0x0301]}, {'fclass': [31, 4], 'fsub': [0x0703]}]
    for i in range(40 if ctx.quick else 600):
        w = World(rnd, big_tids=False)
        g = gen.ProgGen(w, rnd, ntids=2, noise=0.0, composites=False, usestr=False, strings=False)
        stream = gen.interleave(rnd, [g.program(t, rnd.randrange(1, 4)) for t in (1, 2)])[:50]
        want = {(a, b): t for a, b, t in traces_direct(w, stream)}
        cfg = dict(ftid=0, fproc={'kind': 'none'}, **mixes[i % len(mixes)])
        try:
            got, d = traces_via_api(w, stream, cfg=cfg)
        except Exception as ex:
            ctx.violation('C08/pipeline-raised', 'traces() with %s raised %r' % (cfg, ex), {'kind': 'code->spec', 'stream': []})
            continue
        for a, b, t in got:
            nmix += 1
            first = stream[b - 1] if b > 0 else None
            if first is not None and (first.debugid >> 24) == 4 and want.get((a, b)) != t:
                ctx.violation('C08/paths-differ-under-filter', 'filter %s: the syscall completed by event %d reads %r, unfiltered %r'
                              % (cfg, a, t, want.get((a, b))), {'kind': 'code->spec', 'stream': []})
                break
    ctx.extra['pipeline_texts_under_mixed_filters'] = nmix
    # C08 pins: exactly one lookup / string trace per text (none for continuation records), its text and vnode id, the path
    # arguments of the enclosing syscall.  The event LIST of a trace and the trace count of other records are C04's, the
    # name tables are by-products
    FRAG = ('LKP', 'GSTR', 'TNAME', 'TNAMEP')
    own = lambda cl, cls: cl in ('raised', 'fields', 'shape', 'fragment-trace') or (cl in ('missing-trace', 'spurious-trace') and cls in FRAG)
    execs = validate_streams(ctx, cases, 'full', 'c08val', own=own)
    ctx.sample({'case': cases[5][0], 'events': [a.abs for a in cases[5][2]][:3]})
    ctx.extra['code_to_spec'] = {'cases': len(cases), 'path_taking_decoders': len(names), 'text_lengths': len(lens),
                                 'lookups_per_window': nl_choices}
    ctx.assumptions += ['chunk encoders follow XNU kdebug_vfs_lookup / kernel_debug_string_* (trusted base)',
                        'no trace-domain record between the chunks of one string on one thread (kernel emits them '
                        'back to back); malformed chunk sequences are wildcards']
