"""C02 - version-2 container: exactly the records in order, thread map = tables, no residue.
 (1) TLC Container_MC: histories of parses over generated structural files on one reader state: YieldsExact,
     NoResidue, TablesAreTheMap (later entry wins) ... on the mechanism transcription Container!ParseFile.
 (2) code -> spec: seeded v2 files (thread maps with duplicate keys, names up to the 19-byte limit, padding
     0..4000, arbitrary record bytes, first record zero-leading / non-zero-leading as separate strata), encoded to
     bytes and parsed in histories of 1..3 files on ONE KdBufParser / shared dicts / ONE PyKdebugParser;
     yields, tables and their residue validated by Container_Val (fold of Container!ParseFile) in TLC."""
import json
import random

from .container import FileGen, parse_history, encode_file
from .tlc import run_tlc, validate_observations

MC_CFG = '''SPECIFICATION Spec
CONSTANTS MaxParses = %d
 MaxBlocks = %d
 DedupChunkHead = FALSE
INVARIANT YieldsExact
INVARIANT ChunkingInvariance
INVARIANT NoResidue
INVARIANT TablesAreTheMap
INVARIANT LogsExtendTables
INVARIANT MetaExact
INVARIANT LogStringsResolved
CHECK_DEADLOCK FALSE
'''


def build_obs(ctx, rnd, n, vers, strata):
    obs, files_of = [], {}
    for i in range(n):
        g = FileGen(rnd)
        hist = []
        stratum = strata[i % len(strata)]
        for j in range(rnd.choice([1, 1, 2, 3])):
            v = rnd.choice(vers)
            if v == 2:
                hist.append(g.v2(lead=stratum if j == 0 else 'nz'))
            else:
                hist.append(g.v3())
        via = ['kdbuf', 'fresh', 'api', 'preopen'][i % 4]
        parses = parse_history(hist, via)
        oid = '%s%d_%s' % (stratum, i, via)
        obs.append({'id': oid, 'parses': parses})
        files_of[oid] = (hist, via, stratum)
    return obs, files_of


def report(ctx, prop, rej, files_of):
    for oid, clause in rej:
        hist, via, stratum = files_of[oid]
        cl, _, at = clause.partition('@')
        k = int(at) - 1 if at else 0
        f = hist[k]
        blob, _ = encode_file(f)
        if prop == 'C02' and f['ver'] == 2 and f['_recs'] and f['_recs'][0][0] == 0:
            sig = 'C02/pad-eats-record-head'
        else:
            sig = '%s/%s/v%d' % (prop, cl, f['ver'])
        ctx.violation(sig, 'history %s (via %s): parse %s of a v%d file: %s' % (oid, via, at, f['ver'], cl),
                      {'kind': 'container', 'via': via, 'parse_index': k,
                       'files_hex': [encode_file(x)[0].hex() for x in hist[:k + 1]],
                       'file': {a: b for a, b in f.items() if not a.startswith('_')}})


def run(ctx):
    rnd = random.Random(ctx.seed)
    # the reader at generator grain (spec/Readers.tla): several reader objects (own tables / the caller's pair), several
    # listings alive on one reader, read in any order; design model-checked by Readers_MC, every next() by Readers_Val
    from . import readers
    readers.model_check(ctx, 'sharedDefaults')
    readers.run_sessions(ctx, random.Random(ctx.seed + 91), 300 if ctx.quick else 6000, [2, 2, 3], 'rd', force_logs=False)
    ctx.expect_ok(run_tlc('Container_MC', MC_CFG % ((2, 1) if ctx.quick else (3, 2)), ctx.workdir, name='container',
                          timeout=7200))
    n = 600 if ctx.quick else 12000
    obs, files_of = build_obs(ctx, rnd, n, [2], ['nz', 'nz', 'z'])
    nv, rej, _ = validate_observations('Container_Val', obs, ctx.workdir, name='c02val', timeout=3000)
    ctx.traces += nv
    report(ctx, 'C02', rej, files_of)
    ctx.sample({'history': [{k: v for k, v in p.items() if k != 'yields'} for p in obs[0]['parses']][:2]})
    ctx.extra['code_to_spec'] = {'histories': nv, 'parses': sum(len(o['parses']) for o in obs),
                                 'strata': {'non-zero-leading first record': 2 * n // 3, 'zero-leading first record': n // 3}}
    ctx.assumptions += ['v2 encoder (header layout from kd_buf_parser.py:50-60) is trusted',
                        'first records are never all-zero (whole zero blocks after the map are indistinguishable from padding)']


def replay(ctx, path):
    import io
    rp = json.load(open(path))['replay']
    from pykdebugparser.kd_buf_parser import KdBufParser
    tp, pn = {}, {}
    kp = KdBufParser(tp, pn)
    rc = 0
    for hx in rp['files_hex']:
        try:
            items = list(kp.parse(io.BytesIO(bytes.fromhex(hx))))
            print(len(items), 'items; tables', tp, pn)
        except Exception as ex:
            print('RAISED', repr(ex))
            rc = 1
    print('expected structural file:', json.dumps(rp['file'])[:1500])
    return rc
