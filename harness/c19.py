"""C19 - the code-table text maps every 'hex-id name' line; a caller-supplied table is honoured.
 (1) TLC CodeTable_MC: every text <= MaxLines over id spellings (0x / 0X / none, case, leading zeros, 8 digits) x
     names x trailing comment, duplicates: MapExact (exactly the pairs, last wins).
 (2) code -> spec: seeded texts through from_trace_codes_text, mapping validated by CodeTable_Val in TLC.
 (3) caller-supplied tables: tables produced from text that omit ids and permute the ids of decodable names;
     streams decoded under them are validated against Pairing!Step with the class of every event taken from the
     table in force (full mode); formatted_kevents must show 'name (hex)' for ids in the table and bare hex for
     the others; traces() with the table must decode a name under its new id."""
import io
import json
import random

from . import gen
from .pairing import World, validate_streams, AUDIT, default_codes, UNDECODED_RFA
from .pipeline import Dump
from .tlc import run_tlc, validate_observations
from .c04 import replay  # noqa

CFG = '''SPECIFICATION Spec
CONSTANT MaxLines = %d
INVARIANT MapExact
INVARIANT SpellingIrrelevant
CHECK_DEADLOCK FALSE
'''
WS = [' ', '\t', '  ', '\t\t', ' \t ']
NAME_CHARS = 'ABCDEFGHIJKLMNOPQRSTUVWXYZabcdefghijklmnopqrstuvwxyz0123456789_#:-+.$@!%&*()[]{}<>?/\\|^~`\'";,='


def canon(n):
    return [int(c, 16) for c in '%x' % n]


def spell(rnd, n):
    s = '%x' % n
    if rnd.random() < 0.5:
        s = s.upper()
    if rnd.random() < 0.3:
        s = s.rjust(8, '0')
    r = rnd.random()
    return ('0x' if r < 0.5 else '0X' if r < 0.6 else '') + s


def gen_text(rnd):
    lines, out = [], []
    ids = [rnd.choice([rnd.getrandbits(32), rnd.getrandbits(8), 0x40c0000 + 4 * rnd.randrange(500), 0, 0xffffffff,
                       0xfffffffc, 0x7fffffff, 0x80000000]) for _ in range(rnd.randrange(1, 7))]
    for _ in range(rnd.randrange(0, 12)):
        n = rnd.choice(ids)
        tok = spell(rnd, n)
        name = ''.join(rnd.choice(NAME_CHARS) for _ in range(rnd.randrange(1, 30)))
        rest = rnd.random() < 0.4
        line = (rnd.choice(WS) if rnd.random() < 0.1 else '') + tok + rnd.choice(WS) + name
        if rest:
            line += rnd.choice(WS) + rnd.choice(['#Params: a b c', 'comment', '0x10 OTHER', '\t\t#Matchby: Arg1', '#'])
        if rnd.random() < 0.2:
            line += rnd.choice(WS)
        lines.append({'id': [ord(c) for c in tok], 'name': name, 'rest': rest})
        out.append(line)
    nl = rnd.choice(['\n', '\n', '\r\n'])
    return lines, nl.join(out) + (nl if rnd.random() < 0.5 and out else '')


FROZEN = {'MACH_vmfault', 'RealFaultAddressInternal', 'RealFaultAddressExternal', 'RealFaultAddressSharedCache',
          UNDECODED_RFA}


def custom_table_text(rnd, rich=False):
    """text of a table derived from the bundled one: ~25% of the ids omitted, ids permuted among decodable names"""
    base = default_codes()
    by_name = {}
    for i, n in base.items():
        if i & 3 == 0:
            by_name.setdefault(n, i)
    decodable = [n for n in by_name if n in AUDIT and n not in FROZEN]
    rnd.shuffle(decodable)
    pool = decodable[:rnd.choice([0, 10, 60, len(decodable)])]
    ids = [by_name[n] for n in pool]
    rnd.shuffle(ids)
    new = dict(by_name)
    new.update(dict(zip(pool, ids)))
    keep = FROZEN | {n for n, a in AUDIT.items() if a.get('cls') not in ('SYS0', 'SYS1', 'SYS2')}
    dropped = set(rnd.sample(sorted(new), len(new) // 4)) - keep
    lines = []
    extra = {}
    free = iter(range(0x7a000000, 0x7a100000, 4))
    for n in rnd.sample(decodable, min(len(decodable), 30 if rich else rnd.choice([0, 3, 30]))):
        if n not in dropped and AUDIT[n].get('cls') in ('SYS0', 'SYS1', 'SYS2'):
            extra[next(free)] = n                      # the same decodable name under a second id
    # ... also the names of records that OTHER decoders pick out of their windows (lookups, sampler sub-records, image
    # announcements, the trace-string / data records): every id the table gives them counts
    helpers = [n for n in by_name if n in AUDIT and n not in FROZEN and n not in dropped and
               AUDIT[n].get('cls') in ('LKP', 'THD', 'UHDR', 'UDATA', 'MAPA', 'SCA', 'GSTR', 'TNAME', 'NTD', 'NTS', 'EXD', 'EXS')]
    for n in rnd.sample(helpers, min(len(helpers), 4 if rich else rnd.choice([0, 1, 2, 4]))):
        extra[next(free)] = n
    for n, i in list(new.items()) + [(n, i) for i, n in extra.items()]:
        if n in dropped:
            continue
        lines.append('%s%s%s' % (spell(rnd, i), rnd.choice(WS), n) + ('\t#c' if rnd.random() < 0.1 else ''))
    rnd.shuffle(lines)
    intended = {i: n for n, i in new.items() if n not in dropped}
    intended.update(extra)
    return '\n'.join(lines) + '\n', dropped, intended


def run(ctx):
    from pykdebugparser.trace_codes import from_trace_codes_text
    from pykdebugparser.pykdebugparser import PyKdebugParser
    rnd = random.Random(ctx.seed)
    # which decoder serves a record is a function of the fed object's OWN code table (spec/Dispatch_MC.tla): design
    # model-checked with its misplaced-memo variants, behaviours replayed on real parser and dict objects
    from . import dispatch
    dispatch.model_check(ctx, ['memoByTableId', 'memoOnClass'])
    dispatch.run(ctx)
    # generator-grain sessions on one object (spec/Sessions.tla): listings read alternately, abandoned half way, options
    # edited in place between requests; every next() validated by Sessions_Val, design model-checked by Sessions_MC
    from . import sessions
    from . import c13 as _c13
    sessions.model_check(ctx)
    for i_ in range(2):
        sessions.run_sessions(ctx, random.Random(ctx.seed * 2 + 77 + i_), 120 if ctx.quick else 2500, ('fkev', 'fkev', 'kev'),
                              lambda r, world=None: _c13.gen_dump(r, world=world, orphans=0.0, samples=0.0),
                              _c13.gen_cfg if i_ % 2 else sessions.cfg_light, 'ses%d_' % i_)
    ctx.expect_ok(run_tlc('CodeTable_MC', CFG % (3 if ctx.quick else 4), ctx.workdir, name='codetable', timeout=7200))
    # ---- (2) texts
    obs, texts = [], {}
    for i in range(1500 if ctx.quick else 30000):
        lines, text = gen_text(rnd)
        o = {'id': 't%d' % i, 'lines': lines}
        try:
            m = from_trace_codes_text(text)
            o['map'] = [[canon(k), v] for k, v in m.items()]
            if not all(isinstance(k, int) and isinstance(v, str) for k, v in m.items()):
                o['err'] = 'types'
        except Exception as ex:
            o['err'] = type(ex).__name__
            o['map'] = []
        obs.append(o)
        texts[o['id']] = text
    nv, rej, _ = validate_observations('CodeTable_Val', obs, ctx.workdir, name='c19val', timeout=3000)
    ctx.traces += nv
    for oid, clause in rej:
        ctx.violation('C19/text/%s' % clause, 'from_trace_codes_text(%r): %s' % (texts[oid][:300], clause),
                      {'kind': 'text', 'text': texts[oid]})
    ctx.sample({'text': texts['t3'], 'mapping': obs[3].get('map')})
    # ---- (3) supplied tables
    cases = []
    nlist = 0
    for i in range(12 if ctx.quick else 150):
        text, dropped, intended = custom_table_text(rnd, rich=(i % 3 == 0))      # every third table: many second ids
        try:
            table = from_trace_codes_text(text)
        except Exception as ex:
            ctx.violation('C19/text/raised', 'custom table text rejected: %r' % ex, {'kind': 'text', 'text': text[:2000]})
            continue
        for j in range(8 if ctx.quick else 30):
            w = World(rnd, codes=intended)
            w.parser_codes = table
            g = gen.ProgGen(w, rnd, ntids=2, noise=0.05)
            progs = [g.program(t, rnd.randrange(1, 4)) for t in (1, 2)]
            stream = gen.interleave(rnd, progs)[:50]
            # ids the table does not know (bundled ids of dropped names): never decoded, shown as bare hex
            base = default_codes()
            gone = [k for k, n in base.items() if n in dropped and k not in table and k & 3 == 0]
            for _ in range(rnd.randrange(0, 4)):
                if gone:
                    stream.insert(rnd.randrange(0, len(stream) + 1),
                                  w.unknown(rnd.choice([0, 1, 2, 3]), rnd.choice([1, 2]), rnd.choice(gone)))
            cases.append(('tab%d_%d' % (i, j), w, stream))
            if j < 2:
                d = Dump(w, stream, [(1, 5, 'proc')])
                p = PyKdebugParser()
                p.show_timestamp = p.show_func_qual = p.show_process = p.show_args = False
                lines = list(p.formatted_kevents(io.BytesIO(d.blob), table))
                for a, ln in zip(stream, lines):
                    eid = a.debugid & 0xfffffffc
                    want = ('%s (%s)' % (table[eid], hex(eid))) if eid in table else hex(eid)
                    nlist += 1
                    if ln.rstrip() != want:
                        ctx.violation('C19/listing', 'event id %s under the supplied table is listed as %r, expected %r'
                                      % (hex(eid), ln, want), {'kind': 'text', 'text': text[:2000]})
                # traces() through the public API with the supplied table == direct decoding with it
                p2 = PyKdebugParser()
                from .pairing import run_stream
                n_direct = len(run_stream(w, stream).traces)
                try:
                    n_api = sum(1 for _ in p2.traces(io.BytesIO(d.blob), table))
                except Exception as ex:
                    n_api = repr(ex)
                # every listing that takes a table honours it: the formatted listings equal the formatted raw listings
                for what, raw_m, fmt_m, fm in (('traces', 'traces', 'formatted_traces', '_format_trace'),
                                               ('callstacks', 'callstacks', 'formatted_callstacks', '_format_callstack')):
                    try:
                        pa, pb = PyKdebugParser(), PyKdebugParser()
                        pa.color = pb.color = False
                        want_l = [getattr(pa, fm)(x) for x in getattr(pa, raw_m)(io.BytesIO(d.blob), table)]
                        got_l = list(getattr(pb, fmt_m)(io.BytesIO(d.blob), table) if j == 0 else
                                     getattr(pb, fmt_m)(kdebug=io.BytesIO(d.blob), trace_codes=table))
                    except Exception as ex:
                        want_l, got_l = [], ['raised ' + repr(ex)]
                    if want_l != got_l:
                        ctx.violation('C19/formatted-listing-ignores-table/' + what,
                                      '%s(file, table) lists %d lines, the raw listing formatted gives %d (first difference: %r vs %r)'
                                      % (fmt_m, len(got_l), len(want_l), next((g_ for g_, w_ in zip(got_l, want_l) if g_ != w_), got_l[-1:] ),
                                         next((w_ for g_, w_ in zip(got_l, want_l) if g_ != w_), want_l[-1:])), {'kind': 'text', 'text': text[:2000]})
                if n_api != n_direct:
                    ctx.violation('C19/api-ignores-table', 'traces(file, table) gave %s traces, TracesParser(table) %d'
                                  % (n_api, n_direct), {'kind': 'text', 'text': text[:2000]})
    # a supplied table decides WHICH records are decoded and by which decoder (traces present / absent, their fields);
    # the event lists of the traces are C04's
    validate_streams(ctx, cases, 'full', 'c19streams', sig_prefix='C19/decode',
                     own=lambda cl, cls: cl in ('raised', 'fields', 'missing-trace', 'spurious-trace', 'shape'))
    ctx.extra['code_to_spec'] = {'texts': nv, 'streams_under_supplied_tables': len(cases), 'listed_events': nlist}
    ctx.assumptions += ['lines are "hex-id name [anything]" (blank lines and line-breaking control characters inside '
                        'a line are outside the statement)', 'page-fault composites select nested records by a '
                        'hard-coded id range: their ids are not permuted']
