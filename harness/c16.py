"""C16 - log records decode for every combination of optional fields.
 (1) TLC LogDecode_MC: the trace-identifier Unpack is the exact inverse of Pack for every defined namespace x type x
     every subset of defined flag bits x pc_style x booleans x codes; the key table is a bijection (41 keys).
 (2) code -> spec: raw records with the 10 mandatory keys and key subsets of the 31 optional ones - the empty set,
     all singletons, all 465 pairs, all complements of one key, the full set, seeded random subsets - with distinct
     values per key and several decomposed-message shapes; each decoded through OsLogEvent.from_raw_log_event AND
     through a version-3 dump (log + string-index blocks); every decoded field is projected back to the abstraction
     and validated against LogDecode!Xf / DefaultOf in TLC; every defined trace-identifier word is decoded by the
     code and compared with LogDecode!Unpack."""
import dataclasses
import io
import itertools
import json
import plistlib
import random
from datetime import datetime, timezone

from . import encode as E
from .tlc import run_tlc, validate_observations

MC_CFG = '''SPECIFICATION Spec
INVARIANT RoundTrip
INVARIANT BytesInRange
INVARIANT KeyTableBijective
CHECK_DEADLOCK FALSE
'''
STR_KEYS = ['cm', 'pip', 'p', 'sip', 'send', 'sub', 'cat', 'f', 'sn']
OPT = ['ti', 'pip', 'p', 'sip', 'send', 'sio', 'siu', 'lt', 'ttl', 'pid', 'aid', 'paid', 'tai', 'sub', 'cat', 'f', 'cai',
       'cpui', 'si', 'sn', 'st', 'ss', 'lsmct', 'lemct', 'lsud', 'leud', 'lsutz', 'leutz', 'bt', 'lc', 'dm']
FIELD = {'cm': 'composed_message', 't': 'type_', 's': 'size', 'tid': 'thread_identifier',
         'ns': 'continuous_nanoseconds_since_boot', 'mct': 'mach_continuous_timestamp', 'b': 'boot_uuid',
         'piu': 'process_image_uuid', 'ud': 'unix_date', 'utz': 'unix_timezone', 'ti': 'trace_identifier',
         'pip': 'process_image_path', 'p': 'process', 'sip': 'sender_image_path', 'send': 'sender',
         'sio': 'sender_image_offset', 'siu': 'sender_image_uuid', 'lt': 'log_type', 'ttl': 'time_to_live',
         'pid': 'process_identifier', 'aid': 'activity_identifier', 'paid': 'parent_activity_identifier',
         'tai': 'transition_activity_identifier', 'sub': 'subsystem', 'cat': 'category', 'f': 'format_string',
         'cai': 'creator_activity_identifier', 'cpui': 'creator_process_unique_identifier', 'si': 'signpost_identifier',
         'sn': 'signpost_name', 'st': 'signpost_type', 'ss': 'signpost_scope',
         'lsmct': 'loss_start_mach_continuous_timestamp', 'lemct': 'loss_end_mach_continuous_timestamp',
         'lsud': 'loss_start_unix_date', 'leud': 'loss_end_unix_date', 'lsutz': 'loss_start_unix_timezone',
         'leutz': 'loss_end_unix_timezone', 'bt': 'backtrace', 'lc': 'loss_count', 'dm': 'decomposed_message'}
SCALAR = {'t': 'logEvent', 's': 77, 'tid': (1 << 40) + 5, 'ns': 59245485166, 'mct': (1 << 62) + 3, 'b': b'\x01' * 16,
          'piu': b'\x02' * 16, 'sio': 0x1234567890, 'siu': b'\x03' * 16, 'ttl': 14, 'pid': 4242, 'aid': (1 << 63) + 9,
          'paid': 99, 'tai': 1234567, 'cai': 31, 'cpui': (1 << 33), 'si': 0xeeeeb0b5b2b2eeee, 'st': 2, 'ss': 3,
          'lsmct': 111, 'lemct': 222}
TOKEN = {k: i + 1 for i, k in enumerate(sorted(SCALAR))}


class LogWorld:
    def __init__(self, rnd, base=None, shift=0):
        self.rnd = rnd
        texts = ['text of %s' % k for k in STR_KEYS] + ['literal %d' % i for i in range(5)] + ['%d', 'tok', 'type ns', 'obj repr', '']
        rnd.shuffle(texts)
        if base is not None:
            # another dump whose string index uses the SAME numbers for OTHER strings: the texts of `base` with the
            # format-related strings (and the literals) rotated among their numbers
            texts = [base.strings[i] for i in range(len(base.strings))]
            for group in (['%d', 'tok', 'type ns', 'obj repr'], ['literal %d' % i for i in range(5)] + ['']):
                pos = [texts.index(t) for t in group]
                for k, t in enumerate(group):
                    texts[pos[(k + shift) % len(group)]] = t
        self.strings = {i: t for i, t in enumerate(texts)}              # id -> text (string numbers start at 0)
        self.sid = {t: i for i, t in self.strings.items()}
        self.key_sid = {k: self.sid['text of %s' % k] for k in STR_KEYS}

    def ti_word(self, ns, ty, flags, pcs, aid, up, lo, code):
        b2 = (1 if aid else 0) | (pcs << 1) | (16 if up else 0) | (32 if lo else 0)
        return ns | (ty << 8) | (b2 << 16) | (flags << 24) | (code << 32)

    def dm(self, shape):
        """decomposed message of a given shape: (raw plist dict, abstract raw, expected normalised decode)"""
        rnd = self.rnd
        lit = [self.sid['literal %d' % i] for i in range(5)] + [self.sid['']]       # one literal prefix is the empty string
        nseg = shape
        segs_raw, segs_abs = [], []
        for j in range(nseg):
            seg, ab = {}, [-1, [], []]
            if rnd.random() < 0.8:
                seg['lp'] = rnd.choice(lit)
                ab[0] = seg['lp']
            if rnd.random() < 0.8:
                ph = {'w': rnd.choice([0, 0, 0, 1, 8, rnd.randrange(0, 9)]), 'p': rnd.choice([0, 0, 0, 6, 79, rnd.randrange(0, 80)])}
                a_ph = [-1, -1, -1, ph['w'], ph['p'], []]
                fmt = [self.sid[x] for x in ('%d', 'tok', 'type ns', 'obj repr')]     # any format string in any role
                if rnd.random() < 0.7:
                    ph['rs'] = rnd.choice([self.sid['%d'], rnd.choice(fmt)])
                    a_ph[0] = ph['rs']
                if rnd.random() < 0.5:
                    ph['tn'] = rnd.choice([self.sid['type ns'], rnd.choice(fmt)])
                    a_ph[1] = ph['tn']
                if rnd.random() < 0.5:
                    ph['ty'] = rnd.choice([self.sid['tok'], rnd.choice(fmt)])
                    a_ph[2] = ph['ty']
                if rnd.random() < 0.6:
                    ph['t'] = [rnd.choice([self.sid['tok'], rnd.choice(fmt)])] * rnd.randrange(0, 3)
                    a_ph[5] = list(ph['t'])
                seg['p'] = ph
                ab[1] = a_ph
            if rnd.random() < 0.8:
                c = rnd.choice([1, 2, 3])
                ar = {'c': c}
                a_ar = [-1, -1, c, -1, -1, -1]
                if rnd.random() < 0.6:
                    ar['a'] = rnd.choice([1, 3])
                    a_ar[0] = ar['a']
                if rnd.random() < 0.6:
                    ar['p'] = rnd.choice([1, 2])
                    a_ar[1] = ar['p']
                if c == 1:
                    if rnd.random() < 0.7:
                        ar['sc'] = 2
                        a_ar[3] = 2
                    if rnd.random() < 0.7:
                        ar['st'] = 5
                        a_ar[4] = 5
                if rnd.random() < 0.7:
                    ar['or'] = self.sid['obj repr'] if c == 2 else 777
                    if 'a' not in ar or ar['a'] == 3:            # representation available
                        a_ar[5] = ar['or']
                seg['a'] = ar
                ab[2] = a_ar
            segs_raw.append(seg)
            segs_abs.append(ab)
        # the placeholder count is NOT the segment count: "text %d more text" has one placeholder and two segments
        pc = rnd.choice([nseg, nseg, max(nseg - 1, 0), max(nseg - 2, 0), nseg + 1, 0]) if nseg else rnd.choice([0, 0, 1])
        raw = {'pc': pc, 's': rnd.randrange(0, 4)}
        if nseg or pc or rnd.random() < 0.5:
            raw['seg'] = segs_raw
        return raw, [raw['pc'], raw['s'], segs_abs]

    def project_dm(self, d):
        if not d:
            return []
        out = [d.get('placeholder_count', -2), d.get('state', -2)]
        if 'segments' in d:
            segs = []
            for s in d['segments']:
                ab = [self.sid.get(s['literal_prefix'], -2) if 'literal_prefix' in s else -1, [], []]
                if 'placeholder' in s:
                    p = s['placeholder']
                    ab[1] = [self.sid.get(p['raw_string'], -2) if 'raw_string' in p else -1,
                             self.sid.get(p['type_namespace'], -2) if 'type_namespace' in p else -1,
                             self.sid.get(p['type'], -2) if 'type' in p else -1, p.get('width', -2), p.get('precision', -2),
                             [self.sid.get(t, -2) for t in p.get('tokens', [])]]
                if 'arg' in s:
                    a = s['arg']
                    orr = a.get('object_representation', -1)
                    if isinstance(orr, str):
                        orr = self.sid.get(orr, -2)
                    ab[2] = [a.get('availability', -1), a.get('privacy', -1), a.get('category', -2),
                             a.get('scalar_category', -1), a.get('scalar_type', -1), orr]
                segs.append(ab)
            out.append(segs)
        return out

    def record(self, keys, dm_shape=2, ti=None):
        """raw plist record with the mandatory keys and the given optional keys; returns (raw dict, abstract raw)"""
        rnd = self.rnd
        raw, ab = {}, {}
        for k in ['cm', 't', 's', 'tid', 'ns', 'mct', 'b', 'piu', 'ud', 'utz'] + list(keys):
            if k in STR_KEYS:
                raw[k] = self.key_sid[k] if k == 'cm' or self.rnd.random() < 0.9 else self.sid['']
                ab[k] = raw[k]
            elif k in SCALAR:
                raw[k] = SCALAR[k]
                ab[k] = TOKEN[k]
            elif k == 'ud':
                raw[k] = {'sec': 1600000000 + rnd.randrange(10 ** 8), 'usec': rnd.choice([0, 1, 7, 499999, 500000, 999999])}
                ab[k] = [raw[k]['sec'], raw[k]['usec']]
            elif k in ('utz', 'lsutz', 'leutz'):
                raw[k] = {'mw': rnd.choice([0, 480, -120 % 1440]), 'dt': rnd.choice([0, 1])}
                ab[k] = [raw[k]['mw'], raw[k]['dt']]
            elif k in ('lsud', 'leud'):
                raw[k] = {'sec': 1600000000 + len(k), 'usec': 12}
                ab[k] = [raw[k]['sec'], raw[k]['usec']]
            elif k == 'lt':
                raw[k] = rnd.choice([0, 1, 2, 0x10, 0x11])
                ab[k] = raw[k]
            elif k == 'bt':
                n = rnd.choice([0, 1, 3])
                raw[k] = [{'iu': bytes([40 + i]) * 16, 'io': 1000 + i} for i in range(n)]
                ab[k] = [[40 + i, 1000 + i] for i in range(n)]
            elif k == 'lc':
                raw[k] = {'c': 5, 's': 6}
                ab[k] = [5, 6]
            elif k == 'ti':
                w = ti if ti is not None else self.ti_word(4, 0x10, 3, 2, True, False, True, 0xdeadbeef)
                raw[k] = w
                ab[k] = list(w.to_bytes(8, 'little'))
            elif k == 'dm':
                raw[k], ab[k] = self.dm(dm_shape)
        return raw, ab

    def project(self, ev, default):
        """decoded OsLogEvent -> abstraction (same domain as the abstract raw record)"""
        dec = {}
        inv_scalar = {k: v for k, v in SCALAR.items()}
        for k, f in FIELD.items():
            v = getattr(ev, f, '__missing__')
            if v == '__missing__':
                continue
            if k in STR_KEYS:
                dec[f] = self.sid.get(v, -2)
            elif k in SCALAR:
                if v == inv_scalar[k] and type(v) is type(inv_scalar[k]):
                    dec[f] = TOKEN[k]
                elif v == getattr(default, f, None):
                    dec[f] = 0
                else:
                    dec[f] = -2
            elif k == 'ud':
                ts = v.astimezone(timezone.utc)
                epoch = datetime(1970, 1, 1, tzinfo=timezone.utc)
                delta = ts - epoch
                dec[f] = [delta.days * 86400 + delta.seconds, delta.microseconds] if v.utcoffset().total_seconds() == 0 else [-2, -2]
            elif k in ('utz', 'lsutz', 'leutz'):
                dec[f] = [v['minutes_west'], v['dst_time']] if v else []
            elif k in ('lsud', 'leud'):
                dec[f] = [v['sec'], v['usec']] if v else []
            elif k == 'lt':
                dec[f] = -1 if v is None else v.value
            elif k == 'bt':
                dec[f] = [[x['image_uuid'][0], x['image_offset']] for x in v]
            elif k == 'lc':
                dec[f] = [v['count'], v['unknown']] if v else []
            elif k == 'ti':
                dec[f] = [] if v is None else project_ti(v)
            elif k == 'dm':
                dec[f] = self.project_dm(v)
        return dec


def project_ti(t):
    ty = t.type_
    return {'ns': t.namespace.value, 'type': ty.value if hasattr(ty, 'value') else int(ty), 'aid': bool(t.has_current_aid),
            'pcs': t.pc_style.value, 'up': bool(t.has_unique_pid), 'lo': bool(t.has_large_offset),
            'flags': -1 if t.flags is None else int(getattr(t.flags, 'value', t.flags)),
            'code': list(int(t.code).to_bytes(4, 'little'))}


def default_event():
    from pykdebugparser.os_log_event import OsLogEvent
    return OsLogEvent('', '', '', 0, 0, 0, b'', b'', datetime.fromtimestamp(0, tz=timezone.utc), {})


_ORDER = random.Random(20261003)


def reorder(x):
    """the same record with the keys of every dictionary in ANOTHER order (a record is a set of key / value pairs: a writer
    that does not sort its keys - CoreFoundation, a hand-made record - lists them in any order); lists keep their order"""
    if isinstance(x, dict):
        ks = list(x)
        how = _ORDER.randrange(4)
        if how == 1:
            ks.reverse()
        elif how >= 2:
            _ORDER.shuffle(ks)
        return {k: reorder(x[k]) for k in ks}
    if isinstance(x, list):
        return [reorder(v) for v in x]
    return x


def decode_direct(lw, raw):
    from pykdebugparser.os_log_event import OsLogEvent
    return OsLogEvent.from_raw_log_event(reorder(raw), dict(lw.strings))


def decode_via_file(lw, raw):
    from pykdebugparser.kd_buf_parser import KdBufParser
    from pykdebugparser.os_log_event import OsLogEvent
    blocks = [(E.TAG_LOG_STRINGS, plistlib.dumps({'StringIndex': {t: i for i, t in lw.strings.items()}}, fmt=plistlib.FMT_BINARY)),
              (E.TAG_LOG_EVENTS, plistlib.dumps({'Events': [reorder(raw)]}, fmt=plistlib.FMT_BINARY, sort_keys=False))]
    blob, _ = E.encode_v3([], [[]], blocks, fill1=b'ss', fill2=b'', fill3=b'')
    items = [x for x in KdBufParser({}, {}).parse(io.BytesIO(blob)) if isinstance(x, OsLogEvent)]
    if len(items) != 1:
        raise RuntimeError('expected one log, got %d' % len(items))
    return items[0]


TYPES = {0: [0, 1, 7], 2: [1, 2, 3], 3: [0, 1, 2, 16, 17], 4: [0, 1, 2, 16, 17], 5: [1, 2, 3, 4],
         6: [0, 1, 2, 64, 65, 66, 128, 129, 130, 192, 193, 194], 7: [0, 1, 7]}
FLAGBITS = {4: [1, 2, 4, 8, 16], 3: [1, 2, 4, 8, 16, 128]}


def run(ctx):
    import os
    import time
    os.environ['TZ'] = 'VRF+8'          # a host that is not on UTC: "the corresponding UTC instant" must not depend on it
    time.tzset()
    rnd = random.Random(ctx.seed)
    # log records of several version-3 dumps read alternately through ONE reader object (spec/Readers.tla): every record is
    # resolved through its own dump's string index
    from . import readers
    readers.model_check(ctx, 'idxOnObject')
    readers.run_sessions(ctx, random.Random(ctx.seed + 92), 250 if ctx.quick else 5000, [3, 3, 3, 2], 'rd', force_logs=True)
    ctx.expect_ok(run_tlc('LogDecode_MC', MC_CFG, ctx.workdir, name='traceid', timeout=3600))
    # several dumps' string indexes in one process: the same string NUMBERS mean other strings in the next record
    lws = [LogWorld(rnd) for _ in range(3)]
    lws += [LogWorld(rnd, base=lws[k % 3], shift=1 + k % 3) for k in range(6)]
    lw = lws[0]
    dflt = default_event()
    subsets = [()] + [(k,) for k in OPT] + list(itertools.combinations(OPT, 2)) + \
              [tuple(x for x in OPT if x != k) for k in OPT] + [tuple(OPT)]
    for _ in range(300 if ctx.quick else 50000):
        subsets.append(tuple(k for k in OPT if rnd.random() < rnd.choice([0.2, 0.5, 0.8])))
    obs, raws = [], {}

    def observe(oid, raw, ab, via, lw):
        o = {'id': oid, 'raw': ab, 'empty': lw.sid['']}
        try:
            ev = decode_direct(lw, raw) if via == 'direct' else decode_via_file(lw, raw)
            o['dec'] = lw.project(ev, dflt)
        except Exception as ex:
            o['dec'] = {}
            o['err'] = type(ex).__name__
        obs.append(o)
        raws[oid] = raw

    for i, keys in enumerate(subsets):
        lw = lws[i % len(lws)]
        raw, ab = lw.record(keys, dm_shape=[0, 1, 3, 2, 4][i % 5])
        observe('s%d_direct' % i, raw, ab, 'direct', lw)
        if i % (4 if ctx.quick else 2) == 0:
            observe('s%d_file' % i, raw, ab, 'file', lw)
    # the HOST's local time zone is no input: the same records decoded on hosts whose zone has daylight saving, with time
    # stamps around both switches (the repeated hour in autumn, the skipped one in spring) and far from them
    import os
    import time as _time
    saved_tz = os.environ.get('TZ')
    ntz = 0
    try:
        for tz in ('EST5EDT,M3.2.0,M11.1.0', 'CET-1CEST,M3.5.0,M10.5.0/3', 'NZST-12NZDT,M9.5.0,M4.1.0/3', 'UTC', 'JST-9'):
            os.environ['TZ'] = tz
            _time.tzset()
            for base in (1636261200, 1635638400, 1647741600, 1616893200, 1648944000, 1600000000):      # Nov 2021 (US), Oct 2021 (EU), Mar 2022 / 2021, Apr 2022 (NZ)
                for off in range(-7200, 7201, 1800 if ctx.quick else 600):
                    lw = lws[ntz % len(lws)]
                    raw, ab = lw.record((), dm_shape=0)
                    raw['ud'] = {'sec': base + off, 'usec': rnd.choice([0, 1, 999999])}
                    ab['ud'] = [raw['ud']['sec'], raw['ud']['usec']]
                    observe('tz%d_direct' % ntz, raw, ab, 'direct', lw)
                    ntz += 1
    finally:
        if saved_tz is None:
            os.environ.pop('TZ', None)
        else:
            os.environ['TZ'] = saved_tz
        _time.tzset()
    ctx.extra['records_decoded_under_other_host_time_zones'] = ntz
    # every defined trace-identifier word
    nti = 0
    for ns, types in TYPES.items():
        bits = FLAGBITS.get(ns, [])
        flagsets = [sum(c) for r in range(len(bits) + 1) for c in itertools.combinations(bits, r)] or [0]
        for ty in types:
            for fl in flagsets:
                for pcs in range(8):
                    combos = itertools.product([False, True], repeat=3)
                    for aid, up, lo in (combos if (not ctx.quick or (fl in (0, 1, 3, 128, 159, 31))) else [(True, False, True)]):
                        code = rnd.choice([0, 0xdeadbeef, 0xffffffff, 1])
                        lw = lws[nti % len(lws)]
                        w = lw.ti_word(ns, ty, fl, pcs, aid, up, lo, code)
                        raw, ab = lw.record(('ti',), ti=w)
                        observe('ti_%016x' % w, raw, ab, 'direct', lw)
                        nti += 1
    nv, rej, _ = validate_observations('LogDecode_Val', obs, ctx.workdir, name='c16val', timeout=3000)
    ctx.traces += nv
    for oid, clause in rej:
        raw = raws[oid]
        cl, _, fld = clause.partition(':')
        if oid.startswith('ti_'):
            w = raw['ti']
            sig = 'C16/trace-identifier/%s/ns%d' % (cl, w & 0xff) + ('/flags0' if (w >> 24) & 0xff == 0 else '')
        else:
            sig = 'C16/%s/%s' % (cl, fld)
        ctx.violation(sig, 'record %s with optional keys %s: %s' % (oid, sorted(set(raw) & set(OPT)), clause),
                      {'kind': 'log', 'raw': json.loads(json.dumps(raw, default=lambda b: b.hex())), 'via': oid.rsplit('_', 1)[-1]})
    ctx.sample({'optional_keys': list(subsets[40]), 'abstract_raw': obs[80]['raw'], 'decoded': obs[80]['dec']})
    ctx.extra['code_to_spec'] = {'key_subsets': len(subsets), 'records_decoded': nv, 'trace_identifier_words': nti,
                                 'via': ['from_raw_log_event', 'version-3 dump']}
    ctx.assumptions += ['values are distinct per key; strings are compared by their index id',
                        'decomposed-message argument rules (scalar fields only for category 1, representation only '
                        'when available, looked up for category 2) are the harness\'s reading of the format',
                        'namespaces / types / flags the format does not define are not generated']


def replay(ctx, path):
    rp = json.load(open(path))['replay']
    print(json.dumps(rp, indent=1)[:3000])
    return 0
