"""Dumps (thread map + event stream) as v2 byte files, request histories on ONE PyKdebugParser object, and the
projection of what comes out to the observation format of Pipeline_Val.tla."""
import io
import re
import struct

from .encode import kd_buf, encode_v2
from .pairing import World, describe  # noqa

ANSI = re.compile(r'\x1b\[[0-9;]*m')


def strip_ansi(s):
    return ANSI.sub('', s)


def records_of(stream):
    recs = []
    for k, a in enumerate(stream, 1):
        data = a.data if a.data is not None else struct.pack('<QQQQ', *[x & ((1 << 64) - 1) for x in a.words])
        recs.append(kd_buf(1000 + 10 * k, tid=a.ctid, debugid=a.debugid, data=data))
    return recs


class Dump:
    def __init__(self, world, stream, tmap, logs=None, nchunks=1):
        """tmap: list of (abstract tid, pid, name str); logs (=> version 3 dump): list of (abstract tid, pid, proc)"""
        self.w = world
        self.stream = stream
        self.tmap = tmap
        self.logs = logs
        tm = [(world.ctid(t), p, n.encode(), [b'', b'old\x00junk', b'\xff' * 19][(t + p) % 3]) for t, p, n in tmap]
        recs = records_of(stream)
        if logs is None:
            self.blob, self.layout = encode_v2(tm, 0, recs)
        else:
            import plistlib
            from . import encode as E
            strings = sorted({pr for _, _, pr in logs} | {'msg%d' % i for i in range(len(logs))})
            idx = {s_: i for i, s_ in enumerate(strings)}         # string numbers start at 0
            evs = []
            for i, (t, pid, pr) in enumerate(logs):
                d = {'cm': idx['msg%d' % i], 't': 'logEvent', 's': i, 'tid': world.ctid(t) if t else 0, 'ns': 1,
                     'mct': 2, 'b': b'B' * 16, 'piu': b'P' * 16, 'ud': {'sec': 1600000000 + i, 'usec': 0},
                     'utz': {'mw': 0, 'dt': 0}, 'pid': pid}
                if pr:
                    d['p'] = idx[pr]
                evs.append(d)
            cut = sorted([len(recs) * j // nchunks for j in range(1, nchunks)])
            chunks = [recs[a:b] for a, b in zip([0] + cut, cut + [len(recs)])]
            blocks = [(E.TAG_LOG_STRINGS, plistlib.dumps({'StringIndex': idx}, fmt=plistlib.FMT_BINARY)),
                      (E.TAG_LOG_EVENTS, plistlib.dumps({'Events': evs}, fmt=plistlib.FMT_BINARY))]
            self.blob, self.layout = E.encode_v3(tm, chunks, blocks, fill1=b'stack', fill2=b'xx', fill3=b'y')
        self.ts2k = {1000 + 10 * k: k for k in range(1, len(stream) + 1)}

    def cut_copy(self, rnd):
        """the same version-2 dump cut somewhere after its thread map (C06): the complete records before the cut are its
        events; cut inside a record => reading ends with an error after them"""
        import copy
        recs = [(a, b) for k, a, b in self.layout if k == 'rec']
        if self.logs is not None or not recs:
            return None
        c = copy.copy(self)
        cut = rnd.randrange(recs[0][0], recs[-1][1] + 1)
        if rnd.random() < 0.3:
            cut = rnd.choice(recs)[0]                       # exactly at a record boundary
        n = sum(1 for a, b in recs if b <= cut)
        c.blob = self.blob[:cut]
        c.stream = self.stream[:n]
        c.cut_mid = (cut - recs[0][0]) % 64 != 0
        c.ts2k = {1000 + 10 * k: k for k in range(1, n + 1)}
        return c

    cut_mid = False

    def abstract(self):
        evs = []
        for k, a in enumerate(self.stream, 1):
            d = dict(a.abs)
            d['k'] = k
            eid = a.debugid & 0xfffffffc
            d['cc'] = eid >> 24
            d['sc'] = eid >> 16
            evs.append(d)
        return {'tmap': [{'tid': t, 'pid': p, 'name': n} for t, p, n in self.tmap], 'evs': evs,
                'logs': [{'i': i + 1, 'tid': t, 'pid': pid, 'proc': pr} for i, (t, pid, pr) in enumerate(self.logs or [])]}

    def k_of(self, kevent):
        return self.ts2k.get(kevent.timestamp, -1)


def cfg_of(world, p):
    """caller-visible filter settings of the object, abstracted"""
    fp = p.filter_process
    if fp is None:
        fproc = {'kind': 'none'}
    elif isinstance(fp, str) and fp.isdigit() and str(int(fp)) == fp:
        # ONE string, compared with the pid (decimal text) and with the process name
        fproc = {'kind': 'both', 'pid': int(fp), 'name': fp}
    else:
        fproc = {'kind': 'name', 'name': fp}
    return {'ftid': 0 if p.filter_tid is None else world.atid(p.filter_tid), 'fproc': fproc,
            'fclass': list(p.filter_class), 'fsub': list(p.filter_subclass)}


def apply_cfg(world, p, cfg, as_tuple=False):
    p.filter_tid = None if cfg['ftid'] == 0 else world.ctid(cfg['ftid'])
    fp = cfg['fproc']
    p.filter_process = None if fp['kind'] == 'none' else (str(fp['pid']) if fp['kind'] in ('pid', 'both') else fp['name'])
    p.filter_class = tuple(cfg['fclass']) if as_tuple else list(cfg['fclass'])
    p.filter_subclass = tuple(cfg['fsub']) if as_tuple else list(cfg['fsub'])


PROC_RE = re.compile(r'^(.*)\((-?\d+)\)$', re.S)


def parse_proc(col):
    col = col.rstrip(' ')
    m = PROC_RE.match(col)
    if m:
        pid = int(m.group(2))
        return {'shown': True, 'known': True, 'pid': pid if pid < (1 << 31) else -2, 'name': m.group(1)}
    return {'shown': True, 'known': False, 'pid': -1, 'name': ''}


def request(world, p, dump, op, codes=None):
    """one request on object p; returns the observation record (out + settings afterwards) and texts"""
    cfg = cfg_of(world, p)
    r = {'op': op, 'cfg': cfg}
    texts = []
    try:
        if op == 'kevents':
            r['out'] = [dump.k_of(e) if isinstance(e, tuple) else -1 for e in p.kevents(io.BytesIO(dump.blob))]
        elif op == 'logs':
            out = []
            for l in p.os_log_events(io.BytesIO(dump.blob)):
                m = re.match(r'msg(\d+)$', l.composed_message)
                out.append(int(m.group(1)) + 1 if m and not isinstance(l, tuple) else -1)
            r['out'] = out
        elif op == 'traces':
            out = []
            for t in p.traces(io.BytesIO(dump.blob), codes):
                # the process column exactly as the formatter computes it at this moment of the stream
                col = p._format_process(t.ktraces[0].tid)
                out.append({'k': dump.k_of(t.ktraces[-1]), 'first': dump.k_of(t.ktraces[0]), 'proc': parse_proc(col)})
                texts.append(str(t))
            r['out'] = out
        elif op == 'callstacks':
            out = []
            for cs in p.callstacks(io.BytesIO(dump.blob), codes):
                frames = []
                for f in cs.frames:
                    if f.uuid is None:
                        frames.append([world.rank(f.address), -1, -1])
                    else:
                        off = f.offset // 0x1000 if f.offset is not None and f.offset >= 0 and f.offset % 0x1000 == 0 else -2
                        frames.append([world.rank(f.address), world.img_id(f.uuid), off])
                # identify the sample by its START timestamp -> the END that completed it is found by the harness
                out.append({'start': dump.ts2k.get(cs.timestamp, -1), 'frames': frames})
            r['out'] = out
    except Exception as ex:
        r['err'] = type(ex).__name__ + ':' + str(ex)[:100]
        r['out'] = []
    r['after'] = cfg_of(world, p)
    return r, texts


def cli_lines(world, dump, command, cfg, workdir, count=None, show_tid=False, color=None):
    """run the command-line interface (pykdebugparser.__main__) on the dump; returns (exit_code, output lines)"""
    import os
    from click.testing import CliRunner
    from pykdebugparser.__main__ import cli
    os.makedirs(workdir, exist_ok=True)
    path = os.path.join(workdir, 'cli_%d.bin' % os.getpid())
    with open(path, 'wb') as f:
        f.write(dump.blob)
    args = [command, path]
    if count is not None:
        args += ['-c', str(count)]
    if cfg['ftid']:
        args += ['--tid', str(world.ctid(cfg['ftid']))]
    if command in ('traces', 'callstacks', 'logs') and cfg['fproc']['kind'] != 'none':
        fp = cfg['fproc']
        args += ['--process', str(fp['pid']) if fp['kind'] in ('pid', 'both') else fp['name']]
    if show_tid:
        args += ['--show-tid']
    if command in ('kevents', 'traces'):
        for c in cfg['fclass']:
            args += ['-cf', str(c)]
        for c in cfg['fsub']:
            args += ['-sf', hex(c)]
    if command == 'traces' and color is not None:
        args += ['--color' if color else '--no-color']
    res = CliRunner().invoke(cli, args)
    os.unlink(path)
    return res.exit_code, res.output.splitlines(), args[2:]


def api_lines(world, dump, command, cfg, count=None, show_tid=False, color=True):
    """what the library prints for the same settings (formatted_* listing, first `count` items)"""
    from pykdebugparser.pykdebugparser import PyKdebugParser
    p = PyKdebugParser()
    c2 = dict(cfg)
    if command in ('callstacks', 'logs'):
        c2 = dict(cfg, fclass=[], fsub=[])
    if command == 'kevents':
        c2 = dict(c2, fproc={'kind': 'none'})
    apply_cfg(world, p, c2)
    p.show_tid = show_tid
    p.color = color
    gen_ = {'kevents': p.formatted_kevents, 'traces': p.formatted_traces, 'callstacks': p.formatted_callstacks,
            'logs': p.formatted_logs}[command](io.BytesIO(dump.blob))
    out = []
    for i, x in enumerate(gen_):
        if count is not None and count >= 0 and i == count:
            break
        out += str(x).splitlines()
    return out


def traces_via_api(world, stream, tmap=(), table=None, cfg=None, tid=None):
    """the stream as a version-2 dump through PyKdebugParser.traces: [(k of the completing event, k of the first event, text)]"""
    from pykdebugparser.pykdebugparser import PyKdebugParser
    d = Dump(world, stream, list(tmap))
    p = PyKdebugParser()
    if cfg:
        apply_cfg(world, p, cfg)
    if tid is not None:
        p.filter_tid = world.ctid(tid)
    out = []
    for t in p.traces(io.BytesIO(d.blob), table if table is not None else world.codes):
        out.append((d.k_of(t.ktraces[-1]), d.k_of(t.ktraces[0]), str(t)))
    return out, d


def traces_direct(world, stream, table=None):
    """the same stream fed to a TracesParser directly (no filters)"""
    from pykdebugparser.traces_parser import TracesParser
    p = TracesParser(table if table is not None else world.codes, {}, {})
    out = []
    conc = [world.concrete(a, k + 1) for k, a in enumerate(stream)]
    ident = {id(e): k + 1 for k, e in enumerate(conc)}
    for e in conc:
        r = p.feed(e)
        if r is not None:
            out.append((ident.get(id(r.ktraces[-1]), -1), ident.get(id(r.ktraces[0]), -1), str(r)))
    return out
