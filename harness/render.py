"""Differential probing of rendered traces: text -> name(p0, p1, ...), result ; labels for every parameter
(which START words, END words and lookups it depends on, which START word it equals numerically)."""
import re

from .pairing import World, new_parser, AUDIT

MASK64 = (1 << 64) - 1


def tokenize(text):
    """'name(p0, p1), result' -> (name, [p0, p1], result) ; None if the text is not call-shaped"""
    m = re.match(r'^([A-Za-z_][A-Za-z_0-9]*)\(', text)
    if not m:
        return None
    i = m.end()
    depth, params, cur = 0, [], []
    in_q = in_c = False
    while i < len(text):
        c = text[i]
        if in_c:
            cur.append(c)
            if text.startswith('*/', i):
                cur.append('/')
                i += 1
                in_c = False
        elif in_q:
            cur.append(c)
            if c == '"':
                in_q = False
        elif text.startswith('/*', i):
            in_c = True
            cur.append(c)
        elif c == '"':
            in_q = True
            cur.append(c)
        elif c in '([{':
            depth += 1
            cur.append(c)
        elif c in ')]}':
            if depth == 0:
                break
            depth -= 1
            cur.append(c)
        elif c == ',' and depth == 0:
            params.append(''.join(cur).strip())
            cur = []
        else:
            cur.append(c)
        i += 1
    else:
        return None
    last = ''.join(cur).strip()
    if last or params:
        params.append(last)
    rest = text[i + 1:]
    if rest.startswith(', '):
        rest = rest[2:]
    elif rest.startswith(','):
        rest = rest[1:].lstrip()
    return m.group(1), params, rest


NUM = re.compile(r'^(-?\d+|0x[0-9a-fA-F]+)(\s*/\*.*\*/)?$', re.S)


def numval(tok):
    m = NUM.match(tok)
    if not m:
        return None
    t = m.group(1)
    return int(t, 16) if t.startswith('0x') else int(t)


def form_values(w):
    """the ways a 64-bit word is legitimately shown: unsigned / signed 64 bit, unsigned / signed 32 bit"""
    w &= MASK64
    lo = w & 0xffffffff
    return {'u64': w, 's64': w - (1 << 64) if w >> 63 else w, 'u32': lo, 's32': lo - (1 << 32) if lo >> 31 else lo}


def forms(w):
    return set(form_values(w).values())


def ioctl_word(rnd):
    """an in-domain ioctl request: defined direction bits, any length / group / number, any upper 32 bits"""
    req = (rnd.choice([1, 2, 4, 6, 7]) << 29) | (rnd.randrange(8192) << 16) | (rnd.randrange(256) << 8) | rnd.randrange(256)
    return req | (rnd.choice([0, 0, 0xffffffff, rnd.getrandbits(32)]) << 32)


class Prober:
    def __init__(self, rnd, reraise=True):
        self.rnd = rnd
        self.reraise = reraise    # False: a rendering that raises is recorded in self.raised and reads as None
        self.w = World(rnd)
        self.raised = []          # (decoder, START words, END words, exception): in-domain records must render
        self.unstable = []        # (decoder, START, END, first text, second text): a reported trace reads the same every time

    def distinct_words(self, name, which):
        """in-domain words, pairwise distinct (also in their low 32 bits) where the domain allows"""
        if name not in AUDIT:           # a decoder registered after the audit was frozen: small plain numbers
            return list(self.w.words(name, which))
        for _ in range(50):
            ws = list(self.w.words(name, which))
            for i in range(4):
                if which == 'start' and AUDIT[name]['dom'][i] == 'ioctl':
                    ws[i] = ioctl_word(self.rnd)
            free = [x for i, x in enumerate(ws) if AUDIT[name]['dom'][i + (4 if which == 'end' else 0)] is None]
            lows = [x & 0xffffffff for x in free]
            if len(set(lows)) == len(lows) and all(x > 300 for x in free):
                return list(ws)
        return list(ws)

    def alt(self, name, which, j, cur):
        """another in-domain value for word j"""
        d = AUDIT[name]['dom'][j + (4 if which == 'end' else 0)] if name in AUDIT else [0, 1, 2, 3, 5, 7]
        for _ in range(50):
            if d is None:
                v = self.rnd.choice([self.rnd.getrandbits(64), self.rnd.getrandbits(31) + 1000,
                                     self.rnd.getrandbits(16) + 301, (1 << 63) | self.rnd.getrandbits(62),
                                     # same low half / different high half and the other way round
                                     (cur & 0xffffffff) | (self.rnd.getrandbits(32) << 32),
                                     (cur & ~0xffffffff & MASK64) | self.rnd.getrandbits(32)])
            elif d == 'ioctl':
                v = ioctl_word(self.rnd) if self.rnd.random() < 0.6 else \
                    (cur & 0xffffffff) | (self.rnd.getrandbits(32) << 32)
            elif d == 'sid':
                return None
            else:
                v = self.rnd.choice(d)
            if v != cur:
                return v
        return None

    def history(self, n=4, same=None):
        """complete, in-domain syscalls of the same thread that happened BEFORE the one under test; `same`: the decoder
        under test itself is among them, with other arguments (a result remembered per code must not come back)"""
        names = sorted(k for k in AUDIT if k.startswith('BSC_') and AUDIT[k].get('cls') == 'SYS0')
        out = []
        for i in range(n):
            nm = 'BSC_umask' if self.rnd.random() < 0.35 else self.rnd.choice(names + ['BSC_sys_fcntl', 'BSC_setsid'])
            if same is not None and same in AUDIT and i in (0, n - 1):
                nm = same
            S = list(self.w.words(nm, 'start'))
            if nm == 'BSC_umask':
                S[0] = self.rnd.choice([0o22, 0o77, 0o777, 0o7777, (1 << 64) - 1])
            out.append((nm, S, self.w.words(nm, 'end')))
        return out

    def render(self, name, S, E, paths, prefix=(), nested=(), cross=None):
        w = self.w
        stream = []
        for nm, pS, pE in prefix:
            stream += [w.sys(nm, 1, 1, tuple(pS)), w.sys(nm, 2, 1, tuple(pE))]
        if cross:                       # ANOTHER operation of the thread that starts before this one and ends inside it
            stream.append(w.sys(cross[0], 1, 1, tuple(cross[1])))
        stream.append(w.sys(name, 1, 1, tuple(S)))
        for p in paths:
            stream += w.lookup(1, p, vid=7)
        stream += list(nested)          # other records of the thread inside the window
        if cross:
            stream.append(w.sys(cross[0], 2, 1, tuple(cross[2])))
        stream.append(w.sys(name, 2, 1, tuple(E)))
        p = new_parser(w)
        out = None
        try:
            for k, a in enumerate(stream, 1):
                r = p.feed(w.concrete(a, k))
                if r is not None and k == len(stream):
                    out = r
            if out is None:
                return None
            t1 = str(out)
            t2 = str(out)            # what was reported does not change when it is printed again
            if t1 != t2 and len(self.unstable) < 50:
                self.unstable.append((name, list(S), list(E), t1, t2))
            self.ncalls = getattr(self, 'ncalls', 0) + 1
            if self.ncalls % 7 == 0:
                # the same records handed over read-into style: ONE buffer the caller refills for every record, decoded
                # through a memoryview of it - an event is a copy of its record, not a window onto the buffer
                from pykdebugparser.kevent import from_kd_buf
                buf = bytearray(64)
                view = memoryview(buf)
                p2 = new_parser(w)
                out2 = None
                for k, a in enumerate(stream, 1):
                    buf[:] = w.concrete_bytes(a, k)
                    r = p2.feed(from_kd_buf(view if self.ncalls % 2 else buf))
                    if r is not None and k == len(stream):
                        out2 = r
                buf[:] = bytes(64)
                t3 = None if out2 is None else str(out2)
                if t3 != t1 and len(self.unstable) < 50:
                    self.unstable.append((name, list(S), list(E), t1, 'records read into one reused buffer: %r' % (t3,)))
            return t1
        except Exception as ex:
            if self.reraise:
                raise
            if len(self.raised) < 50:
                self.raised.append((name, list(S), list(E), repr(ex)))
            return None


def label(pr, name, S, E, paths, nalt=2):
    """observation for one probe of one decoder (see Render_Val.tla)"""
    base = pr.render(name, S, E, paths)
    tk = tokenize(base) if base is not None else None
    if tk is None:
        return {'name': name, 'shaped': False, 'text': base}
    fname, P0, R0 = tk
    n = len(P0)
    ds = [set() for _ in range(n)]
    de = [set() for _ in range(n)]
    dl = [set() for _ in range(n)]
    eq = [None] * n
    res_ds, res_de, res_dl = set(), set(), set()
    unstable = False
    runs = [(S, P0)]

    def diff(which, j, S2, E2, paths2):
        nonlocal unstable
        t = pr.render(name, S2, E2, paths2)
        k2 = tokenize(t) if t is not None else None
        if k2 is None or k2[0] != fname:
            unstable = True
            return
        if len(k2[1]) != n:
            return          # optional parameters (e.g. the mode of sem_open only with O_CREAT): this variation says nothing
        for i in range(n):
            if k2[1][i] != P0[i]:
                {'s': ds, 'e': de, 'l': dl}[which][i].add(j)
        if k2[2] != R0:
            {'s': res_ds, 'e': res_de, 'l': res_dl}[which].add(j)
        if which == 's':
            runs.append((S2, k2[1]))

    for j in range(4):
        for _ in range(nalt):
            v = pr.alt(name, 'start', j, S[j])
            if v is not None:
                S2 = list(S)
                S2[j] = v
                diff('s', j, S2, E, paths)
        for _ in range(nalt):
            v = pr.alt(name, 'end', j, E[j])
            if v is not None and not (j == 0):         # the error word is varied by the C10 probes, kept 0 here
                E2 = list(E)
                E2[j] = v
                diff('e', j, S, E2, paths)
    for j in range(len(paths)):
        p2 = list(paths)
        p2[j] = paths[j] + b'Z'
        diff('l', j, S, E, p2)
    # the rendering is a function of the operation's own records: earlier operations of the thread change nothing
    hist = pr.history(same=name)
    t_hist = pr.render(name, S, E, paths, prefix=hist)
    history_dep = t_hist != base
    params = []
    for i in range(n):
        tok = P0[i]
        v = numval(tok)
        if tok.startswith('"'):
            kind = 'path'
        elif v is not None:
            kind = 'num'
        else:
            kind = 'sym'
        e = []
        if kind == 'num':
            # the number IS argument j if ONE form (unsigned / signed, 64 / 32 bit) of word j gives it in EVERY run
            for j in range(4):
                if any(all(numval(ps[i]) is not None and numval(ps[i]) == form_values(Sx[j])[f] for Sx, ps in runs)
                       for f in ('u64', 's64', 'u32', 's32')):
                    e.append(j)
            # ... a number that stays a number, follows exactly one START word j, IS word j in the baseline, but is not
            # one fixed rendering of word j over all runs (e.g. a stale cached text): shows something else sometimes
            if not e and len(ds[i]) == 1 and all(numval(ps[i]) is not None for _, ps in runs):
                j = next(iter(ds[i]))
                if numval(runs[0][1][i]) in forms(runs[0][0][j]):
                    kind = 'num-unstable'
        params.append({'pos': i, 'kind': kind, 'ds': sorted(ds[i]), 'de': sorted(de[i]), 'dl': sorted(dl[i]), 'eq': e})
    return {'name': name, 'shaped': True, 'fname': fname, 'unstable': unstable or history_dep, 'params': params,
            'history_dep': history_dep, 'history': [h[0] for h in hist] if history_dep else [], 'text_after_history': t_hist if history_dep else '',
            'res': {'ds': sorted(res_ds), 'de': sorted(res_de), 'dl': sorted(res_dl)}, 'text': base}


def report_unstable(ctx, pr):
    """traces whose text changed when printed a second time (one-shot iterators in a field, ...)"""
    seen = set()
    for name, S, E, t1, t2 in pr.unstable:
        if name in seen:
            continue
        seen.add(name)
        ctx.violation('%s/rendering-changes-when-repeated@%s' % (ctx.prop, name),
                      '%s with START %s reads %r the first time and %r the second time' % (name, [hex(x) for x in S], t1, t2),
                      {'kind': 'render', 'name': name, 'start': [hex(x) for x in S], 'end': [hex(x) for x in E]})


def report_raised(ctx, pr):
    """renderings of in-domain records that raised: reported under the calling property (no text = no conforming text)"""
    seen = set()
    for name, S, E, exn in pr.raised:
        if name in seen:
            continue
        seen.add(name)
        ctx.violation('%s/raised@%s' % (ctx.prop, name), '%s with START %s END %s raised %s' % (name, [hex(x) for x in S], [hex(x) for x in E], exn),
                      {'kind': 'render', 'name': name, 'start': [hex(x) for x in S], 'end': [hex(x) for x in E]})
