#!/venv/bin/python
"""One-off audit of the decoder tables of the PINNED tree -> harness/audit.json (committed, frozen).
For every registered decoder: family, class used by Pairing.tla, and per word position (START 0..3, END 0..3) the
in-domain values (None = any 64-bit value accepted; else the accepted values among the candidates 0..300).
The frozen file is the definition of "individually in-domain" used by C07/C09/C10; it is NOT recomputed by checks."""
import json
import os
import sys

sys.path.insert(0, '/repo')
sys.path.insert(0, os.path.dirname(os.path.dirname(os.path.abspath(__file__))))
from harness.encode import make_event, lookup_records, global_string_records  # noqa
from pykdebugparser.trace_codes import default_trace_codes  # noqa
from pykdebugparser.traces_parser import TracesParser  # noqa
from pykdebugparser.trace_handlers import bsd, mach, dyld, fsystem, perf, trace, turnstile  # noqa

codes = default_trace_codes()
name2id = {}
for i, n in codes.items():
    name2id.setdefault(n, i)
FAM = {'bsd': bsd.handlers, 'mach': mach.handlers, 'dyld': dyld.handlers, 'fsystem': fsystem.handlers,
       'perf': perf.handlers, 'trace': trace.handlers, 'turnstile': turnstile.handlers}
CAND = list(range(0, 301)) + [1 << 16, 0x20000000, 0x40006601, 1 << 31, 0x80047601, 0xc0107702, (1 << 32) - 1, 1 << 63, (1 << 64) - 1, (1 << 64) - 2]
BIG = CAND[301:]

SYS2 = {'BSC_link', 'BSC_rename', 'BSC_mount', 'BSC_exchangedata', 'BSC_clonefileat'}
SPECIAL = {'BSC_posix_spawn': 'SPAWN', 'BSC_renameat': 'RENAMEAT', 'BSC_renameatx_np': 'RENAMEAT',
           'BSC_linkat': 'LINKAT', 'BSC_pivot_root': 'LINKAT', 'BSC_symlinkat': 'SYMLINKAT',
           'BSC_fs_snapshot': 'FSSNAP',
           'VFS_LOOKUP': 'LKP', 'TRACE_DATA_NEWTHREAD': 'NTD', 'TRACE_DATA_EXEC': 'EXD',
           'TRACE_DATA_THREAD_TERMINATE': 'TERM', 'TRACE_DATA_THREAD_TERMINATE_PID': 'TPID',
           'TRACE_STRING_GLOBAL': 'GSTR', 'TRACE_STRING_NEWTHREAD': 'NTS', 'TRACE_STRING_EXEC': 'EXS',
           'TRACE_STRING_PROC_EXIT': 'PEXIT', 'TRACE_STRING_THREADNAME': 'TNAME',
           'TRACE_STRING_THREADNAME_PREV': 'TNAMEP',
           'DBG_DYLD_TIMING_MAP_IMAGE': 'USESTR', 'DBG_DYLD_TIMING_DLOPEN': 'USESTR',
           'DBG_DYLD_TIMING_DLOPEN_PREFLIGHT': 'USESTR', 'DBG_DYLD_TIMING_DLSYM': 'USESTR',
           'MACH_vmfault': 'VMF', 'RealFaultAddressInternal': 'RFA', 'RealFaultAddressExternal': 'RFA',
           'RealFaultAddressSharedCache': 'RFA',
           'DYLD_uuid_map_a': 'MAPA', 'DYLD_uuid_shared_cache_a': 'SCA',
           'DBG_DYLD_TIMING_LAUNCH_EXECUTABLE': 'LAUNCH',
           'PERF_Event': 'PERF', 'PERF_THD_Data': 'THD', 'PERF_STK_UHdr': 'UHDR', 'PERF_STK_UData': 'UDATA'}
SID_POS = {'DBG_DYLD_TIMING_MAP_IMAGE': 1, 'DBG_DYLD_TIMING_DLOPEN': 1, 'DBG_DYLD_TIMING_DLOPEN_PREFLIGHT': 1,
           'DBG_DYLD_TIMING_DLSYM': 2}


def context_events(tid):
    evs = [make_event(1, name2id['TRACE_DATA_NEWTHREAD'], tid, (tid, 77, 0, 0)),
           make_event(2, name2id['TRACE_DATA_EXEC'], tid, (77, 0, 0, 0))]
    for q, d in global_string_records(b'gs', 0, 5):
        evs.append(make_event(3, name2id['TRACE_STRING_GLOBAL'] | q, tid, data=d))
    return evs


def window(name, sw, ew, tid=9):
    eid = name2id[name]
    evs = [make_event(10, eid | 1, tid, sw)]
    ts = 11
    for i in range(6):
        for q, d in lookup_records(b'/p%d' % i, 100 + i):
            evs.append(make_event(ts, name2id['VFS_LOOKUP'] | q, tid, data=d))
            ts += 1
    evs.append(make_event(ts, eid | 2, tid, ew))
    return evs


def run(name, sw, ew):
    p = TracesParser(codes, {}, {})
    for e in context_events(9):
        p.feed(e)
    out = None
    for e in window(name, sw, ew):
        r = p.feed(e)
        if r is not None:
            out = r
    return out


def ok(name, sw, ew):
    try:
        t = run(name, sw, ew)
        if t is None:
            return False
        str(t)
        return True
    except Exception:
        return False


def find_baseline(name):
    words = [1] * 8
    if ok(name, words[:4], words[4:]):
        return words
    # greedy search per position
    for _ in range(3):
        for pos in range(8):
            for v in [1, 0, 2, 3, 4, 5, 6, 16, 17, 0x20000000]:
                w = list(words)
                w[pos] = v
                if ok(name, w[:4], w[4:]):
                    return w
            # keep a value that at least changes the failure? try pairs below
    for a in range(8):
        for b in range(a + 1, 8):
            for va in [0, 1, 2, 5]:
                for vb in [0, 1, 2, 5]:
                    w = list(words)
                    w[a], w[b] = va, vb
                    if ok(name, w[:4], w[4:]):
                        return w
    raise RuntimeError('no baseline for %s' % name)


def main():
    audit = {}
    for fam, hs in FAM.items():
        for name in hs:
            if name not in name2id:
                audit[name] = {'family': fam, 'cls': None, 'unreachable': True}
                continue
            base = find_baseline(name)
            dom = []
            for pos in range(8):
                acc = []
                for v in CAND:
                    w = list(base)
                    w[pos] = v
                    if ok(name, w[:4], w[4:]):
                        acc.append(v)
                if len(acc) == len(CAND):
                    dom.append(None)
                else:
                    dom.append(acc)
            if name in SID_POS:
                dom[SID_POS[name]] = 'sid'
            cls = SPECIAL.get(name)
            if cls is None:
                cls = 'SYS2' if name in SYS2 else 'SYS0'
            audit[name] = {'family': fam, 'cls': cls, 'base': base, 'dom': dom}
    # SYS1: decoders whose rendering changes with the first lookup's text (and are not otherwise classified)
    for name, a in audit.items():
        if a.get('cls') != 'SYS0':
            continue
        t = run(name, a['base'][:4], a['base'][4:])
        if '/p0' in str(t):
            a['cls'] = 'SYS1'
    # path-carrying dataclass fields, in declaration order
    import dataclasses
    for name, a in audit.items():
        if a.get('cls') in ('SYS1', 'SYS2', 'SPAWN', 'RENAMEAT', 'LINKAT', 'SYMLINKAT', 'FSSNAP'):
            t = run(name, a['base'][:4], a['base'][4:])
            a['path_fields'] = [f.name for f in dataclasses.fields(t)
                                if isinstance(getattr(t, f.name), str) and getattr(t, f.name).startswith('/p')]
    audit['BSC_ioctl']['dom'][1] = 'ioctl'      # generated by harness: defined direction x any len/group/num x any upper half
    audit['BSC_posix_spawn']['path_fields'] = ['stdin', 'stdout', 'stderr', 'path']   # lookup order
    # host-typed enums: keep only values valid on Linux and Darwin alike
    HOST = {'BSC_sigaction': {0: list(range(1, 32))},
            'BSC_socket': {0: [0, 1, 2], 1: [1, 2, 3, 5]}, 'BSC_socketpair': {0: [0, 1, 2], 1: [1, 2, 3, 5]},
            'BSC_socket_delegate': {0: [0, 1, 2], 1: [1, 2, 3, 5]}}
    for name, d in HOST.items():
        for pos, vals in d.items():
            audit[name]['dom'][pos] = vals
    out = os.path.join(os.path.dirname(os.path.dirname(os.path.abspath(__file__))), 'harness', 'audit.json')
    with open(out, 'w') as f:
        json.dump(audit, f, indent=0, sort_keys=True)
    from collections import Counter
    print(Counter(a.get('cls') for a in audit.values()))
    print('constrained positions:', sum(1 for a in audit.values() for d in a.get('dom', []) if d is not None))
    print('unreachable:', [n for n, a in audit.items() if a.get('unreachable')])


if __name__ == '__main__':
    main()
