#!/venv/bin/python
"""Re-run the checks against every confirmed seeded change in /verif/seeded under the given seeds (detection must not
depend on the seed).  usage: tools/seed_rerun.py [seed ...] [--only=C05,C07_agent3]   Scratch worktrees under /tmp, removed afterwards."""
import glob
import json
import os
import subprocess
import sys

VERIF = os.path.dirname(os.path.dirname(os.path.abspath(__file__)))
seeds = [int(x) for x in sys.argv[1:] if not x.startswith('--')] or [1]
only = [x[7:].split(',') for x in sys.argv[1:] if x.startswith('--only=')]
only = only[0] if only else None
bad = 0
for meta in sorted(glob.glob(os.path.join(VERIF, 'seeded', '*', 'meta.json'))):
    m = json.load(open(meta))
    d = os.path.dirname(meta)
    if only and not any(m['name'].startswith(o) for o in only):
        continue
    if not m.get('confirmed', True):
        continue
    wt = '/tmp/sr_%s_%d' % (m['name'], os.getpid())
    subprocess.run('git -C /repo worktree remove --force %s' % wt, shell=True, capture_output=True)
    subprocess.run('git -C /repo worktree add -q %s HEAD' % wt, shell=True, check=True)
    try:
        subprocess.run('git apply %s/patch.diff' % d, shell=True, cwd=wt, check=True)
        checks = m.get('caught_by') or [m['property']]
        for s in seeds:
            hit = False
            for c in checks:
                env = dict(os.environ, VERIF_REPO=wt, VERIF_NO_EVIDENCE='1', VERIF_SEED=str(s))
                p = subprocess.run([os.path.join(VERIF, 'check'), c], cwd=VERIF, env=env, stdout=subprocess.PIPE,
                                   stderr=subprocess.STDOUT, text=True)
                if p.returncode == 1:
                    hit = True
                    break
            print('%-12s seed=%d %s' % (m['name'], s, 'caught by ' + c if hit else 'MISSED (rc=%d)' % p.returncode), flush=True)
            bad += 0 if hit else 1
    finally:
        subprocess.run('git -C /repo worktree remove --force %s' % wt, shell=True, capture_output=True)
print('seed_rerun: %d misses' % bad)
sys.exit(1 if bad else 0)
