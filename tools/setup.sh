#!/bin/sh
# Offline setup: nothing to build; syntax-check every specification with SANY and smoke-test the harness imports.
set -e
cd "$(dirname "$0")/.."
mkdir -p evidence replays work
fail=0
cd spec
for f in *.tla; do
  if ! tla-sany "$f" > ../work/sany.log 2>&1 || grep -q "\*\*\* Errors\|Fatal errors" ../work/sany.log; then
    echo "SANY failed on $f"; tail -20 ../work/sany.log; fail=1
  fi
done
cd ..
/venv/bin/python -c "import sys; sys.path.insert(0,'.'); import harness.common, harness.tlc, harness.encode; print('harness ok')"
rm -f work/sany.log
[ $fail = 0 ] && echo "setup ok"
exit $fail
