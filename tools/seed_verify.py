#!/venv/bin/python
"""Confirm a seeded breakage written by a sub-agent and run the checks against it.
usage: tools/seed_verify.py <Cxx> [<name>] [--checks C04,C07]
 reads /tmp/seed_out/<Cxx>/{patch.diff,demo.py,notes.txt}; works in a scratch worktree of /repo (removed afterwards);
 writes /verif/seeded/<name>/{patch.diff,demo.py,notes.txt,meta.json}."""
import json
import os
import shutil
import subprocess
import sys

VERIF = os.path.dirname(os.path.dirname(os.path.abspath(__file__)))


def sh(cmd, cwd=None, env=None, timeout=3600):
    p = subprocess.run(cmd, shell=True, cwd=cwd, env=env, stdout=subprocess.PIPE, stderr=subprocess.STDOUT, text=True,
                       timeout=timeout)
    return p.returncode, p.stdout


def main():
    prop = sys.argv[1]
    args = [a for a in sys.argv[2:] if not a.startswith('--')]
    name = args[0] if args else prop + '_agent1'
    checks = [prop]
    for a in sys.argv[2:]:
        if a.startswith('--checks'):
            checks = a.split('=', 1)[1].split(',')
    src = os.environ.get('SEED_SRC', '/tmp/seed_out/%s' % prop)
    wt = '/tmp/sv_%s' % name
    sh('git -C /repo worktree remove --force %s' % wt)
    rc, out = sh('git -C /repo worktree add -q %s HEAD' % wt)
    assert rc == 0, out
    meta = {'property': prop, 'name': name, 'source': 'independent sub-agent given only the property text'}
    try:
        rc0, out0 = sh('/venv/bin/python %s/demo.py' % src, cwd=wt)
        rc, out = sh('git apply %s/patch.diff' % src, cwd=wt)
        assert rc == 0, 'patch does not apply: ' + out
        rct, outt = sh('/venv/bin/python -m pytest -q -p no:cacheprovider', cwd=wt)
        rc1, out1 = sh('/venv/bin/python %s/demo.py' % src, cwd=wt)
        meta['repo_tests_pass_with_patch'] = rct == 0
        meta['tests_tail'] = outt.strip().splitlines()[-1] if outt.strip() else ''
        meta['demo_exit_unchanged'] = rc0
        meta['demo_exit_with_patch'] = rc1
        meta['demo_output_with_patch'] = out1[-600:]
        meta['checks'] = {}
        env = dict(os.environ, VERIF_REPO=wt, VERIF_NO_EVIDENCE='1')
        for c in checks:
            rcc, outc = sh('%s/check %s' % (VERIF, c), cwd=VERIF, env=env)
            sigs = [l.strip()[len('signature: '):] for l in outc.splitlines() if l.strip().startswith('signature:')]
            meta['checks'][c] = {'exit': rcc, 'signatures': sigs[:6]}
        confirmed = rct == 0 and rc0 == 0 and rc1 != 0
        meta['confirmed'] = confirmed
        meta['caught_by'] = [c for c, r in meta['checks'].items() if r['exit'] == 1]
        meta['ran'] = ['demo on unchanged tree', 'git apply', 'repo test suite', 'demo with patch'] + ['./check %s (quick) with VERIF_REPO=<patched worktree>' % c for c in checks]
        try:
            meta['needs'] = open(os.path.join(src, 'notes.txt')).read()[:1500]
        except OSError:
            meta['needs'] = ''
        print(json.dumps({k: v for k, v in meta.items() if k not in ('needs', 'demo_output_with_patch')}, indent=1))
        if confirmed:
            dst = os.path.join(VERIF, 'seeded', name)
            os.makedirs(dst, exist_ok=True)
            for f in ('patch.diff', 'demo.py', 'notes.txt'):
                if os.path.exists(os.path.join(src, f)) and os.path.abspath(src) != os.path.abspath(dst):
                    shutil.copy(os.path.join(src, f), dst)
            old = {}
            if os.path.exists(os.path.join(dst, 'meta.json')):
                old = json.load(open(os.path.join(dst, 'meta.json')))
            for k in ('round', 'history'):
                if k in old:
                    meta[k] = old[k]
            with open(os.path.join(dst, 'meta.json'), 'w') as f:
                json.dump(meta, f, indent=1)
    finally:
        sh('git -C /repo worktree remove --force %s' % wt)
        shutil.rmtree(wt, ignore_errors=True)


if __name__ == '__main__':
    main()
