#!/venv/bin/python
"""Regenerate /verif/MANIFEST.json from the table below (single source of truth for the interface)."""
import json
import os

VERIF = os.path.dirname(os.path.dirname(os.path.abspath(__file__)))

CHECKS = {
    'C01': dict(
        technique='TLA+ transcription of the record layout model-checked by TLC (rebuild, locality); '
                  'implementation traces validated against the spec by TLC (fold over recorded decodes)',
        text='TLC exhaustively checks on KdRecord.tla that the layout/mask design satisfies rebuild, id|qualifier '
             'reassembly and byte locality for every byte position x every byte value on base records; the code is bound '
             'by validating from_kd_buf on the same case table plus random records against KdRecord!Decode in TLC.',
        note='not 2^512 inputs: structured enumeration (each input byte through all 256 values) + locality shown on the '
             'transcription; int<->bytes conversion by Python trusted',
        design='5/C01'),
}
CHECKS.update({
    'C04': dict(
        technique='TLC model checking of Pairing.tla (mechanism Step == property stated on the history, all sequences '
                  'over 2 threads x every code kind x 4 qualifiers); TLC-exported behaviours replayed into TracesParser; '
                  'recorded executions of random streams validated against the spec by TLC',
        text='Exhaustive inside the bounds for the design (every event sequence up to depth 4-5), and every explored '
             'transition becomes an implementation check: emission timing and exact window after every fed event, in both '
             'binding directions.',
        note='bounds: depth 4 (quick) / 5 (thorough) exhaustive, depth 10 simulated, random streams <= 60 events over 3 '
             'threads; event identity = object identity; stray ENDs in windows / swallowed fragments tolerated either way',
        design='5/C04'),
    'C08': dict(
        technique='TLC model checking of the kernel chunking + reassembly (Chunks_MC over Pairing.tla, every length '
                  '0..184 x header kind x gap records, negative control); recorded executions validated against '
                  'Pairing!Step by TLC in full mode (fields, assignments)',
        text='Reassembly is checked exhaustively on the spec for every text length; the code is bound by validating, in '
             'TLC, executions for every path-taking decoder x number of lookups x boundary lengths x gap records.',
        note='chunk encoders follow XNU (trusted); malformed chunk sequences are wildcards; no trace-domain record '
             'between chunks of one string on one thread',
        design='5/C08'),
})
CHECKS.update({
    'C05': dict(
        technique='TLC model checking of Interleave_MC (all pairs/triples of per-thread programs x ALL interleavings, '
                  'invariant log[t] = Solo(prefix), negative control with the parser-wide slot); every exported '
                  'schedule replayed on TracesParser; random programs: interleaved vs solo runs of the code and '
                  'validation of interleaved runs against Pairing!Step in TLC (relational: a deviation counts only when the same programs run alone do not deviate)',
        text='All interleavings inside the bounds are explored on the design (where the parser-wide slot defect shows '
             'as a 3-step counterexample), every explored schedule is replayed on the code, and richer random programs '
             'over all decoder families are compared solo vs interleaved.',
        note='programs <= 3 templates x 2 threads (quick) / 3 threads (thorough) exhaustively; cross-thread reads '
             '(thread-terminate pid/name, dyld string ids) masked as the statement carves out',
        design='5/C05'),
    'C07': dict(
        technique='TLC model checking of Context_MC (every history over consumers and providers of context: totality '
                  'of Pairing!Step + omit rule); recorded executions of every registered decoder without context, '
                  'consumer x provider subsets, noisy streams and all their dropped prefixes validated by TLC; same '
                  'streams through PyKdebugParser.formatted_traces',
        text='The spec has no error state, so any exception of the code is a divergence; TLC enumerates the omission '
             'space on the design, the harness instantiates the consumer slots with every registered decoder.',
        note='in-domain arguments from the frozen audit; valid UTF-8 strings; bounds: histories <= 5-6 (TLC), streams '
             '<= 50 events (code)',
        design='5/C07'),
    'C20': dict(
        technique='TLC model checking of Composite_MC (VmfExact, LaunchExact, PerfExact on every sequence of nested '
                  'records); systematic and random composite windows recorded from the code and validated against '
                  'Pairing!Step in TLC (full mode)',
        text='Every order/multiplicity of nested records up to depth 5-6 on the design; every systematic window shape '
             '(kinds x orders x flags x header counts) on the code.',
        note='undecoded-first real-fault record: pid/protection wildcard; tie order of equal load addresses not pinned',
        design='5/C20'),
})
CHECKS.update({
    'C02': dict(
        technique='TLC model checking of Container_MC (histories of parses on one reader state over generated '
                  'structural files: YieldsExact, NoResidue, TablesAreTheMap); parse histories of encoded files '
                  'recorded from KdBufParser / PyKdebugParser and validated against Container!ParseFile in TLC',
        text='Histories of parses on shared tables are explored exhaustively on the design; the code is bound by '
             'validating real parse histories (1-3 files on one object, three ways of sharing the tables) in TLC.',
        note='encoder trusted; zero-leading first records are a recorded known finding (C02/pad-eats-record-head); '
             'first record never all-zero (ambiguous with padding)',
        design='5/C02'),
    'C03': dict(
        technique='TLC model checking of Container_MC (every chunking, every block sequence over the 7 tags, record values '
                  'that repeat inside / across chunks: YieldsExact, ChunkingInvariance, MetaExact, LogStringsResolved, '
                  'LogsExtendTables; negative control DedupChunkHead); parse histories of encoded '
                  'v3 files validated against Container!ParseFile in TLC',
        text='Chunkings, block orders/multiplicities and log/table interplay explored on the design; real v3 byte '
             'files (fillers with tag prefixes and decoy tags, equal neighbouring records, headers of every alignment) bind the code.',
        note='v3 layout has no independent reference (follows the parser declarative structs); <= 1 string index block',
        design='5/C03'),
})
CHECKS.update({
    'C06': dict(
        technique='TLC model checking of Truncation.tla (byte-grain reader with explicit seek loop: every layout of a '
                  'family x every cut; safety + LIVENESS under weak fairness; negative control lasso); every cut '
                  'offset of real v2/v3 dumps run through 4 public APIs under a counting reader, each run validated '
                  'against the segment program of Truncation_Val in TLC',
        text='Termination is a liveness property: TLC checks <>stopped for every cut of every layout on the design and '
             'shows the lasso of the unrepaired seek loop; on the code every truncation offset is enumerated (fault '
             'enumeration bound to the spec by validation of each run).',
        note='scaled sizes in the exhaustive model; real sizes in validation; read budget 4*len+4096 calls; prefix '
             'claim on events/traces/lines',
        design='5/C06'),
})
CHECKS.update({
    'C15': dict(
        technique='TLC model checking of Callstacks_MC (image table as a function of the set of first announcements, '
                  'attribution = greatest load address <= frame); TLC-exported behaviours replayed on the real '
                  'TracesParser->CallstacksParser chain; recorded executions validated against Pairing!Step o CsStep '
                  'in TLC; all announcement permutations compared on the code',
        text='Order independence is an invariant of the design checked over all announcement sequences; both binding '
             'directions tie the code to it, after every input.',
        note='addresses BASE + x*0x1000; stand-alone shared-cache records outside launch windows not generated',
        design='5/C15'),
})
CHECKS.update({
    'C12': dict(
        technique='TLC model checking of Pipeline_MC (KeventsExact on every dump x filter configuration); recorded '
                  'kevents / log listings of seeded v2 and v3 dumps validated against Pipeline!ReqKevents / ReqLogs in TLC',
        text='The filter semantics (class = top byte, subclass = top 16 bits, disjunction, empty lists = no filter) is '
             'model-checked on the design and every recorded listing must be the exact subsequence the spec selects.',
        note='event identity by unique timestamps; filter values from small sets incl. absent / duplicated / overlapping',
        design='5/C12'),
    'C13': dict(
        technique='TLC model checking of Pipeline_MC (mechanism with helper classes == reference selection from the '
                  'unfiltered run, repeat-same, settings kept, callstack repeat; four negative controls = the designs '
                  'of the pinned tree); request histories on one PyKdebugParser recorded and validated against '
                  'Pipeline!RefTraces / CsFold in TLC; trace text compared with the unfiltered run of the code; '
                  'Sessions_MC at generator grain (negative controls clsOnObject, namesOnObject) with TLC-exported schedules '
                  'replayed on the real object and judged by Sessions_Val in TLC',
        text='TLC finds the design-level counterexamples of the pinned tree (thread pre-filter, missing PERF helper, '
             'mutated caller list, image residue) and proves the repaired mechanism equal to the property inside the '
             'bounds; the code is bound by validating real request histories, incl. use-before-definition dumps requested '
             'repeatedly on one object (a record read before the record that names its thread).',
        note='BSD subclass filters only (statement scope); trace identity = (completing event, first event)',
        design='5/C13'),
})
CHECKS.update({
    'C14': dict(
        technique='TLC model checking of Format_MC (process column = latest declaration for the emitting thread, stated '
                  'on the history, over all dumps of map-updating records; column composition over all 2^6 subsets); '
                  'all 2^6 x colour configurations of four listings rendered from the code and checked for composition; '
                  'process columns parsed from formatted lines validated against Pipeline!ProcCol at emission in TLC',
        text='The "at that point of the stream" semantics is model-checked against a declarative history reading, and '
             'the code is bound by validating the parsed process column of every formatted trace line.',
        note='trailing whitespace not compared; plain event listing uses the thread map only (statement carve-out)',
        design='5/C14'),
    'C19': dict(
        technique='TLC model checking of CodeTable_MC (exactly the pairs, last wins, spelling irrelevant); texts parsed '
                  'by the code validated against CodeTable!FromText in TLC; streams decoded under supplied tables '
                  '(omitted and permuted ids) validated against Pairing!Step with classes taken from the table',
        text='Table text semantics enumerated on the design; the supplied-table indirection is bound by decoding under '
             'permuted tables and validating every step.',
        note='ids as canonical hex digit sequences (TLC ints are 32-bit); vmfault composite ids not permuted',
        design='5/C19'),
})
CHECKS.update({
    'C09': dict(
        technique='TLC model checking of Render_MC (soundness of differential labelling on an abstract renderer over '
                  'every signature of arity <= 4); labelled renderings of every BSD syscall / Mach trap decoder '
                  '(one-at-a-time variation of every START word, END word and lookup) validated by '
                  'Render!PositionVerdict in TLC',
        text='The position rule is decided per decoder on labels extracted from the code by differential probing; TLC '
             'shows on the abstract renderer that these labels are judged "ok" exactly for position-faithful signatures.',
        note='numeric formatting of 64-bit ints by Python trusted; in-domain arguments from the frozen audit; not all '
             '2^256 argument tuples: distinct random 64-bit words + boundary values, each word varied alone',
        design='5/C09'),
    'C10': dict(
        technique='TLC model checking of the serialize_result transcription (ResultOK for every error word, three '
                  'negative controls); result texts of every BSD decoder x 112 error words parsed into parts and '
                  'validated by Render_Val!ResultVerdict in TLC',
        text='Precedence and END-only dependence are enumerated on the transcription and checked on every decoder for '
             'every errno 1..106, unknown and huge codes, with dependency measurement by one-at-a-time variation.',
        note='exempt list exactly the statement\'s; the errno NAME is judged by C18; quoted output paths in results ignored',
        design='5/C10'),
    'C18': dict(
        technique='TLC model checking of Host_MC over DarwinTables.tla (host-independent rendering, negative control with '
                  'host-indexed tables); decoders re-imported under four substituted host platforms, every number '
                  'rendered, texts compared across hosts and names validated against the Darwin tables in TLC',
        text='Host platforms are modelled by substituting the errno / signal / socket modules; all codes in range are '
             'enumerated under each.',
        note='Darwin constants transcribed from memory of XNU headers (only certain entries used)',
        design='5/C18'),
})
CHECKS.update({
    'C11': dict(
        technique='TLC model checking of Flags_MC over frozen Darwin tables (every subset of declared bits per family, '
                  'undeclared bits, every multi-bit field value, ioctl field grid; three negative controls); real '
                  'helpers and renderings evaluated on the same words and validated by Flags!FlagVerdict / IocVerdict in TLC',
        text='Words are sets of bit positions, so "every subset of declared bits" is literally enumerated on the '
             'transcription of the helper algorithms; the code is bound by validating what it shows for each word.',
        note='families with > 16 declared bits: subsets of size <= 2 and complements + random words; ioctl: each field '
             'exhaustively against representatives, not all 2^32 words; undefined field values are wildcards',
        design='5/C11'),
    'C17': dict(
        technique='TLC evaluation of the table invariants on the decoder configuration extracted from the working tree '
                  '(Tables.tla) and model checking of the lookup design (Tables_MC); twin decoders rendered on seeded '
                  'tuples and compared',
        text='All 469 registered names, all table lines and all decoder functions are enumerated (a finite, complete '
             'space); twin equivalence is sampled over argument tuples.',
        note='"registered" includes functions bound by partial or called from a registered function of the module',
        design='5/C17'),
})
CHECKS.update({
    'C16': dict(
        technique='TLC model checking of LogDecode_MC (trace-identifier Unpack = inverse of Pack over every defined '
                  'namespace x type x flag subset x pc_style x booleans; key table bijection); records for key subsets '
                  '(empty, singletons, all pairs, complements, full, random) decoded directly and through a v3 dump, '
                  'projected and validated against LogDecode!Xf / DefaultOf in TLC',
        text='The bit packing is enumerated completely over the defined values; the 2^31 key subsets are covered by '
             'all subsets of size <= 2 and >= 30 plus seeded random ones, each field checked against its key.',
        note='not all 2^31 subsets; values distinct per key; decomposed-message argument rules as read from the format; '
             'host time zone set to non-UTC during the check',
        design='5/C16'),
})
PENDING = {}

ALL = ['C%02d' % i for i in range(1, 21)]


# generator-grain / object-identity specifications added after the seeding rounds 5-7 (DESIGN.md section 5, first paragraph)
SESS = ('; TLC model checking of Sessions_MC (the parser object at generator grain: every schedule of requests, single next() '
        'calls and option changes over 2-3 live listings, misplaced-state variants rejected) and validation of recorded '
        'sessions of the real object by the state-machine validator Sessions_Val')
READ = ('; TLC model checking of Readers_MC (several reader objects, own / shared table pairs, listings read in any order) and '
        'validation of recorded reader sessions by Readers_Val')
DISP = ('; TLC model checking of Dispatch_MC (decoder, pairing domain and helper records = function of the fed object\'s own '
        'code table; memo variants rejected) with TLC-exported behaviours replayed on real parser and dict objects')
EXTRA = {'C02': READ, 'C03': READ, 'C16': READ, 'C06': SESS, 'C12': SESS, 'C13': SESS, 'C14': SESS, 'C15': SESS,
         'C19': SESS + DISP, 'C07': SESS + DISP, 'C04': DISP, 'C10': DISP, 'C17': DISP, 'C20': DISP}


def main():
    checks = []
    for pid in ALL:
        if pid not in CHECKS:
            continue
        c = CHECKS[pid]
        checks.append({
            'property_id': pid,
            'quick_cmd': './check %s --tier quick' % pid,
            'thorough_cmd': './check %s --tier thorough' % pid,
            'evidence_file': 'evidence/%s.json' % pid,
            'replay_cmd_template': './check %s --replay {path}' % pid,
            'engine': 'tlc+harness',
            'level_claimed': {'category': 'model_checking', 'text': c['text'], 'design_ref': 'DESIGN.md §' + c['design']},
            'level_note': c['note'],
            'technique': c['technique'] + EXTRA.get(pid, ''),
        })
    na = [{'property_id': p, 'reason': PENDING.get(p, 'check not built yet in this round (planned, see DESIGN.md §5)')}
          for p in ALL if p not in CHECKS]
    m = {
        'version': 1,
        'setup_cmd': './tools/setup.sh',
        'hooks': {
            'guard': 'PYKDEBUGPARSER_VERIF',
            'enable': 'no source hooks: every observable is reached through public API; checks import /repo working tree '
                      'in a fresh interpreter (sys.path[0]=/repo) with PYKDEBUGPARSER_VERIF=1 set (unused by the repo)',
            'baseline_off_cmd': 'cd /repo && /venv/bin/python -m pytest -ra -q -p no:cacheprovider --timeout=900 '
                                '--continue-on-collection-errors',
            'source_commits': [],
            'add_only': True,
        },
        'engines': [{
            'name': 'tlc+harness', 'path': 'check',
            'serves_properties': [c['property_id'] for c in checks],
            'kind_free_text': 'explicit TLA+ specifications in spec/ checked by TLC 1.8 (M |= P, negative controls), bound to '
                              'the code by trace validation (observations of the real code folded through the spec Step '
                              'operators inside TLC) and by replay of TLC-exported behaviours into the code',
        }],
        'checks': checks,
        'not_applicable': na,
        'notes': 'exit 0 held / exit 1 VIOLATION / exit 2 machinery failure (an exception escaping from the package under test is a VIOLATION). VERIF_SEED and VERIF_TIER honoured. Each check reports the clauses its own statement pins (DESIGN.md 2.1, clause ownership). '
                 'known findings: known_findings.json.',
    }
    with open(os.path.join(VERIF, 'MANIFEST.json'), 'w') as f:
        json.dump(m, f, indent=1)
    print('MANIFEST: %d checks, %d not applicable/pending' % (len(checks), len(na)))


if __name__ == '__main__':
    main()
