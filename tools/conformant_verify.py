#!/venv/bin/python
"""Run the checks against a PROPERTY-CONFORMANT change written by a sub-agent (a realistic refactoring / optimisation /
robustness change under which the property still holds): every check named must stay SILENT (exit 0).
usage: tools/conformant_verify.py <Cxx> [<name>] [--checks C04,C07] [--all]
 reads $SEED_SRC (default /tmp/seed_out10/<Cxx>)/{patch.diff,demo.py,notes.txt}; works in a scratch worktree of /repo
 (removed afterwards); writes /verif/conformant/<name>/{patch.diff,demo.py,notes.txt,meta.json}.
An alarm here is either a false alarm of the machinery (to be corrected) or a change that is NOT conformant after all
(recorded with verdict and reason by hand in meta.json: "judgement")."""
import json
import os
import shutil
import subprocess
import sys

VERIF = os.path.dirname(os.path.dirname(os.path.abspath(__file__)))
ALL = ['C%02d' % i for i in range(1, 21)]


def sh(cmd, cwd=None, env=None, timeout=7200):
    p = subprocess.run(cmd, shell=True, cwd=cwd, env=env, stdout=subprocess.PIPE, stderr=subprocess.STDOUT, text=True,
                       timeout=timeout)
    return p.returncode, p.stdout


def main():
    prop = sys.argv[1]
    args = [a for a in sys.argv[2:] if not a.startswith('--')]
    name = args[0] if args else prop + '_conf10'
    checks = [prop]
    for a in sys.argv[2:]:
        if a.startswith('--checks'):
            checks = a.split('=', 1)[1].split(',')
        if a == '--all':
            checks = [prop] + [c for c in ALL if c != prop]
    dst = os.path.join(VERIF, 'conformant', name)
    src = os.environ.get('SEED_SRC', '/tmp/seed_out10/%s' % prop)
    if not os.path.exists(os.path.join(src, 'patch.diff')):
        src = dst
    wt = '/tmp/cv_%s' % name
    sh('git -C /repo worktree remove --force %s' % wt)
    rc, out = sh('git -C /repo worktree add -q %s HEAD' % wt)
    assert rc == 0, out
    meta = {'property': prop, 'name': name, 'kind': 'property-conformant change (expected: every check silent)',
            'source': 'independent sub-agent given only the property text'}
    try:
        rc0, out0 = sh('/venv/bin/python %s/demo.py' % src, cwd=wt)
        rc, out = sh('git apply %s/patch.diff' % src, cwd=wt)
        assert rc == 0, 'patch does not apply: ' + out
        rct, outt = sh('/venv/bin/python -m pytest -q -p no:cacheprovider', cwd=wt)
        rc1, out1 = sh('/venv/bin/python %s/demo.py' % src, cwd=wt)
        meta['repo_tests_pass_with_patch'] = rct == 0
        meta['tests_tail'] = outt.strip().splitlines()[-1] if outt.strip() else ''
        meta['demo_exit_unchanged'] = rc0
        meta['demo_exit_with_patch'] = rc1
        meta['checks'] = {}
        env = dict(os.environ, VERIF_REPO=wt, VERIF_NO_EVIDENCE='1')
        for c in checks:
            rcc, outc = sh('%s/check %s' % (VERIF, c), cwd=VERIF, env=env)
            sigs = [l.strip()[len('signature: '):] for l in outc.splitlines() if l.strip().startswith('signature:')]
            meta['checks'][c] = {'exit': rcc, 'signatures': sigs[:8]}
            print(name, c, 'exit', rcc, sigs[:4], flush=True)
        meta['alarms'] = [c for c, r in meta['checks'].items() if r['exit'] != 0]
        try:
            meta['notes'] = open(os.path.join(src, 'notes.txt')).read()[:2500]
        except OSError:
            meta['notes'] = ''
        os.makedirs(dst, exist_ok=True)
        for f in ('patch.diff', 'demo.py', 'notes.txt'):
            if os.path.exists(os.path.join(src, f)) and os.path.abspath(src) != os.path.abspath(dst):
                shutil.copy(os.path.join(src, f), dst)
        old = {}
        if os.path.exists(os.path.join(dst, 'meta.json')):
            old = json.load(open(os.path.join(dst, 'meta.json')))
        for k in ('judgement', 'history'):
            if k in old:
                meta[k] = old[k]
        if old.get('checks'):
            merged = dict(old['checks'])
            merged.update(meta['checks'])
            meta['checks'] = merged
            meta['alarms'] = [c for c, r in merged.items() if r['exit'] != 0]
        with open(os.path.join(dst, 'meta.json'), 'w') as f:
            json.dump(meta, f, indent=1)
        print(name, 'tests', rct, 'demo', rc0, rc1, 'ALARMS', meta['alarms'])
    finally:
        sh('git -C /repo worktree remove --force %s' % wt)
        shutil.rmtree(wt, ignore_errors=True)


if __name__ == '__main__':
    main()
