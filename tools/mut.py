#!/venv/bin/python
"""Development aid (not part of MANIFEST): apply a named source mutation to a scratch copy of /repo (outside /repo
and /verif), run the given checks against it with VERIF_REPO, report whether each raised a VIOLATION, delete the copy.
usage: tools/mut.py <mutant> [check ...]   |   tools/mut.py --list   |  tools/mut.py --all"""
import os
import shutil
import subprocess
import sys
import tempfile

VERIF = os.path.dirname(os.path.dirname(os.path.abspath(__file__)))
P = 'pykdebugparser/'
# name: (file, old, new, [checks expected to catch])
MUTANTS = {
    'mask8': (P + 'kevent.py', '0xfffffffc', '0xfffffff8', ['C01']),
    'tid_dbg_swap': (P + 'kevent.py', "timestamp, args_buf, tid, debugid, cpuid, unused = struct.unpack(KD_BUF_FORMAT, kd_buf)",
                     "timestamp, args_buf, tid, debugid, cpuid, unused = struct.unpack('<Q32sQIIQ', kd_buf[:40] + kd_buf[48:56] + kd_buf[40:48] + kd_buf[56:])", ['C01']),
    'nopop': (P + 'traces_parser.py', 'events = state[event.tid].pop(event.eventid)', 'events = state[event.tid][event.eventid]', ['C04']),
    'key_by_code': (P + 'traces_parser.py', "        for eventid in state.get(event.tid, {}):\n            state[event.tid][eventid].append(event)",
                    "        for tid in state:\n            for eventid in state[tid]:\n                state[tid][eventid].append(event)", ['C04', 'C05']),
    'stray_end_appended': (P + 'traces_parser.py', "            # Event end without start.\n            return",
                           "            # Event end without start.\n            for eventid in state.get(event.tid, {}):\n                state[event.tid][eventid].append(event)\n            return", []),
    'start_no_reset': (P + 'traces_parser.py', "        state[event.tid][event.eventid] = []\n", "        state[event.tid].setdefault(event.eventid, [])\n", ['C04']),
    'domains_merged': (P + 'traces_parser.py', "return self.qualifiers_actions[event.func_qualifier](event, self.on_going_traces)",
                       "return self.qualifiers_actions[event.func_qualifier](event, self.on_going_events)", ['C04']),
    'lookup_hdr_every_chunk': (P + 'traces_parser.py', "            else:\n                path += event.data\n", "            else:\n                path += event.data[8:]\n", ['C08']),
    'lookup_end_ignored': (P + 'traces_parser.py', "if event.func_qualifier & DgbFuncQual.DBG_FUNC_END.value:\n                yield",
                           "if event.func_qualifier == DgbFuncQual.DBG_FUNC_ALL.value:\n                yield", ['C08']),
    'shared_slot': (P + 'trace_handlers/trace.py', "parser.last_data_newthread[events[0].tid] = event", "parser.last_data_newthread = {events[0].tid: event, 0: event}\n    parser.last_data_newthread.get = lambda k, d=None, e=event: e", ['C05']),
    'unswallow_lookup': (P + 'trace_handlers/fsystem.py', "        return None\n", "        pass\n", ['C08']),
    'spawn_unguarded': (P + 'trace_handlers/bsd.py', "        path = vnode_path(vnodes, 0)", "        path = vnodes[0].path", ['C07']),
    'second_path_is_last': (P + 'trace_handlers/bsd.py', "def handle_rename(parser, events):\n    old_vnode = parser.parse_vnode(events)\n    new_vnode = parser.parse_vnode([e for e in events if e not in old_vnode.ktraces])",
                            "def handle_rename(parser, events):\n    old_vnode = parser.parse_vnode(events)\n    new_vnode = (parser.parse_vnodes(events) or [old_vnode])[-1]", ['C08']),
    'launch_unsorted': (P + 'trace_handlers/dyld.py', "    map_a = sorted(map_a, key=lambda x: x.load_addr)\n", "", ['C20']),
    'vmf_last_real': (P + 'trace_handlers/mach.py', "vm_fault_real = parser.parse_event_list(real_events)", "vm_fault_real = parser.parse_event_list(real_events[-1:])", ['C20']),
    'perf_no_truncate': (P + 'trace_handlers/perf.py', "[:header.nframes]", "", ['C20', 'C15']),
    'perf_thinfo_always': (P + 'trace_handlers/perf.py', "if SamplerAction.SAMPLER_TH_INFO in e.sample_what:", "if True:", ['C20']),
    'bisect_left': (P + 'callstacks_parser.py', "index_ = bisect(self.dyld_addresses, frame) - 1", "from bisect import bisect_left\n                    index_ = bisect_left(self.dyld_addresses, frame) - 1", ['C15']),
    'dup_replaces': (P + 'callstacks_parser.py', "        if address in self.dyld_addresses:\n            return\n",
                     "        if address in self.dyld_addresses:\n            self.dyld_uuids[self.dyld_addresses.index(address)] = uuid\n            return\n", ['C15']),
    'v3_drop_last_record': (P + 'kd_buf_parser.py', "for _ in range(size // KEVENT_SIZE):", "for _ in range(max(size // KEVENT_SIZE - 1, 0)):", ['C03']),
    'more_events_cut': (P + 'kd_buf_parser.py', "            if reader.read(len(TRACEV3_MORE_EVENTS)) != TRACEV3_MORE_EVENTS:\n                break", "            reader.read(len(TRACEV3_MORE_EVENTS))\n            break", ['C03']),
    'codes_replace': (P + 'kd_buf_parser.py', "self.trace_codes += block.data.decode()", "self.trace_codes = block.data.decode()", ['C03']),
    'kexts_replace': (P + 'kd_buf_parser.py', "self.kernel_extensions['Binaries'].extend(plistlib.loads(block.data)['Binaries'])", "self.kernel_extensions = plistlib.loads(block.data)", ['C03']),
    'map_not_cleared': (P + 'kd_buf_parser.py', "        self.threads_pids.clear()\n        self.pids_names.clear()\n", "", ['C02']),
    'first_entry_wins': (P + 'kd_buf_parser.py', "            self.threads_pids[thread.tid] = thread.pid", "            self.threads_pids.setdefault(thread.tid, thread.pid)", ['C02']),
    'v2_skip_first': (P + 'kd_buf_parser.py', "        self.set_thread_map(parsed_header.threadmap)\n        while True:", "        self.set_thread_map(parsed_header.threadmap)\n        reader.read(KEVENT_SIZE)\n        while True:", ['C02']),
    'log_no_table_ext': (P + 'kd_buf_parser.py', "if log_event.process and log_event.thread_identifier:", "if False:", ['C03']),
    'dyld_replace': (P + 'kd_buf_parser.py', "                if not self.dyld_modules:\n                    self.dyld_modules.update(data)\n                else:\n                    self.dyld_modules['Binaries'].extend(data['Binaries'])", "                self.dyld_modules = data", ['C03']),
    'short_record_padded': (P + 'kd_buf_parser.py', "                buf = reader.read(KEVENT_SIZE)\n                yield from_kd_buf(buf)", "                buf = reader.read(KEVENT_SIZE).ljust(KEVENT_SIZE, b'\\x00')\n                yield from_kd_buf(buf)", ['C06']),
    'v2_short_record_padded': (P + 'kd_buf_parser.py', "            if not buf:\n                break\n            yield from_kd_buf(buf)", "            if not buf:\n                break\n            yield from_kd_buf(buf.ljust(KEVENT_SIZE, b'\\x00'))", ['C06']),
    'seek_no_eof_exit': (P + 'kd_buf_parser.py', "        if not next_byte:\n            raise EOFError(f'Reached the end of the stream while looking for {data!r}')\n", "", ['C06']),
    # ---- property-conformant refactorings at generator grain: the checks must NOT alarm (expected [])
    'logs_extend_tables_upfront': (P + 'kd_buf_parser.py', "        for event in log_events:\n            log_event = OsLogEvent.from_raw_log_event(event, log_strings)\n            if log_event.process and log_event.thread_identifier:\n                self.threads_pids[log_event.thread_identifier] = log_event.process_identifier\n                self.pids_names[log_event.process_identifier] = log_event.process\n            yield log_event",
                                   "        decoded = [OsLogEvent.from_raw_log_event(event, log_strings) for event in log_events]\n        for log_event in decoded:\n            if log_event.process and log_event.thread_identifier:\n                self.threads_pids[log_event.thread_identifier] = log_event.process_identifier\n                self.pids_names[log_event.process_identifier] = log_event.process\n        yield from decoded", ['C14']),
    'kevents_binds_subclass_at_call': (P + 'pykdebugparser.py', "        if filter_class or self.filter_subclass:\n            events_generator = filter(lambda e: self._is_eventid_allowed(e.eventid, filter_class), events_generator)",
                                       "        if filter_class or self.filter_subclass:\n            fc, fs = tuple(filter_class), tuple(self.filter_subclass)\n            events_generator = filter(lambda e: (e.eventid >> 24 in fc) or (e.eventid >> 16 in fs), events_generator)", []),
    'traces_reads_header_at_call': (P + 'pykdebugparser.py', "        trace_generator = traces_parser.feed_generator(self._kevents(kdebug, None, filter_class))\n",
                                    "        import itertools\n        _ev = self._kevents(kdebug, None, filter_class)\n        _first = list(itertools.islice(_ev, 1))      # header and thread map are read when the request is made\n        trace_generator = traces_parser.feed_generator(itertools.chain(_first, _ev))\n", []),
    # ---- state in the wrong home (the variants of Sessions.tla / Readers.tla as source changes)
    'cls_on_object': (P + 'pykdebugparser.py', "        if filter_class or self.filter_subclass:\n            events_generator = filter(lambda e: self._is_eventid_allowed(e.eventid, filter_class), events_generator)",
                      "        self._fc = filter_class\n        if filter_class or self.filter_subclass:\n            events_generator = filter(lambda e: self._is_eventid_allowed(e.eventid, self._fc), events_generator)", ['C06', 'C12', 'C13']),
    'codes_on_object': (P + 'pykdebugparser.py', "        return map(lambda e: self._format_kevent(e, trace_codes_map), self.kevents(kdebug))",
                        "        self._tcm = trace_codes_map\n        return map(lambda e: self._format_kevent(e, self._tcm), self.kevents(kdebug))", ['C19']),
    'img_clear_at_end': (P + 'pykdebugparser.py', "        self.dyld_addresses.clear()\n        self.dyld_uuids.clear()\n        callstacks_parser = CallstacksParser(self.dyld_addresses, self.dyld_uuids)\n        return callstacks_parser.feed_generator(self.traces(kdebug, trace_codes))",
                         "        callstacks_parser = CallstacksParser(self.dyld_addresses, self.dyld_uuids)\n        def _g():\n            try:\n                yield from callstacks_parser.feed_generator(self.traces(kdebug, trace_codes))\n            finally:\n                self.dyld_addresses.clear()\n                self.dyld_uuids.clear()\n        return _g()", ['C15']),
    'shared_default_tables': (P + 'kd_buf_parser.py', "    def __init__(self, threads_pids=None, pids_names=None):\n        self.threads_pids = {} if threads_pids is None else threads_pids\n        self.pids_names = {} if pids_names is None else pids_names",
                              "    def __init__(self, threads_pids={}, pids_names={}):\n        self.threads_pids = threads_pids\n        self.pids_names = pids_names", ['C02']),
    'idx_on_object': (P + 'kd_buf_parser.py', "                log_strings = {v: k for k, v in plistlib.loads(block.data)['StringIndex'].items()}\n\n        for event in log_events:\n            log_event = OsLogEvent.from_raw_log_event(event, log_strings)",
                      "                log_strings = {v: k for k, v in plistlib.loads(block.data)['StringIndex'].items()}\n        self._ls = log_strings\n\n        for event in log_events:\n            log_event = OsLogEvent.from_raw_log_event(event, self._ls)", ['C03']),
    'date_column_reads_other_switch': (P + 'pykdebugparser.py', "        return f'{time_string:<27}'\n", "        return f'{time_string:<27}' if self.show_process else time_string[:-3] + ' '\n", ['C14']),
    'tp_shared_windows': (P + 'traces_parser.py', "        self.on_going_events = {}\n", "        self.on_going_events = globals().setdefault('_SHARED_EVENTS', {})      # shared between parser objects\n", ['C04', 'C05']),
    'tp_shared_last_data': (P + 'traces_parser.py', "        self.last_data_newthread = {}\n", "        self.last_data_newthread = globals().setdefault('_SHARED_NT', {})\n", ['C05', 'C14']),
    'pk_class_level_tables': (P + 'pykdebugparser.py', "        self.threads_pids = {}\n        self.pids_names = {}\n", "        self.threads_pids = globals().setdefault('_TP', {})\n        self.pids_names = globals().setdefault('_PN', {})\n", ['C14', 'C13']),
    'traces_materialised_sorted': (P + 'pykdebugparser.py', "        trace_generator = traces_parser.feed_generator(self._kevents(kdebug, None, filter_class))\n", "        trace_generator = iter(traces_parser.feed_generator(sorted(self._kevents(kdebug, None, filter_class), key=lambda e: e.timestamp)))\n", []),
    'count_off_by_one': (P + '__main__.py', "        if i == count:\n            break\n        print(obj)", "        print(obj)\n        if i == count:\n            break", ['C06']),
    'cs_end_timestamp': (P + 'callstacks_parser.py', "yield Callstack(trace.ktraces[0].timestamp, trace.ktraces[0].tid, frames)", "yield Callstack(trace.ktraces[-1].timestamp, trace.ktraces[0].tid, frames)", ['C15']),
    'cs_insert_append': (P + 'callstacks_parser.py', "        index_ = bisect(self.dyld_addresses, address)\n", "        index_ = len(self.dyld_addresses)\n", ['C15']),
    'cs_launch_ignored': (P + 'callstacks_parser.py', "            elif isinstance(trace, DyldLaunchExecutable):\n                for image in trace.uuid_map_a:\n                    self.insert_image(image.load_addr, image.uuid)", "", ['C15']),
    'no_trace_helper': (P + 'pykdebugparser.py', "        if add_trace_class:\n            filter_class.append(DBG_TRACE)", "        if False:\n            filter_class.append(DBG_TRACE)", ['C13']),
    'fs_postfilter_dropped': (P + 'pykdebugparser.py', "            trace_generator = filter(lambda t: t.ktraces[0].eventid >> 24 != DBG_FSYSTEM, trace_generator)", "            pass", ['C13']),
    'proc_filter_by_name_only': (P + 'pykdebugparser.py', "return self.filter_process == str(pid) or self.filter_process == process_name", "return self.filter_process == process_name", ['C13']),
    'class_shift_16': (P + 'pykdebugparser.py', "return (event_id >> 24 in filter_class)", "return (event_id >> 16 in filter_class)", ['C12', 'C13']),
    'filter_and': (P + 'pykdebugparser.py', "return (event_id >> 24 in filter_class) or (event_id >> 16 in self.filter_subclass)", "return (event_id >> 24 in filter_class) and (event_id >> 16 in self.filter_subclass or not self.filter_subclass)", ['C12']),
    'mutate_callers_list': (P + 'pykdebugparser.py', "filter_class = list(self.filter_class)", "filter_class = self.filter_class", ['C13']),
    'img_residue': (P + 'pykdebugparser.py', "        self.dyld_addresses.clear()\n        self.dyld_uuids.clear()\n", "", ['C13']),
    'col_order_trace': (P + 'pykdebugparser.py', "        formatted_data += f'{tid:>11} ' if self.show_tid else ''\n        if self.show_process:\n            formatted_data += f'{self._format_process(tid):<34}'\n        event_rep = str(trace)",
                        "        if self.show_process:\n            formatted_data += f'{self._format_process(tid):<34}'\n        formatted_data += f'{tid:>11} ' if self.show_tid else ''\n        event_rep = str(trace)", ['C14']),
    'unknown_pid0': (P + 'pykdebugparser.py', "        pid = self.threads_pids.get(tid, -1)\n        process_name = self.pids_names.get(pid, '')\n        return f'{process_name}({pid})' if pid != -1 else f'Error: tid {tid}'",
                     "        pid = self.threads_pids.get(tid, 0)\n        process_name = self.pids_names.get(pid, 'kernel_task')\n        return f'{process_name}({pid})'", ['C14']),
    'tpid_not_applied': (P + 'trace_handlers/trace.py', "    parser.threads_pids[events[0].tid] = event.pid\n", "", ['C14']),
    'qual_hides_name': (P + 'pykdebugparser.py', "        formatted_data += f'{name:<58}' if self.show_name else ''", "        formatted_data += f'{name:<58}' if self.show_name and self.show_func_qual else ''", ['C14']),
    'thd_late': (P + 'trace_handlers/perf.py', "    parser.threads_pids[tid] = pid\n    return PerfThdData", "    parser.threads_pids.setdefault(tid, pid)\n    return PerfThdData", ['C14']),
    'codes_first_wins': (P + 'trace_codes.py', "    return {int(s[0], 16): s[1] for s in map(lambda l: l.split(), codes_text.splitlines())}",
                         "    out = {}\n    for s in map(lambda l: l.split(), codes_text.splitlines()):\n        out.setdefault(int(s[0], 16), s[1])\n    return out", ['C19']),
    'codes_name_last_token': (P + 'trace_codes.py', "{int(s[0], 16): s[1] for s in", "{int(s[0], 16): s[-1] for s in", ['C19']),
    'codes_base0': (P + 'trace_codes.py', "int(s[0], 16)", "int(s[0], 0)", ['C19']),
    'traces_ignore_table': (P + 'pykdebugparser.py', "        trace_codes_map = default_trace_codes() if trace_codes is None else trace_codes\n\n        has_filters",
                            "        trace_codes_map = default_trace_codes()\n\n        has_filters", ['C19']),
    'vnode_default_table': (P + 'traces_parser.py', "return list(self.vnode_generator([e for e in events if self.trace_codes.get(e.eventid) == 'VFS_LOOKUP']))",
                            "return list(self.vnode_generator([e for e in events if e.eventid == 0x3010090]))", ['C19']),
    'result_words_swapped': (P + 'trace_handlers/bsd.py', "    error_code = end_event.values[0]\n    res = end_event.values[1]", "    error_code = end_event.values[1]\n    res = end_event.values[0]", ['C10']),
    'result_value_first': (P + 'trace_handlers/bsd.py', "    return success if not error_code else err", "    return success if success else err", ['C10']),
    'result_both': (P + 'trace_handlers/bsd.py', "    return success if not error_code else err", "    return success if not error_code else (err + ', ' + success if success else err)", ['C10']),
    'read_size_from_end': (P + 'trace_handlers/bsd.py', "    return BscRead(events, args[0], args[1], args[2], result, no_cancel)", "    return BscRead(events, args[0], args[1], events[-1].values[1], result, no_cancel)", ['C09', 'C10']),
    'write_args_swapped': (P + 'trace_handlers/bsd.py', "    return BscWrite(events, args[0], args[1], args[2], result, no_cancel)", "    return BscWrite(events, args[0], args[2], args[1], result, no_cancel)", ['C09']),
    'kill_result_from_start': (P + 'trace_handlers/bsd.py', "    return BscKill(events, events[0].values[0], events[0].values[1], serialize_result(events[-1]))", "    return BscKill(events, events[0].values[0], events[0].values[1], serialize_result(events[0]))", ['C10']),
    'mach_arg_shift': (P + 'trace_handlers/mach.py', "    return MachPortAllocate(events, args[0], MachPortRight(args[1]), args[2])", "    return MachPortAllocate(events, args[0], MachPortRight(args[1]), args[3])", ['C09']),
    'enum_value_changed': (P + 'trace_handlers/bsd.py', "    O_NOFOLLOW = 0x0100", "    O_NOFOLLOW = 0x0080", ['C11']),
    'flag_eq_not_and': (P + 'trace_handlers/mach.py', "return [s for s in ThreadState if s.value & flags]", "return [s for s in ThreadState if s.value == flags]", ['C11']),
    'ioctl_len_mask': (P + 'trace_handlers/bsd.py', "length = (self.request >> 16) & 0x1fff", "length = (self.request >> 16) & 0xfff", ['C11']),
    'access_any': (P + 'trace_handlers/bsd.py', "    amode = [flag for flag in BscAccessFlags if flag.value & flags]", "    amode = [flag for flag in BscAccessFlags if flag.value & flags or flags & 8]", ['C11']),
    'lock_un_value': (P + 'trace_handlers/bsd.py', "    LOCK_UN = 8", "    LOCK_UN = 16", ['C11']),
    'twin_diverges': (P + 'trace_handlers/bsd.py', "    'BSC_read_nocancel': partial(handle_read, no_cancel=True),", "    'BSC_read_nocancel': partial(handle_write, no_cancel=True),", ['C17']),
    'unregister_base': (P + 'trace_handlers/bsd.py', "    'BSC_wait4': handle_wait4,\n", "", ['C17']),
    'name_not_in_table': (P + 'trace_handlers/mach.py', "    'MACH_WAIT': handle_mach_wait,", "    'MACH_WAITING': handle_mach_wait,", ['C17']),
    'family_clash': (P + 'trace_handlers/turnstile.py', "handlers = {", "handlers = {\n    'MACH_WAIT': None,", ['C17']),
    'log_key_swap': (P + 'os_log_event.py', "parsed_event['sender_image_path'] = log_strings[event.pop('sip')]", "parsed_event['process_image_path'] = log_strings[event.pop('sip')]", ['C16']),
    'log_pcstyle_bits': (P + 'os_log_event.py', "        'pc_style' / BitsInteger(3),\n        'has_current_aid' / Flag,", "        'has_current_aid' / Flag,\n        'pc_style' / BitsInteger(3),", ['C16']),
    'log_usec_dropped': (P + 'os_log_event.py', "datetime.fromtimestamp(unix_date['sec'] + (unix_date['usec'] / 10 ** 6),", "datetime.fromtimestamp(unix_date['sec'] + (unix_date['usec'] // 10 ** 6),", ['C16']),
    'log_dm_first_segment_only': (P + 'os_log_event.py', "for seg in decomposed['seg']]", "for seg in decomposed['seg'][:1]]", ['C16']),
    'log_bt_reversed': (P + 'os_log_event.py', "                for level in event.pop('bt')", "                for level in reversed(event.pop('bt'))", ['C16']),
    'log_local_time': (P + 'os_log_event.py', "                                                           tz=timezone.utc)", "                                                           tz=None).replace(tzinfo=timezone.utc)", ['C16']),
    'cli_sub_as_class': (P + '__main__.py', "    parser.filter_class = class_filters\n    parser.filter_subclass = subclass_filters\n    parser.filter_tid = tid\n    parser.show_tid = show_tid\n    print_with_count(parser.formatted_kevents(kdebug_dump), count)",
                         "    parser.filter_class = class_filters\n    parser.filter_subclass = class_filters\n    parser.filter_tid = tid\n    parser.show_tid = show_tid\n    print_with_count(parser.formatted_kevents(kdebug_dump), count)", ['C12']),
    'cli_traces_no_process': (P + '__main__.py', "    parser.filter_process = process\n    parser.filter_class = list(class_filters)", "    parser.filter_class = list(class_filters)", ['C13']),
    'cli_logs_ignore_tid': (P + '__main__.py', "    parser = PyKdebugParser()\n    parser.filter_tid = tid\n    parser.filter_process = process\n    parser.show_tid = show_tid\n    print_with_count(parser.formatted_logs(kdebug_dump), count)",
                            "    parser = PyKdebugParser()\n    parser.filter_process = process\n    parser.show_tid = show_tid\n    print_with_count(parser.formatted_logs(kdebug_dump), count)", ['C12']),
    'log_filter_by_name_only': (P + 'pykdebugparser.py', "filter(lambda e: self.filter_process in (e.process, str(e.process_identifier)),", "filter(lambda e: self.filter_process == e.process,", ['C12']),
    'kperf_mask_narrow': (P + 'trace_handlers/perf.py', "to_kperf_ti_state(args[3] & 0xffff)", "to_kperf_ti_state(args[3] & 0xf)", ['C11']),
    'rfa_prot_shift': (P + 'trace_handlers/mach.py', "caller_prot = to_vm_prot((args[1] >> 8) & 0xff)", "caller_prot = to_vm_prot((args[1] >> 8) & 0x7f)", ['C11']),
    'dispatch_state_word': (P + 'trace_handlers/mach.py', "return MachDispatch(events, args[0], to_ast_reasons(args[1]), to_thread_state(args[2]), args[3])", "return MachDispatch(events, args[0], to_ast_reasons(args[1]), to_thread_state(args[2] & 0x7f), args[3])", ['C11']),
    'errno_byte': (P + 'trace_handlers/bsd.py', "    return success if not error_code else err", "    return success if not error_code & 0xff else err", ['C10']),
    'tables_not_cleared_between_dumps': (P + 'kd_buf_parser.py', "        self.threads_pids.clear()\n        self.pids_names.clear()\n", "        pass\n", ['C13', 'C02']),
}


def run(name, checks):
    file, old, new, expected = MUTANTS[name]
    tmp = tempfile.mkdtemp(prefix='mut_', dir='/tmp')
    try:
        shutil.copytree('/repo/pykdebugparser', os.path.join(tmp, 'pykdebugparser'))
        path = os.path.join(tmp, file)
        s = open(path).read()
        if old not in s:
            print('%s: pattern not found in %s' % (name, file))
            return None
        open(path, 'w').write(s.replace(old, new, 1))
        res = {}
        for c in checks or expected:
            env = dict(os.environ, VERIF_REPO=tmp, VERIF_NO_EVIDENCE='1')
            p = subprocess.run([os.path.join(VERIF, 'check'), c], cwd=VERIF, env=env, stdout=subprocess.PIPE,
                               stderr=subprocess.STDOUT, text=True)
            sigs = [l.strip() for l in p.stdout.splitlines() if l.strip().startswith('signature:')]
            res[c] = (p.returncode, sigs[:3])
            print('%-24s %s rc=%d %s' % (name, c, p.returncode, sigs[:3] if p.returncode == 1 else p.stdout[-300:] if p.returncode else ''))
        return res
    finally:
        shutil.rmtree(tmp, ignore_errors=True)


if __name__ == '__main__':
    if sys.argv[1] == '--list':
        for k, v in MUTANTS.items():
            print(k, v[3])
    elif sys.argv[1] == '--all':
        for k in MUTANTS:
            run(k, sys.argv[2:])
    else:
        run(sys.argv[1], sys.argv[2:])
