"""
C11 demo: flag words and packed fields decode to exactly the names of the bits set.

Run as:  cd /tmp/seed12_C11 && /venv/bin/python /tmp/seed_out12/C11/demo.py

The oracle is derived from the statement only:
  * every name shown is a Darwin name (independent table below, Darwin's numbers) whose bits are set in the value;
  * every set bit that has a declared name (declared by the tool, and with Darwin's number) is shown;
  * a multi-bit field (access mode, file type) shows the single name of its value when the headers define it;
  * ioctl: repacking what is shown with Darwin's _IOC gives the request word back.
Nothing is assumed about the ORDER of the names, nor about which of Darwin's names the tool happens to declare.
"""
import os
import sys

sys.path.insert(0, os.getcwd())

import re  # noqa: E402
from types import SimpleNamespace  # noqa: E402

import pykdebugparser  # noqa: E402
from pykdebugparser.trace_handlers import bsd, mach, perf, dyld  # noqa: E402

print('testing', pykdebugparser.__file__)

# ---------------------------------------------------------------------------------------------------------------------
# Darwin's numbers (xnu bsd/sys/fcntl.h, bsd/sys/_types/_s_ifmt.h, bsd/sys/unistd.h, bsd/sys/socket.h, bsd/sys/stat.h,
# osfmk/mach/vm_prot.h, osfmk/kern/ast.h, osfmk/kern/thread.h, osfmk/kperf/*.h, dlfcn.h, bsd/sys/ioccom.h)
# ---------------------------------------------------------------------------------------------------------------------
O_ACCMODE = 0x3
DARWIN_ACCESS_MODES = {0: 'O_RDONLY', 1: 'O_WRONLY', 2: 'O_RDWR'}
DARWIN_OPEN_FLAGS = {
    'O_NONBLOCK': 0x4, 'O_APPEND': 0x8, 'O_SHLOCK': 0x10, 'O_EXLOCK': 0x20, 'O_ASYNC': 0x40, 'O_SYNC': 0x80,
    'O_FSYNC': 0x80, 'O_NOFOLLOW': 0x100, 'O_CREAT': 0x200, 'O_TRUNC': 0x400, 'O_EXCL': 0x800, 'O_EVTONLY': 0x8000,
    'O_NOCTTY': 0x20000, 'O_DIRECTORY': 0x100000, 'O_SYMLINK': 0x200000, 'O_DSYNC': 0x400000, 'O_CLOEXEC': 0x1000000,
}
S_IFMT = 0o170000
DARWIN_FILE_TYPES = {0o010000: 'S_IFIFO', 0o020000: 'S_IFCHR', 0o040000: 'S_IFDIR', 0o060000: 'S_IFBLK',
                     0o100000: 'S_IFREG', 0o120000: 'S_IFLNK', 0o140000: 'S_IFSOCK'}
DARWIN_MODE_BITS = {'S_IXOTH': 0o1, 'S_IWOTH': 0o2, 'S_IROTH': 0o4, 'S_IXGRP': 0o10, 'S_IWGRP': 0o20, 'S_IRGRP': 0o40,
                    'S_IXUSR': 0o100, 'S_IWUSR': 0o200, 'S_IRUSR': 0o400, 'S_ISTXT': 0o1000, 'S_ISVTX': 0o1000,
                    'S_ISGID': 0o2000, 'S_ISUID': 0o4000}
DARWIN_ACCESS = {'X_OK': 1, 'W_OK': 2, 'R_OK': 4}
DARWIN_MSG = {'MSG_OOB': 0x1, 'MSG_PEEK': 0x2, 'MSG_DONTROUTE': 0x4, 'MSG_EOR': 0x8, 'MSG_TRUNC': 0x10,
              'MSG_CTRUNC': 0x20, 'MSG_WAITALL': 0x40, 'MSG_DONTWAIT': 0x80, 'MSG_EOF': 0x100,
              'MSG_WAITSTREAM': 0x200, 'MSG_FLUSH': 0x400, 'MSG_HOLD': 0x800, 'MSG_SEND': 0x1000,
              'MSG_HAVEMORE': 0x2000, 'MSG_RCVMORE': 0x4000, 'MSG_COMPAT': 0x8000, 'MSG_NEEDSA': 0x10000,
              'MSG_NBIO': 0x20000, 'MSG_SKIPCFIL': 0x40000, 'MSG_NOSIGNAL': 0x80000, 'MSG_USEUPCALL': 0x80000000}
DARWIN_FLOCK = {'LOCK_SH': 1, 'LOCK_EX': 2, 'LOCK_NB': 4, 'LOCK_UN': 8}
DARWIN_CHFLAGS = {'UF_NODUMP': 0x1, 'UF_IMMUTABLE': 0x2, 'UF_APPEND': 0x4, 'UF_OPAQUE': 0x8, 'UF_COMPRESSED': 0x20,
                  'UF_TRACKED': 0x40, 'UF_DATAVAULT': 0x80, 'UF_HIDDEN': 0x8000, 'SF_ARCHIVED': 0x10000,
                  'SF_IMMUTABLE': 0x20000, 'SF_APPEND': 0x40000, 'SF_RESTRICTED': 0x80000, 'SF_NOUNLINK': 0x100000}
DARWIN_VM_PROT = {'VM_PROT_READ': 0x1, 'VM_PROT_WRITE': 0x2, 'VM_PROT_EXECUTE': 0x4, 'VM_PROT_NO_CHANGE': 0x8,
                  'VM_PROT_COPY': 0x10, 'VM_PROT_WANTS_COPY': 0x10, 'VM_PROT_TRUSTED': 0x20, 'VM_PROT_IS_MASK': 0x40,
                  'VM_PROT_STRIP_READ': 0x80}
DARWIN_AST = {'AST_PREEMPT': 0x1, 'AST_QUANTUM': 0x2, 'AST_URGENT': 0x4, 'AST_HANDOFF': 0x8, 'AST_YIELD': 0x10,
              'AST_APC': 0x20, 'AST_LEDGER': 0x40, 'AST_BSD': 0x80, 'AST_KPERF': 0x100, 'AST_MACF': 0x200,
              'AST_RESET_PCS': 0x400, 'AST_ARCADE': 0x800, 'AST_GUARD': 0x1000, 'AST_TELEMETRY_USER': 0x2000,
              'AST_TELEMETRY_KERNEL': 0x4000, 'AST_TELEMETRY_PMI': 0x8000, 'AST_SFI': 0x10000, 'AST_DTRACE': 0x20000,
              'AST_TELEMETRY_IO': 0x40000, 'AST_KEVENT': 0x80000, 'AST_REBALANCE': 0x100000,
              'AST_UNQUIESCE': 0x200000}
DARWIN_TH = {'TH_WAIT': 0x01, 'TH_SUSP': 0x02, 'TH_RUN': 0x04, 'TH_UNINT': 0x08, 'TH_TERMINATE': 0x10,
             'TH_TERMINATE2': 0x20, 'TH_WAIT_REPORT': 0x40, 'TH_IDLE': 0x80}
DARWIN_SAMPLER = {'SAMPLER_TH_INFO': 0x1, 'SAMPLER_TH_SNAPSHOT': 0x2, 'SAMPLER_KSTACK': 0x4, 'SAMPLER_USTACK': 0x8,
                  'SAMPLER_PMC_THREAD': 0x10, 'SAMPLER_PMC_CPU': 0x20, 'SAMPLER_PMC_CONFIG': 0x40,
                  'SAMPLER_MEMINFO': 0x80, 'SAMPLER_TH_SCHEDULING': 0x100, 'SAMPLER_TH_DISPATCH': 0x200,
                  'SAMPLER_TK_SNAPSHOT': 0x400, 'SAMPLER_SYS_MEM': 0x800, 'SAMPLER_TH_INSCYC': 0x1000,
                  'SAMPLER_TK_INFO': 0x2000}
DARWIN_KPERF_TI = {'KPERF_TI_RUNNING': 0x1, 'KPERF_TI_RUNNABLE': 0x2, 'KPERF_TI_WAIT': 0x4, 'KPERF_TI_UNINT': 0x8,
                   'KPERF_TI_SUSP': 0x10, 'KPERF_TI_TERMINATE': 0x20, 'KPERF_TI_IDLE': 0x40}
DARWIN_CALLSTACK = {'CALLSTACK_VALID': 0x1, 'CALLSTACK_DEFERRED': 0x2, 'CALLSTACK_64BIT': 0x4,
                    'CALLSTACK_KERNEL': 0x8, 'CALLSTACK_TRUNCATED': 0x10, 'CALLSTACK_CONTINUATION': 0x20,
                    'CALLSTACK_KERNEL_WORDS': 0x40, 'CALLSTACK_TRANSLATED': 0x80, 'CALLSTACK_FIXUP_PC': 0x100}
DARWIN_RTLD = {'RTLD_LAZY': 0x1, 'RTLD_NOW': 0x2, 'RTLD_LOCAL': 0x4, 'RTLD_GLOBAL': 0x8, 'RTLD_NOLOAD': 0x10,
               'RTLD_NODELETE': 0x80, 'RTLD_FIRST': 0x100}
IOC_DIRECTIONS = {'IOC_VOID': 0x20000000, 'IOC_OUT': 0x40000000, 'IOC_IN': 0x80000000,
                  'IOC_IN | IOC_OUT': 0xc0000000, 'IOC_INOUT': 0xc0000000}
IOCPARM_MASK = 0x1fff

failures = []
checked = 0


def fail(what):
    failures.append(what)
    print('FAIL:', what)


def names_of(members):
    return [m.name for m in members]


def check_plain_flag_word(label, value, shown, darwin, declared_cls, zero_name=None):
    """
    shown: names the tool shows for value. darwin: Darwin name -> single bit. declared_cls: the tool's enum.
    zero_name: the name that may stand for 'no bit' (AST_NONE, VM_PROT_NONE, F_OK).
    """
    global checked
    checked += 1
    shown = list(shown)
    if len(set(shown)) != len(shown):
        fail(f'{label} {value:#x}: a name is shown twice: {shown}')
    for name in shown:
        if name == zero_name:
            # 'none' stands for no bit at all: it may only be shown when no declared bit is shown next to it
            if len(shown) != 1:
                fail(f'{label} {value:#x}: {zero_name} shown next to other names: {shown}')
            continue
        if name not in darwin:
            fail(f'{label} {value:#x}: {name} is not a Darwin name of this word')
        elif not darwin[name] & value:
            fail(f'{label} {value:#x}: {name} ({darwin[name]:#x}) shown but not set')
    for member in declared_cls:
        if member.name == zero_name or member.value == 0:
            continue
        if member.name in darwin and darwin[member.name] != member.value:
            fail(f'{label}: {member.name} = {member.value:#x}, Darwin says {darwin[member.name]:#x}')
        if member.value & value and member.name not in shown:
            fail(f'{label} {value:#x}: {member.name} is declared and set but not shown: {shown}')


def values_for(darwin, extra=()):
    bits = sorted(set(darwin.values()))
    out = [0] + bits + [bits[0] | bits[-1], sum(bits)]
    out += [b | bits[len(bits) // 2] for b in bits[:3]]
    out += list(extra)
    return out


# ---------------------------------------------------------------------------------------------------------------------
# open flags (the place of the change): function, and the rendered syscall through the handler
# ---------------------------------------------------------------------------------------------------------------------
def check_open(value, shown):
    global checked
    checked += 1
    label = 'open flags'
    access = [n for n in shown if n in ('O_RDONLY', 'O_WRONLY', 'O_RDWR', 'O_ACCMODE')]
    others = [n for n in shown if n not in access]
    if len(access) != 1:
        fail(f'{label} {value:#x}: not exactly one access mode: {shown}')
    field = value & O_ACCMODE
    if field in DARWIN_ACCESS_MODES:
        if access != [DARWIN_ACCESS_MODES[field]]:
            fail(f'{label} {value:#x}: access mode {access}, expected {DARWIN_ACCESS_MODES[field]}')
    else:
        # 3 is no access mode of the headers: whatever is shown must at least consist of bits that are set
        for n in access:
            if bsd.BscOpenFlags[n].value & ~field:
                fail(f'{label} {value:#x}: access mode {n} has bits that are not set')
    if len(set(others)) != len(others):
        fail(f'{label} {value:#x}: a name is shown twice: {shown}')
    for n in others:
        if n not in DARWIN_OPEN_FLAGS:
            fail(f'{label} {value:#x}: {n} is not a Darwin open flag')
        elif not DARWIN_OPEN_FLAGS[n] & value:
            fail(f'{label} {value:#x}: {n} shown but not set')
    for member in bsd.BscOpenFlags:
        if member.value & ~O_ACCMODE == 0:
            continue
        if DARWIN_OPEN_FLAGS.get(member.name) != member.value:
            fail(f'{label}: {member.name} = {member.value:#x} is not Darwin\'s number')
        if member.value & value and member.name not in others:
            fail(f'{label} {value:#x}: {member.name} is declared and set but not shown: {shown}')


class FakeParser:
    def parse_vnode(self, events):
        return SimpleNamespace(path='/some/path', ktraces=[])


def fake_events(*args, ret=(0, 3)):
    args = tuple(args) + (0,) * (4 - len(args))
    return [SimpleNamespace(values=args, tid=1), SimpleNamespace(values=tuple(ret) + (0, 0), tid=1)]


open_values = []
for mode in range(4):
    open_values += [mode, mode | 0x4, mode | 0x1000004, mode | 0xa00, mode | 0x200 | 0x8 | 0x400,
                    mode | sum(set(DARWIN_OPEN_FLAGS.values()))]
open_values += [bit for bit in sorted(set(DARWIN_OPEN_FLAGS.values()))]
open_values += [0x80, 0x20000, 0x100000, 0x400000, 0x500a01,          # names Darwin has (declared by the tool or not)
                0x1000, 0x2000, 0x4000, 0x10000, 0x2000000, 0x80000000, 0xfe7f7003,  # no O_ name in the headers
                0xffffffff]
for v in open_values:
    check_open(v, names_of(bsd.serialize_open_flags(v)))
    rendered = str(bsd.handle_open(FakeParser(), fake_events(0x1000, v, 0o644)))
    m = re.fullmatch(r'open\("/some/path", (.*)\), fd: 3', rendered)
    if not m:
        fail(f'open rendering not understood: {rendered}')
    else:
        check_open(v, m.group(1).split(' | '))
    rendered = str(bsd.handle_openat(FakeParser(), fake_events(5, 0x1000, v, 0o644)))
    m = re.fullmatch(r'openat\(5, "/some/path", (.*)\), fd: 3', rendered)
    if not m:
        fail(f'openat rendering not understood: {rendered}')
    else:
        check_open(v, m.group(1).split(' | '))


# ---------------------------------------------------------------------------------------------------------------------
# file modes
# ---------------------------------------------------------------------------------------------------------------------
def check_mode(value, shown):
    global checked
    checked += 1
    label = 'file mode'
    types = [n for n in shown if n in DARWIN_FILE_TYPES.values()]
    bits = [n for n in shown if n not in types]
    field = value & S_IFMT
    if field in DARWIN_FILE_TYPES:
        if types != [DARWIN_FILE_TYPES[field]]:
            fail(f'{label} {value:#o}: file type {types}, expected {DARWIN_FILE_TYPES[field]}')
    elif types:
        fail(f'{label} {value:#o}: file type {types} shown for a value the headers do not define')
    for n in bits:
        if n not in DARWIN_MODE_BITS:
            fail(f'{label} {value:#o}: {n} is not a Darwin mode bit')
        elif not DARWIN_MODE_BITS[n] & value:
            fail(f'{label} {value:#o}: {n} shown but not set')
    for member in bsd.StatFlags.__members__.values():
        if member.value & S_IFMT:
            if DARWIN_FILE_TYPES.get(member.value) != member.name:
                fail(f'{label}: {member.name} = {member.value:#o} is not Darwin\'s number')
            continue
        if DARWIN_MODE_BITS.get(member.name) != member.value:
            fail(f'{label}: {member.name} = {member.value:#o} is not Darwin\'s number')
        if member.value & value and member.name not in bits:
            fail(f'{label} {value:#o}: {member.name} is declared and set but not shown: {shown}')


# 0o160000 (S_IFWHT, obsolete) is left out on purpose: the tool does not declare it on either side of the change.
for v in [0, 0o644, 0o755, 0o7777, 0o1, 0o4000, 0o100644, 0o040755, 0o120777, 0o060660, 0o020620, 0o010600, 0o140777,
          0o030000, 0o050644, 0o070000, 0o110000, 0o130000, 0o150000, 0o170000 & ~0o160000 | 0o200000, 0o200644]:
    check_mode(v, names_of(bsd.serialize_stat_flags(v)))


# ---------------------------------------------------------------------------------------------------------------------
# the other flag words
# ---------------------------------------------------------------------------------------------------------------------
for v in range(8):
    check_plain_flag_word('access mode', v, names_of(bsd.serialize_access_flags(v)), DARWIN_ACCESS,
                          bsd.BscAccessFlags, 'F_OK')
for v in values_for(DARWIN_MSG, [0x80000, 0x100000]):
    ev = fake_events(3, 0x1000, 64, v)
    check_plain_flag_word('message flags', v, names_of(bsd.handle_recvfrom(FakeParser(), ev).flags), DARWIN_MSG,
                          bsd.SocketMsgFlags)
for v in range(16):
    ev = fake_events(3, v)
    check_plain_flag_word('lock operation', v, names_of(bsd.handle_sys_flock(FakeParser(), ev).operation),
                          DARWIN_FLOCK, bsd.FlockOperation)
for v in values_for(DARWIN_CHFLAGS, [0x10, 0x4000, 0x200000]):
    ev = fake_events(3, v)
    check_plain_flag_word('file flags', v, names_of(bsd.handle_fchflags(FakeParser(), ev).flags), DARWIN_CHFLAGS,
                          bsd.BscChangeableFlags)
for v in values_for(DARWIN_VM_PROT, [0x100]):
    check_plain_flag_word('vm protection', v, names_of(mach.to_vm_prot(v)), DARWIN_VM_PROT, mach.VmProtection,
                          'VM_PROT_NONE')
for v in values_for(DARWIN_AST, [0x400000, 0x80000000]):
    check_plain_flag_word('ast reasons', v, names_of(mach.to_ast_reasons(v)), DARWIN_AST,
                          mach.AsynchronousSystemTrapsReason, 'AST_NONE')
for v in values_for(DARWIN_TH, [0x100]):
    check_plain_flag_word('thread state', v, names_of(mach.to_thread_state(v)), DARWIN_TH, mach.ThreadState)
for v in values_for(DARWIN_SAMPLER, [0x4000]):
    check_plain_flag_word('sampler actions', v, names_of(perf.to_sampler_action(v)), DARWIN_SAMPLER,
                          perf.SamplerAction)
for v in values_for(DARWIN_KPERF_TI, [0x80]):
    check_plain_flag_word('kperf thread state', v, names_of(perf.to_kperf_ti_state(v)), DARWIN_KPERF_TI,
                          perf.KperfTiState)
for v in values_for(DARWIN_CALLSTACK, [0x200]):
    check_plain_flag_word('callstack flags', v, names_of(perf.to_callstack_flags(v)), DARWIN_CALLSTACK,
                          perf.CallstackFlag)
for v in values_for(DARWIN_RTLD, [0x20, 0x40, 0x200]):
    check_plain_flag_word('dlopen mode', v, names_of(dyld.to_rtld_flags(v)), DARWIN_RTLD, dyld.RtldFlag)

# ---------------------------------------------------------------------------------------------------------------------
# ioctl request words: what is shown, packed again with Darwin's _IOC, is the request word
# (directions limited to the four of ioccom.h that both sides of the change show)
# ---------------------------------------------------------------------------------------------------------------------
for request in [0x20007461, 0x40087468, 0x802c7415, 0xc0206911, 0x4004667f, 0x8004667e, 0x2000745e, 0xdfff7aff,
                0x40007400, 0x9fff4100, 0xc0014201, 0x5ffe7e80]:
    checked += 1
    rendered = str(bsd.handle_ioctl(FakeParser(), fake_events(3, request, 0x7000, ret=(0, 0))))
    m = re.search(r"/\* _IOC\((.*), '(.)', (\d+), (\d+)\) \*/", rendered)
    if not m or hex(request) not in rendered:
        fail(f'ioctl rendering not understood: {rendered}')
        continue
    direction, group, number, length = m.group(1), m.group(2), int(m.group(3)), int(m.group(4))
    if direction not in IOC_DIRECTIONS:
        fail(f'ioctl {request:#x}: direction {direction} is not one of ioccom.h')
        continue
    packed = IOC_DIRECTIONS[direction] | ((length & IOCPARM_MASK) << 16) | (ord(group) << 8) | number
    if packed != request or number > 0xff or length > IOCPARM_MASK:
        fail(f'ioctl {request:#x}: {rendered} packs to {packed:#x}')

# ---------------------------------------------------------------------------------------------------------------------
sample = 0x500a09
print(f'observable difference: open flags {sample:#x} are shown as "'
      + ' | '.join(names_of(bsd.serialize_open_flags(sample))) + '"')
print(f'{checked} checks, {len(failures)} failures')
sys.exit(1 if failures else 0)
