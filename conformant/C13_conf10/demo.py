import os, sys; sys.path.insert(0, os.getcwd())  # noqa: E401,E702  (test the worktree copy, not the editable install)

"""
Demo for property C13: trace filters commute with decoding and leave no residue in the parser.

Run as:  cd /tmp/seed10_C13 && /venv/bin/python /tmp/seed_out10/C13/demo.py

Only the public API of PyKdebugParser is used (filter_* / show_* / color attributes, traces, formatted_traces,
formatted_callstacks, threads_pids, pids_names).  The oracle is derived from the statement: the expected output of a
filtered request is the output of an UNFILTERED run on a fresh parser, restricted to the traces that satisfy the filter.
"""
import itertools
import random
import struct
from io import BytesIO

import pykdebugparser
from pykdebugparser.pykdebugparser import PyKdebugParser

print('testing', pykdebugparser.__file__)

START, END, NONE, ALL = 1, 2, 0, 3

BSC_READ = 0x40c000c
BSC_OPEN = 0x40c0014
BSC_GETPID = 0x40c0050
BSC_ACCESS = 0x40c0084
BSD_PROC_EXIT = 0x4010004  # BSD, subclass 0x0401, no decoder
VFS_LOOKUP = 0x3010090
MSC_MACH_REPLY_PORT = 0x10c0068
DECR_SET = 0x1090004
MACH_VM_PAGE_RELEASE = 0x130049c  # no decoder
TRACE_DATA_NEWTHREAD = 0x7000004
TRACE_DATA_EXEC = 0x7000008
TRACE_DATA_THREAD_TERMINATE = 0x700000c
TRACE_STRING_GLOBAL = 0x7010000
TRACE_STRING_NEWTHREAD = 0x7010004
TRACE_STRING_EXEC = 0x7010008
TRACE_STRING_THREADNAME = 0x7010010
PERF_EVENT = 0x25000000
PERF_THD_DATA = 0x25010004
PERF_STK_UHDR = 0x25020018
PERF_STK_UDATA = 0x25020010
DYLD_UUID_MAP_A = 0x1f050000
DYLD_MAP_IMAGE = 0x1f070008
UNKNOWN_EVENT = 0x63000000

DBG_MACH, DBG_FSYSTEM, DBG_BSD, DBG_TRACE, DBG_DYLD, DBG_PERF = 1, 3, 4, 7, 31, 37


def vals(*values):
    values = list(values) + [0] * (4 - len(values))
    return struct.pack('<QQQQ', *values)


def text(string, size=32):
    return string.encode().ljust(size, b'\x00')


def lookup_records(path, vnode_id=0x1234):
    """kernel file-system lookup: 24 bytes of the path in the first record, 32 in the following ones."""
    raw = path.encode()
    chunks = [raw[:24]] + [raw[i:i + 32] for i in range(24, len(raw), 32)]
    records = []
    for i, chunk in enumerate(chunks):
        qual = (START if i == 0 else 0) | (END if i == len(chunks) - 1 else 0)
        data = (struct.pack('<Q', vnode_id) + chunk.ljust(24, b'\x00')) if i == 0 else chunk.ljust(32, b'\x00')
        records.append((VFS_LOOKUP, qual, data))
    return records


# Every activity is the list of records one thread logs for it: (eventid, qualifier, 32 bytes of arguments).
def act_getpid(rng, ctx):
    return [(BSC_GETPID, START, vals()), (BSC_GETPID, END, vals(0, rng.randrange(1, 500)))]


def act_read(rng, ctx):
    return [(BSC_READ, START, vals(rng.randrange(3, 9), 0x7000, 64)),
            (MACH_VM_PAGE_RELEASE, NONE, vals(5)),
            (BSC_READ, END, vals(0, rng.randrange(0, 64)))]


def act_open(rng, ctx):
    path = rng.choice(['/etc/hosts', '/System/Library/CoreServices/SystemVersion.plist',
                       '/private/var/db/some/quite/long/path/that/needs/three/records/of/the/lookup.db'])
    return ([(BSC_OPEN, START, vals(0x1000, rng.choice([0, 1, 0x202])))] + lookup_records(path) +
            [(DECR_SET, NONE, vals(1, 2, 3, 4))] +
            [(BSC_OPEN, END, vals(rng.choice([0, 0, 2]), rng.randrange(3, 9)))])


def act_access(rng, ctx):
    return ([(BSC_ACCESS, START, vals(0x1000, rng.choice([0, 4])))] + lookup_records('/usr/lib/dyld') +
            [(BSC_ACCESS, END, vals(rng.choice([0, 2]), 0))])


def act_lookup_alone(rng, ctx):
    return lookup_records('/dev/null', 0x77)


def act_reply_port(rng, ctx):
    return [(MSC_MACH_REPLY_PORT, START, vals()), (MSC_MACH_REPLY_PORT, END, vals(rng.randrange(0x100, 0xfff)))]


def act_decr_set(rng, ctx):
    return [(DECR_SET, NONE, vals(rng.randrange(9), 0, 7, 8))]


def act_newthread(rng, ctx):
    child = ctx['next_tid']
    ctx['next_tid'] += 1
    ctx['children'].append(child)
    pid = rng.choice([77, 88, 99])
    return [(TRACE_DATA_NEWTHREAD, NONE, vals(child, pid, 0, 5)),
            (TRACE_STRING_NEWTHREAD, NONE, text(f'child{pid}'))]


def act_exec(rng, ctx):
    pid = rng.choice([10, 20, 77])
    return [(TRACE_DATA_EXEC, NONE, vals(pid, 1, 2)), (TRACE_STRING_EXEC, NONE, text(rng.choice(['execed', 'ls'])))]


def act_threadname(rng, ctx):
    return [(TRACE_STRING_THREADNAME, ALL, text(rng.choice(['worker', 'main-thread'])))]


def act_terminate(rng, ctx):
    return [(TRACE_DATA_THREAD_TERMINATE, NONE, vals(rng.choice([100, 101, 102, 200])))]


def act_global_string(rng, ctx):
    str_id = rng.randrange(1, 4)
    return [(TRACE_STRING_GLOBAL, ALL, struct.pack('<QQ', 0, str_id) + text(f'/usr/lib/lib{str_id}.dylib', 16))]


def act_map_image(rng, ctx):
    # The path is a kernel trace string that another record (class 7) defined earlier.
    return [(DYLD_MAP_IMAGE, START, vals(0, rng.randrange(1, 4))), (DYLD_MAP_IMAGE, END, vals())]


def act_uuid_map(rng, ctx):
    return [(DYLD_UUID_MAP_A, NONE, bytes(range(16)) + struct.pack('<QQ', rng.choice([0x10000, 0x20000]), 0))]


def act_perf_sample(rng, ctx, tid):
    # kperf sample with thread info (maps the thread to a process) and a user stack.
    pid = rng.choice([10, 20, 55])
    return [(PERF_EVENT, START, vals(0x1 | 0x8, 32)),
            (PERF_THD_DATA, NONE, vals(pid, tid, 0, 3)),
            (PERF_STK_UHDR, NONE, vals(0x5, 3)),
            (PERF_STK_UDATA, NONE, vals(0x10010, 0x20020, 0x5, 0)),
            (PERF_EVENT, END, vals(0x9))]


def act_noise(rng, ctx):
    return rng.choice([
        [(UNKNOWN_EVENT, NONE, vals(1))],
        [(BSC_READ, END, vals(0, 1))],  # end without start
        [(BSD_PROC_EXIT, NONE, vals(1))],
        [(MACH_VM_PAGE_RELEASE, NONE, vals(3))],
    ])


ACTIVITIES = [act_getpid, act_read, act_open, act_open, act_access, act_lookup_alone, act_reply_port, act_decr_set,
              act_newthread, act_exec, act_threadname, act_terminate, act_global_string, act_map_image, act_uuid_map,
              'perf', 'perf', act_noise]

THREADMAP = [(100, 10, 'launchd'), (101, 10, 'launchd'), (102, 20, 'tccd')]  # tid 103 is not in the thread map


def make_dump(seed, activities_count=60):
    rng = random.Random(seed)
    ctx = {'next_tid': 200, 'children': []}
    queues = {100: [], 101: [], 102: [], 103: []}
    # Per thread record queues, interleaved at random below (records of one activity keep their order).
    for _ in range(activities_count):
        tid = rng.choice(sorted(queues))
        activity = rng.choice(ACTIVITIES)
        records = act_perf_sample(rng, ctx, tid) if activity == 'perf' else activity(rng, ctx)
        queues[tid].extend(records)
        for child in ctx['children']:
            queues.setdefault(child, [])
    header = b'\x00\x02\xaa\x55' + struct.pack('<I', len(THREADMAP)) + b'\x00' * 12 + struct.pack('<IQ', 1, 24000000)
    header += b'\x00' * 0x100
    for tid, pid, name in THREADMAP:
        header += struct.pack('<QI', tid, pid) + name.encode().ljust(0x14, b'\x00')
    body = b''
    timestamp = 0x10000001
    while any(queues.values()):
        tid = rng.choice([t for t in sorted(queues) if queues[t]])
        eventid, qual, data = queues[tid].pop(0)
        body += struct.pack('<Q32sQIIQ', timestamp, data, tid, eventid | qual, rng.randrange(4), 0)
        timestamp += rng.randrange(1, 50) * 2
    return header + body


def new_parser(tid=None, process=None, classes=(), subclasses=()):
    parser = PyKdebugParser()
    parser.color = False
    parser.show_tid = True
    parser.filter_tid = tid
    parser.filter_process = process
    parser.filter_class = list(classes)
    parser.filter_subclass = list(subclasses)
    return parser


def unfiltered_run(dump):
    """[(text, tid, eventid, pid, process name)] of every trace of an unfiltered run."""
    texts = list(new_parser().formatted_traces(BytesIO(dump)))
    parser = new_parser()
    rows = []
    for trace in parser.traces(BytesIO(dump)):
        tid = trace.ktraces[0].tid
        pid = parser.threads_pids.get(tid)  # what is known about the thread when the trace is reported
        rows.append((tid, trace.ktraces[0].eventid, pid, parser.pids_names.get(pid)))
    assert len(rows) == len(texts)
    return [(text_,) + row for text_, row in zip(texts, rows)]


def satisfies(row, tid, process, classes, subclasses):
    _, trace_tid, eventid, pid, name = row
    if tid is not None and trace_tid != tid:
        return False
    if process is not None and not (pid is not None and (process == str(pid) or process == name)):
        return False
    if (classes or subclasses) and not (eventid >> 24 in classes or eventid >> 16 in subclasses):
        return False
    return True


TIDS = [None, 100, 102, 103, 200, 424242]
PROCESSES = [None, 'launchd', 'tccd', '20', '77', 'child88', 'execed', 'nosuchprocess']
CLASSES = [(), (DBG_BSD,), (DBG_MACH,), (DBG_DYLD,), (DBG_TRACE,), (DBG_PERF,), (DBG_FSYSTEM,), (DBG_BSD, DBG_FSYSTEM),
           (DBG_BSD, DBG_MACH), (DBG_DYLD, DBG_TRACE, DBG_PERF), (DBG_MACH, DBG_BSD, DBG_DYLD, DBG_PERF), (99,)]
# Subclass filters of the property's domain: BSD subclasses only.
SUBCLASSES = [(), (0x040c,), (0x0401,), (0x040c, 0x0401)]

failures = []
checked = 0


def check(condition, message):
    global checked
    checked += 1
    if not condition:
        failures.append(message)


def settings_of(parser):
    return (parser.filter_tid, parser.filter_process, parser.filter_class, list(parser.filter_class),
            parser.filter_subclass, list(parser.filter_subclass))


def same_settings(parser, before):
    now = settings_of(parser)
    # Same values, and the caller's own containers were neither replaced nor modified.
    return now[0] == before[0] and now[1] == before[1] and now[2] is before[2] and now[3] == before[3] and \
        now[4] is before[4] and now[5] == before[5]


def main():
    combos = list(itertools.product(TIDS, PROCESSES, CLASSES, SUBCLASSES))
    non_empty_outputs = 0
    for seed in range(6):
        dump = make_dump(seed)
        rows = unfiltered_run(dump)
        rng = random.Random(1000 + seed)
        # A few dozen filter combinations per dump: every single-filter setting and random mixtures.
        chosen = [(t, None, (), ()) for t in TIDS] + [(None, p, (), ()) for p in PROCESSES] + \
                 [(None, None, c, ()) for c in CLASSES] + [(None, None, (), s) for s in SUBCLASSES] + \
                 [(None, None, c, s) for c in CLASSES[1:] for s in SUBCLASSES[1:]] + rng.sample(combos, 40)
        for tid, process, classes, subclasses in chosen:
            label = f'seed={seed} tid={tid} process={process} classes={classes} subclasses={subclasses}'
            expected = [row[0] for row in rows if satisfies(row, tid, process, classes, subclasses)]
            parser = new_parser(tid, process, classes, subclasses)
            before = settings_of(parser)
            first = list(parser.formatted_traces(BytesIO(dump)))
            check(first == expected, f'{label}: filtered output differs from the filtered unfiltered run')
            check(same_settings(parser, before), f'{label}: filter settings changed by a trace request')
            non_empty_outputs += bool(expected)

            # Repeated requests on the same object, trace and callstack requests mixed.
            callstacks = list(parser.formatted_callstacks(BytesIO(dump)))
            check(same_settings(parser, before), f'{label}: filter settings changed by a callstack request')
            second = list(parser.formatted_traces(BytesIO(dump)))
            check(second == expected, f'{label}: second trace request differs')
            # raw traces() request, texts compared through str()
            raw = [str(t) for t in parser.traces(BytesIO(dump))]
            check(len(raw) == len(expected) and all(e.endswith(r) for e, r in zip(expected, raw)),
                  f'{label}: raw trace request differs')
            check(list(parser.formatted_callstacks(BytesIO(dump))) == callstacks, f'{label}: second callstacks differ')
            third = list(parser.formatted_traces(BytesIO(dump)))
            check(third == expected, f'{label}: third trace request differs')
            check(same_settings(parser, before), f'{label}: filter settings changed by repeated requests')

        # One object, the caller switches filters between requests: each request obeys the settings of its time.
        parser = new_parser()
        for tid, process, classes, subclasses in rng.sample(chosen, 12):
            parser.filter_tid, parser.filter_process = tid, process
            parser.filter_class, parser.filter_subclass = list(classes), list(subclasses)
            before = settings_of(parser)
            expected = [row[0] for row in rows if satisfies(row, tid, process, classes, subclasses)]
            check(list(parser.formatted_traces(BytesIO(dump))) == expected, f'seed={seed}: reused object differs')
            check(same_settings(parser, before), f'seed={seed}: reused object settings changed')

    # --- Outside the property's domain: what the change makes observable (never fails the demo). ---
    dump = make_dump(0)
    p = new_parser(subclasses=[0x0701])  # subclass of a NON-BSD class (kernel trace strings)
    strings_by_subclass = len(list(p.traces(BytesIO(dump))))
    p = new_parser(classes=[DBG_BSD], subclasses=[0x0301])
    lookups = sum(1 for t in p.traces(BytesIO(dump)) if t.ktraces[0].eventid >> 24 == DBG_FSYSTEM)
    p = new_parser(tid=100)
    pending = p.traces(BytesIO(dump))
    p.filter_tid = 102  # the caller changes the filter while the request is still pending
    pending_tids = sorted({t.ktraces[0].tid for t in pending})
    p = new_parser(classes=[DBG_BSD])
    helper = p.decoding_classes() if hasattr(p, 'decoding_classes') else 'n/a'
    print(f'observable difference (out of domain): filter_subclass=[0x0701] -> {strings_by_subclass} traces; '
          f'class BSD + subclass 0x0301 -> {lookups} lookups reported; '
          f'tid filter rebound 100->102 before consuming -> tids {pending_tids}; '
          f'decoding_classes() -> {helper}; type(traces()) -> {type(p.traces(BytesIO(dump))).__name__}')

    print(f'{checked} checks, {non_empty_outputs} filter settings with a non-empty expected output, '
          f'{len(failures)} failures')
    for failure in failures[:20]:
        print('FAIL', failure)
    return 1 if failures else 0


if __name__ == '__main__':
    sys.exit(main())
