"""
Demo for property C13 (trace filters commute with decoding and leave no residue in the parser).

Run as:  cd /tmp/seed12_C13 && /venv/bin/python /tmp/seed_out12/C13/demo.py

Only the public interface of PyKdebugParser is used for the checks (filter_* / show_* / color attributes, traces(),
formatted_traces(), formatted_callstacks(), threads_pids, pids_names).  The oracle is derived from the statement:
the filtered output has to be the sub-sequence of the unfiltered output whose traces satisfy the filter.
Exits 0 when the property holds on every input tried, 1 otherwise.
"""
import os, sys; sys.path.insert(0, os.getcwd())  # noqa: E401,E702

import inspect
import itertools
import random
import struct
import uuid
from io import BytesIO

import pykdebugparser
import pykdebugparser.kd_buf_parser as kd_buf_parser_module
from pykdebugparser.kd_buf_parser import KdBufParser, RAW_VERSION2_BYTES
from pykdebugparser.pykdebugparser import PyKdebugParser
from pykdebugparser.trace_codes import default_trace_codes

print('testing', pykdebugparser.__file__)

NONE, START, END, ALL = 0, 1, 2, 3

BSC_read = 0x40c000c
BSC_open = 0x40c0014
BSC_getpid = 0x40c0050
VFS_LOOKUP = 0x3010090
TRACE_DATA_NEWTHREAD = 0x7000004
TRACE_DATA_EXEC = 0x7000008
TRACE_DATA_THREAD_TERMINATE = 0x700000c
TRACE_STRING_GLOBAL = 0x7010000
TRACE_STRING_NEWTHREAD = 0x7010004
TRACE_STRING_EXEC = 0x7010008
TRACE_STRING_THREADNAME = 0x7010010
MSC_mach_vm_allocate_trap = 0x10c0028
DecrSet = 0x1090004
DYLD_uuid_map_a = 0x1f050000
DYLD_DLOPEN = 0x1f080000
PERF_Event = 0x25000000
PERF_THD_Data = 0x25010004
PERF_STK_UData = 0x25020010
PERF_STK_UHdr = 0x25020018
UNKNOWN_CLASS_42 = 0x2a000000
NETWORK_UNDECODED = 0x5010000

CODES = default_trace_codes()


def values(*vals):
    vals = list(vals) + [0] * (4 - len(vals))
    return struct.pack('<QQQQ', *vals)


def text(data, size=32):
    return data.ljust(size, b'\x00')


# ---- building blocks: each returns the records of ONE thread as (eventid | qualifier, 32 bytes of arguments) ----

def blk_read(rnd):
    count = rnd.randrange(1, 5000)
    return [(BSC_read | START, values(rnd.randrange(3, 9), 0x11bf1c000, count)), (BSC_read | END, values(0, count))]


def blk_getpid(rnd):
    return [(BSC_getpid | START, values()), (BSC_getpid | END, values(0, rnd.randrange(1, 999)))]


def blk_open(rnd):
    path = rnd.choice([b'/etc/hosts', b'/usr/lib/libSystem.B.dylib',
                       b'/System/Library/Frameworks/Foundation.framework/Versions/C/Foundation'])
    vnode = rnd.randrange(1, 1 << 32)
    records = [(BSC_open | START, values(0x16b000000, rnd.choice([0, 1, 2, 0x200]), 0o644))]
    if len(path) <= 24:
        records.append((VFS_LOOKUP | ALL, struct.pack('<Q', vnode) + text(path, 24)))
    else:
        chunks = [path[:24]] + [path[i:i + 32] for i in range(24, len(path), 32)]
        records.append((VFS_LOOKUP | START, struct.pack('<Q', vnode) + text(chunks[0], 24)))
        for chunk in chunks[1:-1]:
            records.append((VFS_LOOKUP | NONE, text(chunk)))
        records.append((VFS_LOOKUP | END, text(chunks[-1])))
    fail = rnd.random() < 0.3
    records.append((BSC_open | END, values(2 if fail else 0, 0 if fail else rnd.randrange(3, 20))))
    return records


def blk_lookup_alone(rnd):
    return [(VFS_LOOKUP | ALL, struct.pack('<Q', rnd.randrange(1, 1 << 20)) + text(b'/private/var/db', 24))]


def blk_vm_allocate(rnd):
    return [(MSC_mach_vm_allocate_trap | START, values(0x103, 0, rnd.randrange(1, 64) * 0x4000, 1)),
            (MSC_mach_vm_allocate_trap | END, values(0))]


def blk_decr_set(rnd):
    return [(DecrSet | NONE, values(rnd.randrange(1, 1 << 30), 0, 3, 4))]


def blk_global_string_and_dlopen(rnd):
    str_id = rnd.randrange(1, 1 << 40)
    path = rnd.choice([b'/usr/lib/a.dylib', b'/usr/lib/system/libsystem_kernel.dylib'])
    if len(path) <= 16:
        records = [(TRACE_STRING_GLOBAL | ALL, values(DYLD_DLOPEN, str_id)[:16] + text(path, 16))]
    else:
        chunks = [path[:16]] + [path[i:i + 32] for i in range(16, len(path), 32)]
        records = [(TRACE_STRING_GLOBAL | START, values(DYLD_DLOPEN, str_id)[:16] + text(chunks[0], 16))]
        for chunk in chunks[1:-1]:
            records.append((TRACE_STRING_GLOBAL | NONE, text(chunk)))
        records.append((TRACE_STRING_GLOBAL | END, text(chunks[-1])))
    records += [(DYLD_DLOPEN | START, values(0, str_id, rnd.choice([1, 2, 0x9]))),
                (DYLD_DLOPEN | END, values(0, rnd.randrange(1, 1 << 40)))]
    return records


def blk_thread_name(rnd):
    return [(TRACE_STRING_THREADNAME | ALL, text(rnd.choice([b'worker', b'com.apple.main-thread'])))]


def blk_uuid_map(rnd):
    return [(DYLD_uuid_map_a | NONE, uuid.UUID(int=rnd.getrandbits(128)).bytes +
             struct.pack('<QQ', rnd.randrange(1, 16) * 0x100000000, 0x1000004))]


def blk_unknown(rnd):
    return [(rnd.choice([UNKNOWN_CLASS_42, NETWORK_UNDECODED]) | rnd.choice([NONE, START, END]),
             values(*[rnd.randrange(1 << 20) for _ in range(4)]))]


def blk_perf(rnd, tid, pid):
    frames = [rnd.randrange(1, 16) * 0x100000000 + rnd.randrange(0x1000, 0xfffff) for _ in range(4)]
    return [(PERF_Event | START, values(0x01 | 0x08, 1)),
            (PERF_THD_Data | NONE, values(pid, tid, 0, 1)),
            (PERF_STK_UHdr | NONE, values(0x05, 3)),
            (PERF_STK_UData | NONE, values(*frames)),
            (PERF_Event | END, values(0x01 | 0x08, 1))]


def blk_new_thread(rnd, new_tid, pid, name):
    # The parent records the pid of the new thread and then the name of the process.
    return [(TRACE_DATA_NEWTHREAD | NONE, values(new_tid, pid, 0, rnd.randrange(1, 1 << 20))),
            (TRACE_STRING_NEWTHREAD | NONE, text(name))]


def blk_exec(rnd, pid, name):
    return [(TRACE_DATA_EXEC | NONE, values(pid, 0x1000004, rnd.randrange(1, 1 << 20))),
            (TRACE_STRING_EXEC | NONE, text(name))]


def blk_terminate(rnd, tid):
    return [(TRACE_DATA_THREAD_TERMINATE | NONE, values(tid))]


PLAIN_BLOCKS = [blk_read, blk_getpid, blk_open, blk_open, blk_lookup_alone, blk_vm_allocate, blk_decr_set,
                blk_global_string_and_dlopen, blk_thread_name, blk_uuid_map, blk_unknown]


def make_stream(seed):
    """
    A version 2 dump: thread map of two processes, then the records of several threads, interleaved at random while
    the order inside each thread is kept.
    """
    rnd = random.Random(seed)
    threadmap = [(100, 10, b'alpha'), (101, 10, b'alpha'), (200, 20, b'beta')]
    per_thread = {100: [], 101: [], 200: [], 300: [], 400: []}
    for tid in (100, 101, 200):
        for _ in range(rnd.randrange(2, 7)):
            per_thread[tid] += rnd.choice(PLAIN_BLOCKS)(rnd)
    # Thread 300 is born during the trace (its pid is known from the record of its parent only),
    # thread 400 is known from a kperf sample only, process 20 is renamed by an exec in the middle.
    per_thread[100] += blk_new_thread(rnd, 300, 10, b'alpha') + blk_read(rnd)
    per_thread[200] += blk_exec(rnd, 20, b'gamma') + blk_open(rnd) + blk_perf(rnd, 200, 20)
    per_thread[400] += blk_perf(rnd, 400, 40) + blk_getpid(rnd) + blk_vm_allocate(rnd)
    for _ in range(rnd.randrange(1, 4)):
        per_thread[300] += rnd.choice(PLAIN_BLOCKS)(rnd)
    per_thread[101] += blk_terminate(rnd, 300)

    # Thread 300 starts after its parent announced it: its records go after the whole of thread 100.
    queues = {tid: list(records) for tid, records in per_thread.items()}
    order = []
    pending_100 = len(queues[100])
    while any(queues.values()):
        candidates = [tid for tid, q in queues.items() if q and (tid != 300 or pending_100 == 0)]
        tid = rnd.choice(candidates)
        order.append((tid, queues[tid].pop(0)))
        if tid == 100:
            pending_100 -= 1

    buf = RAW_VERSION2_BYTES + struct.pack('<I', len(threadmap)) + b'\x00' * 12 + struct.pack('<IQ', 1, 24000000)
    buf += b'\x00' * 0x100
    for tid, pid, name in threadmap:
        buf += struct.pack('<QI', tid, pid) + text(name, 0x14)
    timestamp = 0x10001  # The low byte is not zero: the header parser eats zero padding after the thread map.
    for tid, (debugid, args) in order:
        assert len(args) == 32, (hex(debugid), len(args))
        buf += struct.pack('<Q32sQIIQ', timestamp, args, tid, debugid, rnd.randrange(4), 0)
        timestamp += rnd.randrange(1, 900) * 2
    return buf, len(order)


# ---- the oracle ----

def unfiltered_run(dump):
    """
    The traces of an unfiltered run, each with its text and with the process it belonged to when it was reported.
    """
    parser = PyKdebugParser()
    parser.color = False
    parser.show_tid = True
    texts = list(parser.formatted_traces(BytesIO(dump), CODES))
    parser = PyKdebugParser()
    rows = []
    for trace in parser.traces(BytesIO(dump), CODES):
        first = trace.ktraces[0]
        pid = parser.threads_pids.get(first.tid, -1)
        rows.append({'tid': first.tid, 'pid': pid, 'name': parser.pids_names.get(pid, ''),
                     'class': first.eventid >> 24, 'subclass': first.eventid >> 16})
    assert len(rows) == len(texts)
    for row, line in zip(rows, texts):
        row['text'] = line
    return rows


def satisfies(row, tid, process, classes, subclasses):
    if tid is not None and row['tid'] != tid:
        return False
    if process is not None and process not in (str(row['pid']), row['name']):
        return False
    if (classes or subclasses) and not (row['class'] in classes or row['subclass'] in subclasses):
        return False
    return True


def configure(parser, tid, process, classes, subclasses):
    parser.color = False
    parser.show_tid = True
    parser.filter_tid = tid
    parser.filter_process = process
    parser.filter_class = classes
    parser.filter_subclass = subclasses


def hits_known_deviation(classes, subclasses):
    """
    Both the unchanged and the changed code hide a helper class (TRACE 7, PERF 37, and FSYSTEM 3 next to BSD) as a
    whole when the class itself was not requested, also the traces of a SUBCLASS of it that the caller did request
    (e.g. subclass 0x0701 alone reports nothing).  That deviation from the statement exists before the change and is
    not touched by it, such requests are run but only counted.
    """
    if not (classes or subclasses):
        return False
    has_bsd = 4 in classes or any(sc >> 8 == 4 for sc in subclasses)
    helpers = {7, 37} | ({3} if has_bsd else set())
    return any(sc >> 8 in helpers and sc >> 8 not in classes for sc in subclasses)


failures = []
known_deviation = [0, 0]


def check(cond, message):
    if not cond:
        failures.append(message)
        if len(failures) <= 10:
            print('FAIL:', message)


TIDS = [None, 100, 101, 200, 300, 400, 555]
PROCESSES = [None, 'alpha', 'beta', 'gamma', '10', '20', '40', 'nobody']
CLASSES = [[], [4], [3], [7], [37], [31], [1], [4, 1], [4, 7], [31, 37], [4, 3], [3, 7, 37], [42], [4, 4]]
SUBCLASSES = [[], [0x040c], [0x0701], [0x0700], [0x010c], [0x1f08], [0x2501], [0x040c, 0x0109], [0x0301]]
FIXED = [(None, None, [], []), (None, None, [4], []), (None, None, [], [0x040c]), (None, None, [31], []),
         (None, None, [7], []), (None, None, [3], []), (None, None, [37], []), (300, None, [4], []),
         (None, 'gamma', [4], []), (None, 'beta', [], [0x040c]), (400, '40', [1], []), (None, '10', [], []),
         (200, None, [], []), (None, 'alpha', [31], [0x0701])]

checked = 0
streams = [make_stream(seed) for seed in range(12)]
for seed, (dump, n_records) in enumerate(streams):
    rows = unfiltered_run(dump)
    rnd = random.Random(1000 + seed)
    combos = list(FIXED) + [(rnd.choice(TIDS), rnd.choice(PROCESSES), rnd.choice(CLASSES), rnd.choice(SUBCLASSES))
                            for _ in range(30)]
    for tid, process, classes, subclasses in combos:
        expected = [row['text'] for row in rows if satisfies(row, tid, process, classes, subclasses)]
        caller_classes, caller_subclasses = list(classes), list(subclasses)
        parser = PyKdebugParser()
        configure(parser, tid, process, caller_classes, caller_subclasses)
        label = f'stream {seed} tid={tid} process={process} classes={classes} subclasses={subclasses}'

        # A sequence of requests on one parser object, another dump is requested in the middle.
        other = streams[(seed + 1) % len(streams)][0]
        first_traces = list(parser.formatted_traces(BytesIO(dump), CODES))
        first_callstacks = list(parser.formatted_callstacks(BytesIO(dump), CODES))
        if hits_known_deviation(classes, subclasses):
            known_deviation[0] += 1
            known_deviation[1] += first_traces != expected
        else:
            check(first_traces == expected,
                  f'{label}: filtered output is not the matching part of the unfiltered one')
        sequence = rnd.choice([('t', 'c', 't'), ('c', 'c', 't'), ('t', 'o', 't', 'c'), ('o', 'c', 'o', 't', 't')])
        for step in sequence:
            if step == 't':
                check(list(parser.formatted_traces(BytesIO(dump), CODES)) == first_traces,
                      f'{label}: repeated traces request differs')
            elif step == 'c':
                check(list(parser.formatted_callstacks(BytesIO(dump), CODES)) == first_callstacks,
                      f'{label}: repeated callstacks request differs')
            else:
                list(parser.formatted_traces(BytesIO(other)))  # Default trace codes on this one.
            check(parser.filter_class is caller_classes and caller_classes == classes and
                  parser.filter_subclass is caller_subclasses and caller_subclasses == subclasses and
                  parser.filter_tid == tid and parser.filter_process == process,
                  f'{label}: the filter settings of the caller were changed')
        checked += 1

# Coloured text and hidden columns go through the same selection.
dump = streams[0][0]
for color, show_tid, show_process in itertools.product([True, False], repeat=3):
    texts = {}
    for classes in ([], [4]):
        parser = PyKdebugParser()
        configure(parser, None, None, classes, [])
        parser.color, parser.show_tid, parser.show_process = color, show_tid, show_process
        texts[bool(classes)] = list(parser.formatted_traces(BytesIO(dump)))
    plain = PyKdebugParser()
    bsd = [t.ktraces[0].eventid >> 24 == 4 for t in plain.traces(BytesIO(dump))]
    check(texts[True] == [line for line, is_bsd in zip(texts[False], bsd) if is_bsd],
          f'color={color} show_tid={show_tid} show_process={show_process}: BSD request differs')
    checked += 1

# ---- the observable difference of the change: how many records of the dump are unpacked into Kevent objects ----
unpacked = [0]
original_from_kd_buf = kd_buf_parser_module.from_kd_buf


def counting_from_kd_buf(buf):
    unpacked[0] += 1
    return original_from_kd_buf(buf)


kd_buf_parser_module.from_kd_buf = counting_from_kd_buf
try:
    dump, n_records = streams[3]
    parser = PyKdebugParser()
    configure(parser, None, None, [], [0x040c])
    n_traces = len(list(parser.traces(BytesIO(dump), CODES)))
finally:
    kd_buf_parser_module.from_kd_buf = original_from_kd_buf
parse_parameters = list(inspect.signature(KdBufParser.parse).parameters)
print(f'observable difference: subclass request 0x040c on a dump of {n_records} records reported {n_traces} traces '
      f'and unpacked {unpacked[0]} records into Kevent objects (unchanged code: all {n_records}; changed code: only '
      f'the records of the requested and of the helper classes); KdBufParser.parse parameters: {parse_parameters}; '
      f'PyKdebugParser has _is_eventid_allowed: {hasattr(PyKdebugParser, "_is_eventid_allowed")}')

print(f'{known_deviation[0]} requests name a subclass of a hidden helper class (deviation that exists before the '
      f'change, see notes.txt), {known_deviation[1]} of them differ from the oracle; they are not counted as failures')
print(f'{checked} filter combinations / request sequences checked, {len(failures)} failures')
sys.exit(1 if failures else 0)
