"""
Property C18 - the text produced for a dump does not depend on the host operating system: the symbolic names shown for
error numbers, signals, socket families, socket types and socket-option levels are Darwin's.

Run as:  cd /tmp/seed12_C18 && /venv/bin/python /tmp/seed_out12/C18/demo.py
Exits 0 when the property holds on every input tried (on the unchanged AND on the changed code), 1 otherwise.
"""
import os, sys; sys.path.insert(0, os.getcwd())  # noqa: E401,E702  (the worktree copy, not the editable install)

import enum
import errno
import re
import signal
import socket
import struct

# ----------------------------------------------------------------------------------------------------------------
# Oracle, typed in from Darwin's headers (bsd/sys/errno.h, bsd/sys/signal.h, bsd/sys/socket.h, bsd/netinet/in.h),
# independently of the package.
# ----------------------------------------------------------------------------------------------------------------
DARWIN_ERRNO = dict(enumerate('''EPERM ENOENT ESRCH EINTR EIO ENXIO E2BIG ENOEXEC EBADF ECHILD EDEADLK ENOMEM EACCES
EFAULT ENOTBLK EBUSY EEXIST EXDEV ENODEV ENOTDIR EISDIR EINVAL ENFILE EMFILE ENOTTY ETXTBSY EFBIG ENOSPC ESPIPE EROFS
EMLINK EPIPE EDOM ERANGE EAGAIN EINPROGRESS EALREADY ENOTSOCK EDESTADDRREQ EMSGSIZE EPROTOTYPE ENOPROTOOPT
EPROTONOSUPPORT ESOCKTNOSUPPORT ENOTSUP EPFNOSUPPORT EAFNOSUPPORT EADDRINUSE EADDRNOTAVAIL ENETDOWN ENETUNREACH
ENETRESET ECONNABORTED ECONNRESET ENOBUFS EISCONN ENOTCONN ESHUTDOWN ETOOMANYREFS ETIMEDOUT ECONNREFUSED ELOOP
ENAMETOOLONG EHOSTDOWN EHOSTUNREACH ENOTEMPTY EPROCLIM EUSERS EDQUOT ESTALE EREMOTE EBADRPC ERPCMISMATCH EPROGUNAVAIL
EPROGMISMATCH EPROCUNAVAIL ENOLCK ENOSYS EFTYPE EAUTH ENEEDAUTH EPWROFF EDEVERR EOVERFLOW EBADEXEC EBADARCH
ESHLIBVERS EBADMACHO ECANCELED EIDRM ENOMSG EILSEQ ENOATTR EBADMSG EMULTIHOP ENODATA ENOLINK ENOSR ENOSTR EPROTO
ETIME EOPNOTSUPP ENOPOLICY ENOTRECOVERABLE EOWNERDEAD EQFULL'''.split(), 1))
assert len(DARWIN_ERRNO) == 106 and DARWIN_ERRNO[35] == 'EAGAIN' and DARWIN_ERRNO[106] == 'EQFULL'

DARWIN_SIGNALS = dict(enumerate('''SIGHUP SIGINT SIGQUIT SIGILL SIGTRAP SIGABRT SIGEMT SIGFPE SIGKILL SIGBUS SIGSEGV
SIGSYS SIGPIPE SIGALRM SIGTERM SIGURG SIGSTOP SIGTSTP SIGCONT SIGCHLD SIGTTIN SIGTTOU SIGIO SIGXCPU SIGXFSZ SIGVTALRM
SIGPROF SIGWINCH SIGINFO SIGUSR1 SIGUSR2'''.split(), 1))
assert len(DARWIN_SIGNALS) == 31 and DARWIN_SIGNALS[10] == 'SIGBUS' and DARWIN_SIGNALS[30] == 'SIGUSR1'

DARWIN_AF = {
    0: 'AF_UNSPEC', 1: 'AF_UNIX', 2: 'AF_INET', 3: 'AF_IMPLINK', 4: 'AF_PUP', 5: 'AF_CHAOS', 6: 'AF_NS', 7: 'AF_ISO',
    8: 'AF_ECMA', 9: 'AF_DATAKIT', 10: 'AF_CCITT', 11: 'AF_SNA', 12: 'AF_DECnet', 13: 'AF_DLI', 14: 'AF_LAT',
    15: 'AF_HYLINK', 16: 'AF_APPLETALK', 17: 'AF_ROUTE', 18: 'AF_LINK', 19: 'pseudo_AF_XTP', 20: 'AF_COIP',
    21: 'AF_CNT', 22: 'pseudo_AF_RTIP', 23: 'AF_IPX', 24: 'AF_SIP', 25: 'pseudo_AF_PIP', 27: 'AF_NDRV',
    28: 'AF_ISDN', 29: 'pseudo_AF_KEY', 30: 'AF_INET6', 31: 'AF_NATM', 32: 'AF_SYSTEM', 33: 'AF_NETBIOS',
    34: 'AF_PPP', 35: 'pseudo_AF_HDRCMPLT', 36: 'AF_RESERVED_36', 37: 'AF_IEEE80211', 38: 'AF_UTUN', 40: 'AF_VSOCK',
}
DARWIN_SOCK = {1: 'SOCK_STREAM', 2: 'SOCK_DGRAM', 3: 'SOCK_RAW', 4: 'SOCK_RDM', 5: 'SOCK_SEQPACKET'}

# Names Darwin has for the numbers that can be passed as the level of getsockopt / setsockopt: SOL_SOCKET, or the
# number of a protocol (getsockopt(2): "the protocol number of the appropriate protocol controlling the option").
# The statement asks that a NAME shown for a level be Darwin's; it does not say which levels get a name, so a level
# may be shown as its Darwin name or as the bare number - and identically on every host.
DARWIN_LEVEL_NAMES = {
    0xffff: {'SOL_SOCKET'},
    0: {'IPPROTO_IP'}, 1: {'IPPROTO_ICMP'}, 2: {'IPPROTO_IGMP', 'SYSPROTO_CONTROL'}, 4: {'IPPROTO_IPV4'},
    6: {'IPPROTO_TCP'}, 17: {'IPPROTO_UDP'}, 41: {'IPPROTO_IPV6'}, 43: {'IPPROTO_ROUTING'},
    44: {'IPPROTO_FRAGMENT'}, 47: {'IPPROTO_GRE'}, 50: {'IPPROTO_ESP'}, 51: {'IPPROTO_AH'}, 58: {'IPPROTO_ICMPV6'},
    59: {'IPPROTO_NONE'}, 60: {'IPPROTO_DSTOPTS'}, 132: {'IPPROTO_SCTP'}, 254: {'IPPROTO_DIVERT'},
    255: {'IPPROTO_RAW'},
}
DARWIN_SO = {0x0004: 'SO_REUSEADDR', 0x0008: 'SO_KEEPALIVE', 0x1002: 'SO_RCVBUF', 0x1022: 'SO_NOSIGPIPE'}

# ----------------------------------------------------------------------------------------------------------------
# Host platforms, modelled by swapping the tables of the errno / signal / socket modules of the interpreter.
# ----------------------------------------------------------------------------------------------------------------
LINUX = {
    'errno': {1: 'EPERM', 2: 'ENOENT', 11: 'EAGAIN', 35: 'EDEADLK', 36: 'ENAMETOOLONG', 38: 'ENOSYS', 39: 'ENOTEMPTY',
              40: 'ELOOP', 42: 'ENOMSG', 43: 'EIDRM', 61: 'ENODATA', 62: 'ETIME', 88: 'ENOTSOCK', 95: 'EOPNOTSUPP',
              98: 'EADDRINUSE', 104: 'ECONNRESET', 106: 'EISCONN', 110: 'ETIMEDOUT', 111: 'ECONNREFUSED'},
    'signals': {1: 'SIGHUP', 2: 'SIGINT', 7: 'SIGBUS', 10: 'SIGUSR1', 12: 'SIGUSR2', 16: 'SIGSTKFLT', 17: 'SIGCHLD',
                18: 'SIGCONT', 19: 'SIGSTOP', 20: 'SIGTSTP', 23: 'SIGURG', 29: 'SIGIO', 30: 'SIGPWR', 31: 'SIGSYS'},
    'af': {0: 'AF_UNSPEC', 1: 'AF_UNIX', 2: 'AF_INET', 3: 'AF_AX25', 4: 'AF_IPX', 5: 'AF_APPLETALK', 10: 'AF_INET6',
           16: 'AF_NETLINK', 17: 'AF_PACKET', 30: 'AF_TIPC', 31: 'AF_BLUETOOTH', 38: 'AF_ALG', 40: 'AF_VSOCK'},
    'sock': {1: 'SOCK_STREAM', 2: 'SOCK_DGRAM', 3: 'SOCK_RAW', 4: 'SOCK_RDM', 5: 'SOCK_SEQPACKET'},
    'sol_socket': 1,
}
WINDOWS = {
    'errno': {1: 'EPERM', 2: 'ENOENT', 11: 'EAGAIN', 36: 'EDEADLOCK', 38: 'ENAMETOOLONG', 40: 'ENOSYS', 41: 'ENOTEMPTY',
              42: 'EILSEQ', 100: 'EADDRINUSE', 106: 'ECONNABORTED', 10035: 'WSAEWOULDBLOCK'},
    'signals': {2: 'SIGINT', 4: 'SIGILL', 8: 'SIGFPE', 11: 'SIGSEGV', 15: 'SIGTERM', 21: 'SIGBREAK', 22: 'SIGABRT'},
    'af': {0: 'AF_UNSPEC', 2: 'AF_INET', 6: 'AF_IPX', 16: 'AF_APPLETALK', 23: 'AF_INET6', 26: 'AF_IRDA'},
    'sock': {1: 'SOCK_STREAM', 2: 'SOCK_DGRAM', 3: 'SOCK_RAW', 4: 'SOCK_RDM', 5: 'SOCK_SEQPACKET'},
    'sol_socket': 0xffff,
}
SOLARIS_LIKE = {  # SOCK_STREAM / SOCK_DGRAM swapped, as on SVR4
    'errno': {1: 'EPERM', 2: 'ENOENT', 11: 'EAGAIN', 35: 'ENOMSG', 45: 'EDEADLK', 48: 'ENOTSUP', 78: 'ENAMETOOLONG',
              89: 'ENOSYS', 93: 'ENOTEMPTY', 125: 'EADDRINUSE'},
    'signals': {1: 'SIGHUP', 10: 'SIGBUS', 16: 'SIGUSR1', 17: 'SIGUSR2', 18: 'SIGCHLD', 19: 'SIGPWR', 20: 'SIGWINCH',
                21: 'SIGURG', 22: 'SIGPOLL', 23: 'SIGSTOP', 24: 'SIGTSTP', 25: 'SIGCONT'},
    'af': {0: 'AF_UNSPEC', 1: 'AF_UNIX', 2: 'AF_INET', 26: 'AF_INET6', 24: 'AF_ROUTE', 25: 'AF_LINK'},
    'sock': {2: 'SOCK_STREAM', 1: 'SOCK_DGRAM', 4: 'SOCK_RAW', 5: 'SOCK_RDM', 6: 'SOCK_SEQPACKET'},
    'sol_socket': 0xffff,
}
DARWIN = {'errno': DARWIN_ERRNO, 'signals': DARWIN_SIGNALS,
          'af': {k: v for k, v in DARWIN_AF.items() if v.startswith('AF_') and v != 'AF_RESERVED_36'},
          'sock': DARWIN_SOCK, 'sol_socket': 0xffff}
HOSTS = {'as-is': None, 'linux': LINUX, 'windows': WINDOWS, 'solaris-like': SOLARIS_LIKE, 'darwin': DARWIN}


def install_host(model):
    """ Make the interpreter look like the given platform, return a function that undoes it. """
    if model is None:
        return lambda: None
    saved = []

    def setattr_saved(module, name, value):
        saved.append((module, name, getattr(module, name, setattr_saved)))
        setattr(module, name, value)

    def wipe(module, prefixes):
        for name in list(vars(module)):
            if name.startswith(prefixes) and isinstance(getattr(module, name), int):
                saved.append((module, name, getattr(module, name)))
                delattr(module, name)

    wipe(errno, ('E',))
    setattr_saved(errno, 'errorcode', dict(model['errno']))
    for number, name in model['errno'].items():
        setattr_saved(errno, name, number)
    setattr_saved(os, 'strerror', lambda code: f'host error {code}')

    wipe(signal, ('SIG',))
    host_signals = enum.IntEnum('Signals', {name: number for number, name in model['signals'].items()})
    setattr_saved(signal, 'Signals', host_signals)
    for member in host_signals:
        setattr_saved(signal, member.name, member)
    setattr_saved(signal, 'strsignal', lambda number: f'host signal {number}')
    setattr_saved(signal, 'valid_signals', lambda: set(host_signals))

    wipe(socket, ('AF_', 'SOCK_', 'SOL_'))
    host_af = enum.IntEnum('AddressFamily', {name: number for number, name in model['af'].items()})
    host_sock = enum.IntEnum('SocketKind', {name: number for number, name in model['sock'].items()})
    setattr_saved(socket, 'AddressFamily', host_af)
    setattr_saved(socket, 'SocketKind', host_sock)
    for member in list(host_af) + list(host_sock):
        setattr_saved(socket, member.name, member)
    setattr_saved(socket, 'SOL_SOCKET', model['sol_socket'])

    def undo():
        for module, name, value in reversed(saved):
            if value is setattr_saved:
                delattr(module, name)
            else:
                setattr(module, name, value)

    return undo


# ----------------------------------------------------------------------------------------------------------------
# Driving the package.
# ----------------------------------------------------------------------------------------------------------------
BSC = {'kill': 0x40c0094, 'pipe': 0x40c00a8, 'sigaction': 0x40c00b8, 'socket': 0x40c0184, 'setsockopt': 0x40c01a4,
       'getsockopt': 0x40c01d8, 'socketpair': 0x40c021c, 'socket_delegate': 0x40c0708}
printed_file = []


def fresh_package():
    """ Import the package anew, so tables computed at import time are computed for the current host model. """
    for name in [n for n in sys.modules if n == 'pykdebugparser' or n.startswith('pykdebugparser.')]:
        del sys.modules[name]
    import pykdebugparser
    from pykdebugparser.kevent import Kevent
    from pykdebugparser.trace_codes import default_trace_codes
    from pykdebugparser.traces_parser import TracesParser
    if not printed_file:
        print('pykdebugparser.__file__ =', pykdebugparser.__file__)
        printed_file.append(True)
    assert os.path.realpath(pykdebugparser.__file__).startswith(os.path.realpath(os.getcwd()) + os.sep)
    return Kevent, TracesParser(default_trace_codes(), {}, {})


def render(Kevent, parser, syscall, args, error=0, ret=0):
    """ Text shown for one syscall; 'raises <type>' when the package refuses the record. """
    eventid = BSC[syscall]
    args = tuple(args) + (0,) * (4 - len(args))
    end = (error, ret, 0, 0)
    events = [Kevent(1000, struct.pack('<4Q', *args), args, 77, eventid | 1, eventid, 1),
              Kevent(2000, struct.pack('<4Q', *end), end, 77, eventid | 2, eventid, 2)]
    try:
        shown = [str(x) for x in parser.feed_generator(events)]
    except Exception as e:  # outside of what the statement pins down; must still be the same on every host
        return f'raises {type(e).__name__}'
    assert len(shown) == 1, shown
    return shown[0]


def inputs():
    """ (key, syscall, args, error, ret) """
    for code in list(range(1, 107)) + [107, 200, 1000, 10035]:
        yield ('errno', code), 'socket', (2, 1, 0), code, 0
        yield ('errno-pipe', code), 'pipe', (), code, 0
    for code in (1, 11, 35, 36, 38, 45, 78, 102, 106):
        yield ('errno-sockopt', code), 'setsockopt', (5, 0xffff, 4, 0x16f000000), code, 0
    for number in range(0, 34):
        yield ('signal', number), 'sigaction', (number, 0x16f000000, 0), 0, 0
    for family in range(0, 42):
        yield ('af', family), 'socket', (family, 1, 0), 0, 3
    for family in (1, 2, 10, 17, 18, 23, 26, 30, 32, 40):
        yield ('af-pair', family), 'socketpair', (family, 2, 0, 0x16f000000), 0, 0
        yield ('af-delegate', family), 'socket_delegate', (family, 1, 0, 123), 0, 4
    for kind in range(0, 8):
        yield ('sock', kind), 'socket', (2, kind, 0), 0, 3
        yield ('sock-pair', kind), 'socketpair', (1, kind, 0, 0x16f000000), 0, 0
    for option in DARWIN_SO:
        yield ('level-set', 0xffff, option), 'setsockopt', (5, 0xffff, option, 0x16f000000), 0, 0
        yield ('level-get', 0xffff, option), 'getsockopt', (5, 0xffff, option, 0x16f000000), 0, 0
    for level in (0, 1, 2, 3, 4, 6, 17, 41, 58, 59, 60, 132, 254, 255, 256, 0xfff, 0xfffe, 0x10000, 0xffffffff):
        for option in (1, 4, 0x10):
            yield ('level-set', level, option), 'setsockopt', (5, level, option, 0x16f000000), 0, 0
            yield ('level-get', level, option), 'getsockopt', (5, level, option, 0x16f000000), 0, 0


def check(key, text):
    """ Oracle derived from the statement. Returns a complaint, or None. """
    kind = key[0]
    if text.startswith('raises '):
        # The package refuses numbers Darwin has no name for (both before and after the change); the statement does
        # not say what is shown for them. For a number Darwin does name, a refusal is a violation.
        named = {'signal': DARWIN_SIGNALS, 'af': DARWIN_AF, 'af-pair': DARWIN_AF, 'af-delegate': DARWIN_AF,
                 'sock': DARWIN_SOCK, 'sock-pair': DARWIN_SOCK}.get(kind)
        if named is None or key[1] in named:
            return f'refused: {text}'
        return None
    if kind.startswith('errno'):
        code = key[1]
        names = re.findall(r'\bE[A-Z0-9]{2,}\b|\bWSA[A-Z]+\b', text)
        if code in DARWIN_ERRNO:
            if names != [DARWIN_ERRNO[code]] or f'({code})' not in text:
                return f'expected {DARWIN_ERRNO[code]}({code})'
        elif names:
            return f'a name for error {code}, which Darwin does not name'
        return None
    if kind == 'signal':
        names = re.findall(r'\bSIG[A-Z0-9]+\b', text)
        if names != [DARWIN_SIGNALS[key[1]]]:
            return f'expected {DARWIN_SIGNALS[key[1]]}'
        return None
    if kind.startswith('af'):
        names = re.findall(r'\b(?:pseudo_)?AF_\w+\b', text)
        if names != [DARWIN_AF[key[1]]]:
            return f'expected {DARWIN_AF[key[1]]}'
        return None
    if kind.startswith('sock'):
        names = re.findall(r'\bSOCK_\w+\b', text)
        if names != [DARWIN_SOCK[key[1]]]:
            return f'expected {DARWIN_SOCK[key[1]]}'
        return None
    if kind.startswith('level'):
        level, option = key[1], key[2]
        m = re.fullmatch(r'[gs]etsockopt\(5, ([^,]+), ([^,]+), 0x16f000000\)', text)
        if not m:
            return 'unexpected shape'
        allowed = DARWIN_LEVEL_NAMES.get(level, set()) | ({str(level), hex(level)} if level != 0xffff else set())
        if m.group(1) not in allowed:
            return f'level shown as {m.group(1)}, Darwin has {sorted(allowed)}'
        if level == 0xffff and m.group(2) != DARWIN_SO[option]:
            return f'expected {DARWIN_SO[option]}'
        return None
    raise AssertionError(key)


def main():
    cases = list(inputs())
    results = {}
    for host, model in HOSTS.items():
        undo = install_host(model)
        try:
            Kevent, parser = fresh_package()
            results[host] = {key: render(Kevent, parser, syscall, args, error, ret)
                             for key, syscall, args, error, ret in cases}
        finally:
            undo()
    failures = []
    reference = results['as-is']
    for key, *_ in cases:
        complaint = check(key, reference[key])
        if complaint:
            failures.append(f'{key}: {reference[key]!r}: {complaint}')
        for host in HOSTS:
            if results[host][key] != reference[key]:
                failures.append(f'{key}: {reference[key]!r} as-is, but {results[host][key]!r} on host {host}')
    print(f'{len(cases)} inputs x {len(HOSTS)} host models, {len(failures)} failures')
    for line in failures[:20]:
        print('FAIL', line)
    print('observable difference (not pinned by the statement): TCP-level option is shown as',
          repr(reference[('level-set', 6, 1)]), '/ IPv6-level as', repr(reference[('level-get', 41, 4)]))
    return 1 if failures else 0


if __name__ == '__main__':
    sys.exit(main())
