import os, sys; sys.path.insert(0, os.getcwd())  # noqa: E401,E702

"""
Property C08 demo: paths / global strings / thread names split over several records are reassembled exactly, once.
Run as:  cd /tmp/seed10_C08 && /venv/bin/python /tmp/seed_out10/C08/demo.py
Exits 0 when the property holds on all the generated inputs, 1 otherwise.
The oracle is derived from the statement only (kernel record layout + "one trace, exact text, first record's vnode
id, continuation records silent, syscall path arguments == looked-up paths in lookup order").
"""
import struct

import pykdebugparser
from pykdebugparser.kevent import Kevent
from pykdebugparser.trace_codes import default_trace_codes
from pykdebugparser.trace_handlers.fsystem import VfsLookup
from pykdebugparser.trace_handlers.trace import TraceStringGlobal, TraceStringThreadname, TraceStringThreadnamePrev
from pykdebugparser.traces_parser import TracesParser

print('testing', pykdebugparser.__file__)

START, END, NONE, ALL = 1, 2, 0, 3
VFS_LOOKUP = 0x3010090
TRACE_STRING_GLOBAL = 0x7010000
TRACE_STRING_THREADNAME = 0x7010010
TRACE_STRING_THREADNAME_PREV = 0x7010014
TRACE_DATA_EXEC = 0x7000008
BSC = {'open': 0x40c0014, 'link': 0x40c0024, 'unlink': 0x40c0028, 'rename': 0x40c0200, 'stat64': 0x40c0548,
       'renameat': 0x40c0744, 'getpid': 0x40c0050}
UNKNOWN_EVENTID = 0x0abc0000  # not in trace.codes

TID = 0x1234
OTHER_TID = 0x9999
clock = [1000]
failures = []


def check(cond, msg):
    if not cond:
        failures.append(msg)


def rec(eventid, qual, data=b'', tid=TID):
    data = data.ljust(32, b'\x00')
    assert len(data) == 32
    clock[0] += 7
    return Kevent(clock[0], data, struct.unpack('<QQQQ', data), tid, eventid | qual, eventid, qual)


def split(raw, first_room, eventid, header=b''):
    """The kernel's layout: `header` + first_room bytes in the START record, 32 bytes in each following one."""
    chunks = [header + raw[:first_room]]
    rest = raw[first_room:]
    while rest:
        chunks.append(rest[:32])
        rest = rest[32:]
    out = []
    for i, chunk in enumerate(chunks):
        qual = (START if i == 0 else NONE) | (END if i == len(chunks) - 1 else NONE)
        out.append(rec(eventid, qual, chunk))
    return out


def lookup_records(text, vnode_id):
    return split(text.encode(), 24, VFS_LOOKUP, struct.pack('<Q', vnode_id))


def noise(i):
    """Unrelated records of the same thread (and one of another thread) that go between two records."""
    kinds = [
        [],
        [rec(UNKNOWN_EVENTID, NONE, b'\xff' * 32)],
        [rec(BSC['getpid'], START), rec(BSC['getpid'], END, struct.pack('<QQ', 0, 77))],
        [rec(UNKNOWN_EVENTID, NONE, b'/noise/not/a/path'), rec(VFS_LOOKUP, ALL, b'\x01' * 8 + b'/other/thread', OTHER_TID)],
    ]
    return kinds[i % len(kinds)]


def interleave(records, salt):
    out = []
    for i, r in enumerate(records):
        out.append(r)
        if i != len(records) - 1:
            out.extend(noise(salt + i))
    return out


def new_parser():
    return TracesParser(default_trace_codes(), {}, {})


def feed_all(parser, records):
    """-> list of (record, trace or None)"""
    return [(r, parser.feed(r)) for r in records]


def make_text(n, flavour):
    """A text whose UTF-8 encoding is exactly n bytes long."""
    if flavour == 'ascii':
        base = '/' + 'abcdefghijklmnopqrstuvwxyz0123456789/' * 6
        return base[:n]
    # multi byte characters that straddle the chunk boundaries
    out = ''
    size = 0
    alphabet = ['é', '/', '€', 'x', '\U0001f600', ' ', 'א']
    i = 0
    while size < n:
        c = alphabet[i % len(alphabet)]
        i += 1
        if size + len(c.encode()) > n:
            c = '.'
        out += c
        size += len(c.encode())
    assert len(out.encode()) == n
    return out


LENGTHS = [0, 1, 8, 23, 24, 25, 55, 56, 57, 87, 88, 89, 119, 120, 121, 151, 152, 153, 183, 184]
TEXTS = [make_text(n, 'ascii') for n in LENGTHS] + [make_text(n, 'utf8') for n in LENGTHS if n]

# ---------------------------------------------------------------------------------------------------------------
# 1. stand alone lookups: one trace, exact text, first record's vnode id, continuation records silent
# ---------------------------------------------------------------------------------------------------------------
n_cases = 0
for salt, text in enumerate(TEXTS):
    for with_noise in (False, True):
        n_cases += 1
        vnode_id = 0xffffff8000000000 + salt * 0x100 + 1
        own = lookup_records(text, vnode_id)
        check(len(own) == max(1, 1 + -(-(len(text.encode()) - 24) // 32)), 'generator: record count')
        records = interleave(own, salt) if with_noise else own
        results = feed_all(new_parser(), records)
        lookups = [(r, t) for r, t in results if isinstance(t, VfsLookup) and r.tid == TID]
        where = f'lookup len={len(text.encode())} noise={with_noise}'
        check(len(lookups) == 1, f'{where}: {len(lookups)} lookup traces instead of 1')
        for r, t in lookups:
            check(r is own[-1], f'{where}: trace not reported with the record that ends the lookup')
            check(t.path == text, f'{where}: path {t.path!r} != {text!r}')
            check(t.vnode_id == vnode_id, f'{where}: vnode id {t.vnode_id:#x} != {vnode_id:#x}')
        for r, t in results:
            if any(r is o for o in own[:-1]):
                check(t is None, f'{where}: a non-final record of the lookup produced {t!r}')

# ---------------------------------------------------------------------------------------------------------------
# 2. path taking syscalls: path arguments == looked-up paths, in lookup order, for 0..3 lookups in the window
# ---------------------------------------------------------------------------------------------------------------
SYSCALLS = {
    # name: (attributes holding the path arguments, in order)
    'open': ('path',),
    'unlink': ('pathname',),
    'stat64': ('path',),
    'link': ('oldpath', 'newpath'),
    'rename': ('old', 'new'),
    'renameat': ('from_', 'to'),
}
picks = [TEXTS[i] for i in (0, 3, 4, 5, 8, 9, 13, 19, 22, 27, 33, 38)]
for salt, (name, attrs) in enumerate(SYSCALLS.items()):
    for n_lookups in range(0, 4):
        for variant in range(3):
            n_cases += 1
            texts = [picks[(salt * 5 + n_lookups * 3 + variant * 7 + k) % len(picks)] for k in range(n_lookups)]
            if variant == 2 and n_lookups >= 2:
                texts[1] = texts[0]  # the same path twice (e.g. rename("a", "a")), even the same vnode id
            ids = [0x5000 + k if variant != 2 else 0x5000 for k in range(n_lookups)]
            records = [rec(BSC[name], START, struct.pack('<QQQQ', 3, 0x20, 4, 0x30))]
            records += noise(salt + variant)
            expected_lookups = []
            for k, text in enumerate(texts):
                own = lookup_records(text, ids[k])
                records += interleave(own, salt + k + variant) if variant else own
                records += noise(salt + k)
                expected_lookups.append((text, ids[k]))
            records.append(rec(BSC[name], END, struct.pack('<QQ', 0, 0)))
            results = feed_all(new_parser(), records)
            where = f'{name} with {n_lookups} lookups, variant {variant}'
            got_lookups = [(t.path, t.vnode_id) for r, t in results if isinstance(t, VfsLookup) and r.tid == TID]
            check(got_lookups == expected_lookups, f'{where}: lookups {got_lookups!r} != {expected_lookups!r}')
            sys_traces = [t for r, t in results if type(t).__name__.lower() == 'bsc' + name]
            check(len(sys_traces) == 1, f'{where}: {len(sys_traces)} syscall traces')
            for t in sys_traces:
                for k, attr in enumerate(attrs):
                    want = texts[k] if k < len(texts) else ''
                    check(getattr(t, attr) == want, f'{where}: {attr}={getattr(t, attr)!r} != {want!r}')
                check(f'"{texts[0]}"' in str(t) if texts else True, f'{where}: path not shown in {t}')

# ---------------------------------------------------------------------------------------------------------------
# 3. global strings and thread names
# ---------------------------------------------------------------------------------------------------------------
for salt, text in enumerate(TEXTS):
    if '\x00' in text:
        continue
    raw = text.encode()
    for kind, eventid, cls in (('global', TRACE_STRING_GLOBAL, TraceStringGlobal),
                               ('threadname', TRACE_STRING_THREADNAME, TraceStringThreadname),
                               ('threadname_prev', TRACE_STRING_THREADNAME_PREV, TraceStringThreadnamePrev)):
        n_cases += 1
        if kind == 'global':
            own = split(raw, 16, eventid, struct.pack('<QQ', 0x1f050000, 0x4000 + salt))
        else:
            own = split(raw, 32, eventid)
        records = []
        for i, r in enumerate(own):
            records.append(r)
            if i != len(own) - 1 and salt % 2:
                # an unrelated DBG_TRACE record of the same thread, and an unrelated record of another kind
                records.append(rec(TRACE_DATA_EXEC, NONE, struct.pack('<QQQ', 55, 1, 2)))
                records.append(rec(UNKNOWN_EVENTID, NONE, b'zzzz'))
        results = feed_all(new_parser(), records)
        strings = [(r, t) for r, t in results if isinstance(t, cls)]
        where = f'{kind} string len={len(raw)}'
        check(len(strings) == 1, f'{where}: {len(strings)} traces instead of 1')
        for r, t in strings:
            got = t.vstr if kind == 'global' else t.name
            check(got == text, f'{where}: {got!r} != {text!r}')
            if kind == 'global':
                check(t.str_id == 0x4000 + salt, f'{where}: string id')
        for r, t in results:
            if any(r is o for o in own[:-1]):
                check(t is None, f'{where}: a non-final record of the string produced {t!r}')

# ---------------------------------------------------------------------------------------------------------------
# observable difference (things the statement does not pin down)
# ---------------------------------------------------------------------------------------------------------------
own = lookup_records(make_text(80, 'ascii'), 0x77)  # 3 records
records = [own[0], rec(UNKNOWN_EVENTID, NONE, b'a'), own[1], rec(UNKNOWN_EVENTID, NONE, b'b'), own[2]]
trace = [t for r, t in feed_all(new_parser(), records) if isinstance(t, VfsLookup)][0]

# out of the property's domain: the END record of a lookup got lost, the next lookup follows in the same window
lost = lookup_records(make_text(80, 'ascii'), 0x11)[:-1] + lookup_records('/after/the/lost/end', 0x22)
window = [rec(BSC['open'], START)] + lost + [rec(BSC['open'], END, struct.pack('<QQ', 0, 3))]
dangling = new_parser().parse_vnodes(window)[0]

# out of the property's domain: the second lookup of the window is not valid UTF-8
bad = [rec(VFS_LOOKUP, ALL, struct.pack('<Q', 0x33) + b'/bad/\xff\xfe')]
window = [rec(BSC['open'], START)] + lookup_records('/good', 0x44) + bad + [rec(BSC['open'], END, struct.pack('<QQ', 0, 3))]
try:
    outcome = repr(new_parser().parse_vnode(window).path)
except UnicodeDecodeError:
    outcome = 'UnicodeDecodeError'

print(f'observable difference: VfsLookup.ktraces of a 3-record lookup with 2 unrelated records in between has '
      f'{len(trace.ktraces)} entries (unchanged code: 5, changed code: 3); '
      f'lookup after a lookup that lost its END record: path={dangling.path[-19:]!r} of {len(dangling.path)} chars '
      f'(unchanged: 75 chars of both lookups glued, changed: 19 chars); '
      f'parse_vnode() of a window whose 2nd lookup is not UTF-8: {outcome} '
      f'(unchanged: UnicodeDecodeError, changed: \'/good\'); '
      f'TracesParser.iter_vnodes exists: {hasattr(TracesParser, "iter_vnodes")}')

print(f'{n_cases} cases, {len(failures)} failures')
for f in failures[:20]:
    print('FAIL:', f)
sys.exit(1 if failures else 0)
