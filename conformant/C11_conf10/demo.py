import os, sys; sys.path.insert(0, os.getcwd())  # noqa: E401,E702

import random
import re
from types import SimpleNamespace

import pykdebugparser
from pykdebugparser.trace_handlers import bsd, dyld, mach, perf

print('testing', pykdebugparser.__file__)

failures = []


def check(cond, what):
    if not cond:
        failures.append(what)


def names_of(members):
    return [m.name for m in members]


# ---------------------------------------------------------------------------------------------------------------------
# Darwin's numbers, typed in from the headers (NOT taken from the package).
# ---------------------------------------------------------------------------------------------------------------------
O_BITS = dict(O_NONBLOCK=0x4, O_APPEND=0x8, O_SHLOCK=0x10, O_EXLOCK=0x20, O_ASYNC=0x40, O_NOFOLLOW=0x100,
              O_CREAT=0x200, O_TRUNC=0x400, O_EXCL=0x800, O_EVTONLY=0x8000, O_SYMLINK=0x200000, O_CLOEXEC=0x1000000)
O_ACC = {0: 'O_RDONLY', 1: 'O_WRONLY', 2: 'O_RDWR'}
S_BITS = dict(S_IXOTH=0o1, S_IWOTH=0o2, S_IROTH=0o4, S_IXGRP=0o10, S_IWGRP=0o20, S_IRGRP=0o40, S_IXUSR=0o100,
              S_IWUSR=0o200, S_IRUSR=0o400, S_ISTXT=0o1000, S_ISGID=0o2000, S_ISUID=0o4000)
S_TYPES = {0o010000: 'S_IFIFO', 0o020000: 'S_IFCHR', 0o040000: 'S_IFDIR', 0o060000: 'S_IFBLK', 0o100000: 'S_IFREG',
           0o120000: 'S_IFLNK', 0o140000: 'S_IFSOCK'}
ACCESS_BITS = dict(X_OK=1, W_OK=2, R_OK=4)
MSG_BITS = dict(MSG_OOB=0x1, MSG_PEEK=0x2, MSG_DONTROUTE=0x4, MSG_EOR=0x8, MSG_TRUNC=0x10, MSG_CTRUNC=0x20,
                MSG_WAITALL=0x40, MSG_DONTWAIT=0x80, MSG_EOF=0x100, MSG_WAITSTREAM=0x200, MSG_FLUSH=0x400,
                MSG_HOLD=0x800, MSG_SEND=0x1000, MSG_HAVEMORE=0x2000, MSG_RCVMORE=0x4000, MSG_COMPAT=0x8000,
                MSG_NEEDSA=0x10000, MSG_NBIO=0x20000, MSG_SKIPCFIL=0x40000, MSG_USEUPCALL=0x80000000)
LOCK_BITS = dict(LOCK_SH=1, LOCK_EX=2, LOCK_NB=4, LOCK_UN=8)
CHFLAGS_BITS = dict(UF_NODUMP=0x1, UF_IMMUTABLE=0x2, UF_APPEND=0x4, UF_OPAQUE=0x8, UF_HIDDEN=0x8000,
                    SF_ARCHIVED=0x10000, SF_IMMUTABLE=0x20000, SF_APPEND=0x40000)
VM_BITS = dict(VM_PROT_READ=1, VM_PROT_WRITE=2, VM_PROT_EXECUTE=4, VM_PROT_NO_CHANGE=8, VM_PROT_COPY=0x10,
               VM_PROT_TRUSTED=0x20, VM_PROT_IS_MASK=0x40, VM_PROT_STRIP_READ=0x80)
AST_BITS = dict(AST_PREEMPT=0x1, AST_QUANTUM=0x2, AST_URGENT=0x4, AST_HANDOFF=0x8, AST_YIELD=0x10, AST_APC=0x20,
                AST_LEDGER=0x40, AST_BSD=0x80, AST_KPERF=0x100, AST_MACF=0x200, AST_RESET_PCS=0x400,
                AST_ARCADE=0x800, AST_GUARD=0x1000, AST_TELEMETRY_USER=0x2000, AST_TELEMETRY_KERNEL=0x4000,
                AST_TELEMETRY_PMI=0x8000, AST_SFI=0x10000, AST_DTRACE=0x20000, AST_TELEMETRY_IO=0x40000,
                AST_KEVENT=0x80000, AST_REBALANCE=0x100000, AST_UNQUIESCE=0x200000)
TH_BITS = dict(TH_WAIT=1, TH_SUSP=2, TH_RUN=4, TH_UNINT=8, TH_TERMINATE=0x10, TH_TERMINATE2=0x20, TH_WAIT_REPORT=0x40,
               TH_IDLE=0x80)
SAMPLER_BITS = dict(SAMPLER_TH_INFO=0x1, SAMPLER_TH_SNAPSHOT=0x2, SAMPLER_KSTACK=0x4, SAMPLER_USTACK=0x8,
                    SAMPLER_PMC_THREAD=0x10, SAMPLER_PMC_CPU=0x20, SAMPLER_PMC_CONFIG=0x40, SAMPLER_MEMINFO=0x80,
                    SAMPLER_TH_SCHEDULING=0x100, SAMPLER_TH_DISPATCH=0x200, SAMPLER_TK_SNAPSHOT=0x400,
                    SAMPLER_SYS_MEM=0x800, SAMPLER_TH_INSCYC=0x1000, SAMPLER_TK_INFO=0x2000)
TI_BITS = dict(KPERF_TI_RUNNING=1, KPERF_TI_RUNNABLE=2, KPERF_TI_WAIT=4, KPERF_TI_UNINT=8, KPERF_TI_SUSP=0x10,
               KPERF_TI_TERMINATE=0x20, KPERF_TI_IDLE=0x40)
CS_BITS = dict(CALLSTACK_VALID=1, CALLSTACK_DEFERRED=2, CALLSTACK_64BIT=4, CALLSTACK_KERNEL=8,
               CALLSTACK_TRUNCATED=0x10, CALLSTACK_CONTINUATION=0x20, CALLSTACK_KERNEL_WORDS=0x40,
               CALLSTACK_TRANSLATED=0x80, CALLSTACK_FIXUP_PC=0x100)
RTLD_BITS = dict(RTLD_LAZY=1, RTLD_NOW=2, RTLD_LOCAL=4, RTLD_GLOBAL=8, RTLD_NOLOAD=0x10, RTLD_NODELETE=0x80,
                 RTLD_FIRST=0x100)
# bsd/sys/ioccom.h
IOC = dict(IOC_VOID=0x20000000, IOC_OUT=0x40000000, IOC_IN=0x80000000, IOC_INOUT=0xc0000000, IOC_DIRMASK=0xe0000000)
IOCPARM_MASK = 0x1fff


def darwin_ioc(inout, group, num, length):
    return inout | ((length & IOCPARM_MASK) << 16) | (group << 8) | num


# ---------------------------------------------------------------------------------------------------------------------
# Oracle for a word of single-bit flags: shown names == names of the declared bits that are set (as a set; the
# statement does not order them), nothing shown twice, optional zero name exactly when no declared bit ... is set.
# ---------------------------------------------------------------------------------------------------------------------
def expect_bits(label, value, shown, bits, zero_name=None, zero_when=None):
    expected = {n for n, b in bits.items() if value & b}
    if zero_name is not None and (zero_when if zero_when is not None else not expected):
        expected = expected | {zero_name}
    check(len(shown) == len(set(shown)), f'{label}({value:#x}): a name is shown twice: {shown}')
    check(set(shown) == expected, f'{label}({value:#x}): shown {sorted(shown)}, expected {sorted(expected)}')


rnd = random.Random(11)


def sample_words(bits, extra=()):
    declared = list(bits.values())
    allbits = 0
    for b in declared:
        allbits |= b
    words = [0, allbits, 0xffffffff, 0xffffffff & ~allbits]
    words += declared[:3] + declared[-2:]
    for _ in range(8):
        w = 0
        for b in declared:
            if rnd.random() < 0.4:
                w |= b
        if rnd.random() < 0.5:
            w |= rnd.getrandbits(32) & ~allbits  # undeclared bits
        words.append(w)
    return words + list(extra)


def ev(*values):
    return SimpleNamespace(values=list(values))


OK_END = ev(0, 0, 0, 0)
n_inputs = 0

# simple single-bit words --------------------------------------------------------------------------------------------
simple = [
    ('to_thread_state', mach.to_thread_state, TH_BITS, None),
    ('to_sampler_action', perf.to_sampler_action, SAMPLER_BITS, None),
    ('to_kperf_ti_state', perf.to_kperf_ti_state, TI_BITS, None),
    ('to_callstack_flags', perf.to_callstack_flags, CS_BITS, None),
    ('to_rtld_flags', dyld.to_rtld_flags, RTLD_BITS, None),
    ('to_vm_prot', mach.to_vm_prot, VM_BITS, 'VM_PROT_NONE'),
    ('to_ast_reasons', mach.to_ast_reasons, AST_BITS, 'AST_NONE'),
    ('serialize_access_flags', bsd.serialize_access_flags, ACCESS_BITS, 'F_OK'),
]
for label, fn, bits, zero in simple:
    for w in sample_words(bits):
        n_inputs += 1
        members = fn(w)
        shown = names_of(members)
        if zero in ('VM_PROT_NONE', 'AST_NONE'):
            # the zero name stands for the value 0 of the whole word
            expect_bits(label, w, shown, bits, zero, zero_when=(w == 0))
        else:
            expect_bits(label, w, shown, bits, zero)
        for m in members:  # names carry Darwin's numeric values
            check(m.value == dict(bits, **{zero: 0} if zero else {}).get(m.name), f'{label}: {m.name} = {m.value:#x}')

# words decoded inside handlers; checked through the rendered line -----------------------------------------------------
for w in sample_words(MSG_BITS):
    n_inputs += 1
    line = str(bsd.handle_recvfrom(None, [ev(3, 0x1000, 16, w), OK_END]))
    shown = re.fullmatch(r'recvfrom\(3, 0x1000, 16, (.*)\), count: 0', line).group(1)
    expect_bits('recvfrom', w, [] if shown == '0' else shown.split(' | '), MSG_BITS)
for w in sample_words(CHFLAGS_BITS):
    n_inputs += 1
    line = str(bsd.handle_fchflags(None, [ev(3, w), OK_END]))
    shown = re.fullmatch(r'fchflags\(3, (.*)\)', line).group(1)
    expect_bits('fchflags', w, shown.split(' | ') if shown else [], CHFLAGS_BITS)
for w in sample_words(LOCK_BITS):
    n_inputs += 1
    line = str(bsd.handle_sys_flock(None, [ev(3, w), OK_END]))
    shown = re.fullmatch(r'flock\(3, (.*)\)', line).group(1)
    expect_bits('flock', w, shown.split(' | ') if shown else [], LOCK_BITS)

# open flags: access mode field + single bits (access mode 3 = O_ACCMODE, the mask itself, is left out here) ---------
for w in sample_words(O_BITS):
    for acc in (0, 1, 2):
        n_inputs += 1
        word = (w & ~3) | acc
        members = bsd.serialize_open_flags(word)
        shown = names_of(members)
        expect_bits('serialize_open_flags', word, shown, O_BITS, O_ACC[acc], zero_when=True)
        check(len([n for n in shown if n in O_ACC.values() or n == 'O_ACCMODE']) == 1,
              f'serialize_open_flags({word:#x}): access mode must be shown exactly once: {shown}')
        for m in members:
            check(m.value == dict(O_BITS, O_RDONLY=0, O_WRONLY=1, O_RDWR=2)[m.name], f'open: {m.name}={m.value:#x}')

# file modes: file type field + permission bits -----------------------------------------------------------------------
for w in sample_words(S_BITS):
    for ftype in range(0, 0o200000, 0o10000):  # every value of the 4 bit field
        n_inputs += 1
        word = (w & ~0o170000) | ftype
        members = bsd.serialize_stat_flags(word)
        shown = names_of(members)
        type_name = S_TYPES.get(ftype)
        expect_bits('serialize_stat_flags', word, shown, S_BITS, type_name, zero_when=type_name is not None)
        for m in members:
            check(m.value == dict(S_BITS, **{v: k for k, v in S_TYPES.items()})[m.name], f'stat: {m.name}')


# ioctl request words -------------------------------------------------------------------------------------------------
def eval_direction(text):
    """Numeric value of the direction expression, with Darwin's values for the names; integer literals allowed."""
    total = 0
    for term in text.split(' | '):
        total |= IOC[term] if term in IOC else int(term, 0)
    return total


def ioctl_line(request):
    return str(bsd.handle_ioctl(None, [ev(5, request, 0x7ffe0000), OK_END]))


IOC_RE = re.compile(r"ioctl\(5, (0x[0-9a-f]+) /\* _IOC\((.*), '(.)', (\d+), (\d+)\) \*/, 0x7ffe0000\)", re.S)
MACRO_DIRECTIONS = (0x20000000, 0x40000000, 0x80000000, 0xc0000000, 0xe0000000)
requests = [
    0x20007461,  # TIOCSCTTY-like _IO('t', 97)
    0x4004667a,  # _IOR('f', 122, int)
    0x8004667e,  # FIONBIO  _IOW('f', 126, int)
    0xc0206911,  # _IOWR('i', 17, 32)
    0x40087468,  # TIOCGWINSZ
    0xdfff00ff, 0xe0000000, 0xffffffff, 0x3fffffff, 0x20002700 | ord("'") << 8,
    0x5401, 0x00000000, 0x1fffffff, 0x60006601, 0xa0040a0a, 0x7fffffff, 0xbfffffff,
]
for d in range(8):
    for _ in range(4):
        requests.append(d << 29 | rnd.getrandbits(29))
rendered_other = 0
for req in requests:
    n_inputs += 1
    direction = req & 0xe0000000
    try:
        line = ioctl_line(req)
    except KeyError:
        # Only tolerated where the _IO* macros cannot produce the direction (behaviour of the unchanged code).
        check(direction not in MACRO_DIRECTIONS, f'ioctl({req:#x}): KeyError')
        continue
    m = IOC_RE.fullmatch(line)
    check(m is not None, f'ioctl({req:#x}): cannot parse {line!r}')
    if m is None:
        continue
    shown_req, dir_text, group, num, length = m.groups()
    try:
        inout = eval_direction(dir_text)
    except (KeyError, ValueError):
        check(False, f'ioctl({req:#x}): direction {dir_text!r} is not made of Darwin names')
        continue
    check(int(shown_req, 16) == req, f'ioctl({req:#x}): request shown as {shown_req}')
    check(inout & ~0xe0000000 == 0, f'ioctl({req:#x}): direction {dir_text!r} outside IOC_DIRMASK')
    check(0 <= int(num) <= 0xff and 0 <= int(length) <= IOCPARM_MASK and len(group) == 1 and ord(group) <= 0xff,
          f'ioctl({req:#x}): field out of range in {line!r}')
    check(darwin_ioc(inout, ord(group), int(num), int(length)) == req,
          f'ioctl({req:#x}): {line!r} packs to {darwin_ioc(inout, ord(group), int(num), int(length)):#x}')
    if direction not in MACRO_DIRECTIONS:
        rendered_other += 1

try:
    difference = ioctl_line(0x5401)
except KeyError as e:
    difference = f'raises KeyError({e})'
print(f"observable difference: str() of ioctl(5, 0x5401, ...) [direction bits all clear] -> {difference}")

print(f'{n_inputs} inputs checked, {len(failures)} failures')
for f in failures[:20]:
    print('FAIL', f)
sys.exit(1 if failures else 0)
