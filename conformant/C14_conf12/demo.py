import os, sys; sys.path.insert(0, os.getcwd())
"""
Property C14 demo: lines name the process the dump declares for the thread; columns compose.

Run as:  cd /tmp/seed12_C14 && /venv/bin/python /tmp/seed_out12/C14/demo.py

Builds a few dozen version-2 dumps (arbitrary thread maps, arbitrary sequences of new-thread / new-thread-name /
terminate-pid / sampler records mixed with ordinary syscalls and kperf samples) and checks, for all 2^6 column
switches x colour on/off, the clauses of the statement against an oracle that is written from the statement only
(a dictionary that replays the declarations of the dump):

  (1) composition: every line is the concatenation, in the fixed order, of the enabled columns, where the columns
      are taken from the runs that enable exactly one column (so switching a column off removes exactly it);
  (2) colour: after removing the escape sequences, the line with colours equals the line without colours;
  (3) process: the process column is `name(pid)` of the process the dump declared for the emitting thread at that
      point of the stream, and for a thread that was never declared it is not of the form `...(<number>)` at all.

Exits 0 if everything holds (on the unchanged and on the changed code), 1 otherwise.
"""
import io
import itertools
import random
import re
import struct

import pykdebugparser
from pykdebugparser.pykdebugparser import PyKdebugParser
from pykdebugparser.trace_codes import default_trace_codes

print('testing', pykdebugparser.__file__)

CODES = default_trace_codes()
ANSI = re.compile(r'\x1b\[[0-9;]*m')

BSC_GETPID = 0x40c0050
TRACE_DATA_NEWTHREAD = 0x7000004
TRACE_DATA_THREAD_TERMINATE_PID = 0x7000010
TRACE_STRING_NEWTHREAD = 0x7010004
PERF_EVENT = 0x25000000
PERF_THD_DATA = 0x25010004
PERF_STK_UDATA = 0x25020010
PERF_STK_UHDR = 0x25020018
NONE, START, END = 0, 1, 2
SAMPLER_TH_INFO, SAMPLER_USTACK = 0x1, 0x8

SWITCHES = ['show_timestamp', 'show_name', 'show_func_qual', 'show_tid', 'show_process', 'show_args']

failures = []


def fail(msg):
    failures.append(msg)
    if len(failures) <= 20:
        print('FAIL', msg)


# ---------------------------------------------------------------------------------------------------------------
# building dumps
# ---------------------------------------------------------------------------------------------------------------

def kd_buf(timestamp, tid, eventid, qual, values=(0, 0, 0, 0), raw=None):
    args = raw if raw is not None else struct.pack('<QQQQ', *values)
    return struct.pack('<Q32sQIIQ', timestamp, args, tid, eventid | qual, 0, 0)


def dump_v2(threadmap, events):
    out = b'\x00\x02\xaa\x55'
    out += struct.pack('<I', len(threadmap)) + b'\x00' * 12 + struct.pack('<IQ', 1, 24000000) + b'\x00' * 0x100
    for tid, pid, name in threadmap:
        out += struct.pack('<QI', tid, pid) + name.encode().ljust(0x14, b'\x00')
    return out + b''.join(events)


class Stream:
    """
    A dump together with what the statement says about it.
    lines: timestamp of the first record of a line -> (emitting tid, expected process or None, ambiguous)
    """

    def __init__(self, rng, with_updates):
        tids = [0x100 + i for i in range(8)]
        pids = [1, 77, 300, 4242, 70000]
        names_pool = ['launchd', 'kernel_task', 'a b', '', 'Some-App_19chars_xx', 'x(9)']
        pid_name = {pid: rng.choice(names_pool) for pid in pids}
        declared = rng.sample(tids, rng.randint(0, 6))
        self.threadmap = [(tid, pid, pid_name[pid]) for tid in declared for pid in [rng.choice(pids)]]
        # the oracle: a replay of the declarations
        tp = {tid: pid for tid, pid, _ in self.threadmap}
        nm = {pid: name for _, pid, name in self.threadmap}
        self.map_only = dict(tp), dict(nm)
        last_newthread = {}
        self.events = []
        self.event_tids = []
        self.lines = {}
        self.callstacks = {}
        self.has_updates = False
        counter = itertools.count()

        def emit(tid, eventid, qual, values=(0, 0, 0, 0), raw=None):
            ts = 0x10001 + next(counter) * 0x100  # low byte is never zero: the pad of the header is zeros
            self.events.append(kd_buf(ts, tid, eventid, qual, values, raw))
            self.event_tids.append(tid)
            return ts

        def expected(tid):
            pid = tp.get(tid)
            return None if pid is None else f'{nm.get(pid, "")}({pid})'

        pending_end = []  # [countdown, tid, start timestamp]
        open_getpid = set()
        for _ in range(rng.randint(8, 22)):
            for p in pending_end:
                p[0] -= 1
            for p in [p for p in pending_end if p[0] <= 0]:
                pending_end.remove(p)
                emit(p[1], BSC_GETPID, END, (0, 5, 0, 0))
                open_getpid.discard(p[1])
                self.lines[p[2]] = (p[1], expected(p[1]), False)
            tid = rng.choice(tids)
            kind = rng.choice(['getpid', 'getpid', 'newthread', 'termpid', 'thd', 'sample', 'single_stk']
                              if with_updates else ['getpid', 'getpid', 'sample_nothd', 'single_stk'])
            if kind == 'getpid':
                if tid in open_getpid:
                    continue
                ts = emit(tid, BSC_GETPID, START)
                open_getpid.add(tid)
                pending_end.append([rng.randint(1, 3), tid, ts])
            elif kind == 'newthread':
                child, pid = rng.choice(tids), rng.choice(pids + [9, 12345])
                self.has_updates = True
                ts = emit(tid, TRACE_DATA_NEWTHREAD, NONE, (child, pid, 0, 7))
                tp[child] = pid
                last_newthread[tid] = pid
                self.lines[ts] = (tid, expected(tid), child == tid)
                if rng.random() < 0.6:
                    name = rng.choice(['newproc', 'helper tool', 'sh'])
                    ts = emit(tid, TRACE_STRING_NEWTHREAD, NONE, raw=name.encode().ljust(32, b'\x00'))
                    nm[last_newthread[tid]] = name
                    self.lines[ts] = (tid, expected(tid), False)
            elif kind == 'termpid':
                pid = rng.choice(pids + [9])
                self.has_updates = True
                ts = emit(tid, TRACE_DATA_THREAD_TERMINATE_PID, NONE, (pid, 3, 0, 0))
                tp[tid] = pid
                self.lines[ts] = (tid, expected(tid), True)
            elif kind == 'thd':
                target, pid = rng.choice(tids), rng.choice(pids + [555])
                self.has_updates = True
                ts = emit(tid, PERF_THD_DATA, NONE, (pid, target, 0, 1))
                tp[target] = pid
                self.lines[ts] = (tid, expected(tid), target == tid)
            elif kind in ('sample', 'sample_nothd'):
                # a kperf sample: the records between START and END are contiguous
                with_thd = kind == 'sample' and rng.random() < 0.7
                flags = SAMPLER_USTACK | (SAMPLER_TH_INFO if with_thd else 0)
                ts0 = emit(tid, PERF_EVENT, START, (flags, 1, 0, 0))
                if with_thd:
                    target, pid = rng.choice([tid, rng.choice(tids)]), rng.choice(pids + [555])
                    self.has_updates = True
                    ts = emit(tid, PERF_THD_DATA, NONE, (pid, target, 0, 1))
                    tp[target] = pid
                    self.lines[ts] = (tid, expected(tid), target == tid)
                nframes = rng.randint(0, 5)
                ts = emit(tid, PERF_STK_UHDR, NONE, (1 | 4, nframes, 0, 0))
                self.lines[ts] = (tid, expected(tid), False)
                for first in range(0, nframes, 4):
                    ts = emit(tid, PERF_STK_UDATA, NONE, tuple(0x7fff00001000 + first + i for i in range(4)))
                    self.lines[ts] = (tid, expected(tid), False)
                emit(tid, PERF_EVENT, END)
                self.lines[ts0] = (tid, expected(tid), False)
                self.callstacks[ts0] = (tid, expected(tid), nframes)
            elif kind == 'single_stk':
                ts = emit(tid, PERF_STK_UDATA, NONE, (1, 2, 3, 4))
                self.lines[ts] = (tid, expected(tid), False)
        self.blob = dump_v2(self.threadmap, self.events)


# ---------------------------------------------------------------------------------------------------------------
# running the package
# ---------------------------------------------------------------------------------------------------------------

def run(stream, method, config, color):
    parser = PyKdebugParser()
    for switch, value in zip(SWITCHES, config):
        setattr(parser, switch, value)
    parser.color = color
    return list(getattr(parser, method)(io.BytesIO(stream.blob), CODES))


def only(*switches):
    return tuple(s in switches for s in SWITCHES)


def check_process(where, column, tid, expect):
    text = ANSI.sub('', column).strip()
    if expect is not None:
        if text != expect:
            fail(f'{where}: thread {tid:#x} declared as {expect!r}, the line says {text!r}')
    else:
        if re.fullmatch(r'.*\(-?\d+\)', text, re.S):
            fail(f'{where}: thread {tid:#x} was never declared, the line attributes it to {text!r}')
        if not text:
            fail(f'{where}: thread {tid:#x} was never declared and nothing is reported')


def check_prefixed(sid, stream, method, expected_lines, body_of):
    """
    formatted_traces / formatted_callstacks: columns timestamp, thread id, process, then the body.
    The other three switches have no column in these lines.
    """
    for color in (False, True):
        bodies = run(stream, method, only(), color)
        if len(bodies) != len(expected_lines):
            fail(f'stream {sid} {method}: {len(bodies)} lines, the oracle expects {len(expected_lines)}')
            return
        columns = {}
        for switch in ('show_timestamp', 'show_tid', 'show_process'):
            single = run(stream, method, only(switch), color)
            cols = []
            for line, body in zip(single, bodies):
                if not line.endswith(body):
                    fail(f'stream {sid} {method} color={color}: enabling {switch} altered the body')
                cols.append(line[:len(line) - len(body)])
            columns[switch] = cols
        # which record a line belongs to: its timestamp column
        stamps = [int(ANSI.sub('', c)) for c in columns['show_timestamp']]
        if sorted(stamps) != sorted(expected_lines):
            fail(f'stream {sid} {method}: the lines are not the ones the oracle expects')
            return
        for config in itertools.product((False, True), repeat=6):
            lines = run(stream, method, config, color)
            plain = run(stream, method, config, False) if color else lines
            enabled = dict(zip(SWITCHES, config))
            for i, line in enumerate(lines):
                want = ''.join(columns[s][i] for s in ('show_timestamp', 'show_tid', 'show_process') if enabled[s])
                want += bodies[i]
                if line != want:
                    fail(f'stream {sid} {method} color={color} {config}: line {i} is not the concatenation of its '
                         f'columns: {line!r} != {want!r}')
                if ANSI.sub('', line) != ANSI.sub('', plain[i]):
                    fail(f'stream {sid} {method} {config}: colour changed the text of line {i}: '
                         f'{ANSI.sub("", line)!r} != {plain[i]!r}')
        for i, stamp in enumerate(stamps):
            tid, expect, ambiguous = expected_lines[stamp][:3]
            if int(ANSI.sub('', columns['show_tid'][i])) != tid:
                fail(f'stream {sid} {method}: thread id column of line {i}')
            if not ambiguous:
                # a record that redeclares its own thread: the statement speaks of EARLIER records, not checked
                check_process(f'stream {sid} {method} color={color} line {i}', columns['show_process'][i], tid, expect)
            body_of(i, stamp, bodies[i])


def check_kevents(sid, stream):
    order = SWITCHES  # timestamp, name, qualifier, thread id, process, arguments
    for color in (False, True):
        columns = {s: run(stream, 'formatted_kevents', only(s), color) for s in order}
        if any(line != '' for line in run(stream, 'formatted_kevents', only(), color)):
            fail(f'stream {sid} kevents: a line without columns is not empty')
        for config in itertools.product((False, True), repeat=6):
            lines = run(stream, 'formatted_kevents', config, color)
            plain = run(stream, 'formatted_kevents', config, False) if color else lines
            if len(lines) != len(stream.events):
                fail(f'stream {sid} kevents: number of lines')
                return
            for i, line in enumerate(lines):
                want = ''.join(columns[s][i] for s, on in zip(order, config) if on)
                if line != want:
                    fail(f'stream {sid} kevents color={color} {config}: line {i} is not the concatenation')
                if ANSI.sub('', line) != ANSI.sub('', plain[i]):
                    fail(f'stream {sid} kevents {config}: colour changed the text')
        if not stream.has_updates:
            tp, nm = stream.map_only
            for i, tid in enumerate(stream.event_tids):
                pid = tp.get(tid)
                expect = None if pid is None else f'{nm.get(pid, "")}({pid})'
                check_process(f'stream {sid} kevents line {i}', columns['show_process'][i], tid, expect)


def main():
    rng = random.Random(1414)
    streams = [Stream(rng, with_updates=i >= 8) for i in range(36)]
    n_lines = 0
    for sid, stream in enumerate(streams):
        def trace_body(i, stamp, body):
            if not ANSI.sub('', body):
                fail(f'stream {sid} traces: empty body')

        def callstack_body(i, stamp, body):
            frames = ANSI.sub('', body).split('\n')
            if frames[0] != '' or len(frames) - 1 != stream.callstacks[stamp][2]:
                fail(f'stream {sid} callstacks: frames of callstack {i}: {body!r}')

        check_prefixed(sid, stream, 'formatted_traces', stream.lines, trace_body)
        check_prefixed(sid, stream, 'formatted_callstacks',
                       {k: (v[0], v[1], False) for k, v in stream.callstacks.items()}, callstack_body)
        check_kevents(sid, stream)
        n_lines += len(stream.lines) + len(stream.callstacks) + len(stream.events)

    undeclared = sum(1 for s in streams for v in s.lines.values() if v[1] is None)
    print(f'{len(streams)} dumps, {n_lines} lines ({undeclared} trace lines of undeclared threads), '
          f'64 column configurations x colour on/off each')

    # the observable difference: with colours on, are the columns in front of a trace painted?
    sample = next(s for s in streams if s.lines)
    parser = PyKdebugParser()
    parser.show_tid = True
    line = next(iter(parser.formatted_traces(io.BytesIO(sample.blob), CODES)))
    body = run(sample, 'formatted_traces', only(), True)[0]
    prefix = line[:len(line) - len(body)]
    print(f'OBSERVABLE: colour on, columns in front of the first trace line are '
          f'{"PAINTED" if ANSI.search(prefix) else "plain"}: {prefix!r}  (without escapes: {ANSI.sub("", prefix)!r})')

    if failures:
        print(f'{len(failures)} FAILURES')
        return 1
    print('OK: property C14 holds on all inputs tried')
    return 0


if __name__ == '__main__':
    sys.exit(main())
