"""
C01 demo: every 64-byte kd_buf record decodes exactly and totally.
Run as:  cd /tmp/seed10_C01 && /venv/bin/python /tmp/seed_out10/C01/demo.py
Exits 0 on both the unchanged and the changed code; prints one line with the observable difference
(the exception type raised for an OUT-OF-DOMAIN, 63-byte buffer).
"""
import os, sys; sys.path.insert(0, os.getcwd())  # noqa: E401,E702

import random
import struct

import pykdebugparser
from pykdebugparser.kevent import from_kd_buf, Kevent

print('testing', pykdebugparser.__file__)

FIELDS = {  # name: (offset, size)  -- the kd_buf layout of the statement
    'timestamp': (0, 8), 'args': (8, 32), 'tid': (40, 8), 'debugid': (48, 4), 'cpuid': (52, 4), 'unused': (56, 8),
}


def le(b):
    return int.from_bytes(b, 'little')


def oracle(rec):
    """Expected event, derived from the statement only (no struct module)."""
    assert len(rec) == 64
    data = bytes(rec[8:40])
    debugid = le(rec[48:52])
    return dict(timestamp=le(rec[0:8]), data=data,
                values=tuple(le(data[i:i + 8]) for i in range(0, 32, 8)),
                tid=le(rec[40:48]), debugid=debugid,
                eventid=debugid & ~3 & 0xffffffff, func_qualifier=debugid & 3)


failures = []


def check(rec, label):
    try:
        ev = from_kd_buf(rec)
    except Exception as e:  # totality: no 64-byte record may raise
        failures.append(f'{label}: raised {type(e).__name__}: {e}')
        return None
    exp = oracle(rec)
    for name, want in exp.items():
        got = getattr(ev, name)
        if name == 'values':
            got = tuple(got)
            if len(got) != 4:
                failures.append(f'{label}: values has {len(got)} items')
        if got != want:
            failures.append(f'{label}: {name}: got {got!r}, want {want!r}')
    if not isinstance(ev.data, bytes) or len(ev.data) != 32:
        failures.append(f'{label}: data is not 32 bytes: {ev.data!r}')
    if ev.func_qualifier not in (0, 1, 2, 3):
        failures.append(f'{label}: qualifier out of range: {ev.func_qualifier!r}')
    if ev.eventid & 3:
        failures.append(f'{label}: eventid has low bits set')
    if ev.eventid | ev.func_qualifier != ev.debugid:
        failures.append(f'{label}: eventid|qualifier != debugid')
    # first 52 bytes can be rebuilt from the event
    rebuilt = (ev.timestamp.to_bytes(8, 'little') + b''.join(v.to_bytes(8, 'little') for v in ev.values)
               + ev.tid.to_bytes(8, 'little') + (ev.eventid | ev.func_qualifier).to_bytes(4, 'little'))
    if rebuilt != bytes(rec[:52]):
        failures.append(f'{label}: first 52 bytes not rebuilt')
    rebuilt2 = struct.pack('<Q32sQI', ev.timestamp, ev.data, ev.tid, ev.debugid)
    if rebuilt2 != bytes(rec[:52]):
        failures.append(f'{label}: first 52 bytes not rebuilt from data')
    return ev


rng = random.Random(0xC01)
records = [
    (bytes(64), 'zeros'),
    (b'\xff' * 64, 'ones'),
    (bytes(range(64)), 'ramp'),
    (bytes(range(255, 191, -1)), 'downramp'),
    (b'\x8b\xf3\x8f1\x13\xeb\x03\x00ework_BusinessChat-7.0.1-py2.py3\xdeJ\x88\x00\x00\x00\x00\x00\x90\x00\x01'
     b'\x03\x01\x00\x00\x00\x00\x00\x00\x00\x00\x00\x00\x00', 'test-suite sample'),
]
# every single bit position of the record, on a zero and on an all-ones background
for bit in range(512):
    r = bytearray(64)
    r[bit // 8] |= 1 << (bit % 8)
    records.append((bytes(r), f'bit {bit} set'))
    r = bytearray(b'\xff' * 64)
    r[bit // 8] &= ~(1 << (bit % 8)) & 0xff
    records.append((bytes(r), f'bit {bit} cleared'))
# every field alone at all-ones, and all-ones except that field
for name, (off, size) in FIELDS.items():
    r = bytearray(64)
    r[off:off + size] = b'\xff' * size
    records.append((bytes(r), f'only {name}'))
    records.append((bytes(b ^ 0xff for b in r), f'all but {name}'))
# the four qualifiers on a few event ids, sign-bit patterns
for base in (0, 0x01000000, 0x7ffffffc, 0x80000000, 0xfffffffc, 0x04030210):
    for q in range(4):
        r = bytearray(rng.randbytes(64))
        r[48:52] = (base | q).to_bytes(4, 'little')
        records.append((bytes(r), f'debugid {base | q:#x}'))
for i in range(200):
    records.append((rng.randbytes(64), f'random {i}'))

for rec, label in records:
    ev = check(rec, label)
    if ev is None:
        continue
    # no output field depends on a byte outside its own field: perturb each field in turn,
    # all OTHER outputs must stay the same.
    outputs_of = {'timestamp': {'timestamp'}, 'args': {'data', 'values'}, 'tid': {'tid'},
                  'debugid': {'debugid', 'eventid', 'func_qualifier'}, 'cpuid': set(), 'unused': set()}
    for name, (off, size) in FIELDS.items():
        r = bytearray(rec)
        r[off:off + size] = bytes(b ^ m for b, m in zip(r[off:off + size], rng.randbytes(size)))
        ev2 = check(bytes(r), f'{label} / perturbed {name}')
        if ev2 is None:
            continue
        for f in Kevent._fields:
            if f not in outputs_of[name] and getattr(ev, f) != getattr(ev2, f):
                failures.append(f'{label}: output {f} changed when only {name} bytes changed')

# same record handed over in another bytes-like container decodes to the same event (not pinned by the statement,
# held before and after)
sample = records[4][0]
if tuple(from_kd_buf(bytearray(sample))) != tuple(from_kd_buf(sample)):
    failures.append('bytearray input decodes differently')

# Observable difference: OUT-OF-DOMAIN input (not 64 bytes). Not part of the property; only reported.
outcomes = []
for bad in (bytes(63), bytes(65), b''):
    try:
        from_kd_buf(bad)
        outcomes.append(f'{len(bad)}B -> no error')
    except Exception as e:
        outcomes.append(f'{len(bad)}B -> {type(e).__module__}.{type(e).__name__}({e})')
print('OBSERVABLE (out of domain, informational):', '; '.join(outcomes))

print(f'checked {len(records)} base records (+6 perturbations each)')
if failures:
    print(f'{len(failures)} FAILURES')
    for f in failures[:20]:
        print('  ', f)
    sys.exit(1)
print('C01 holds on all demo inputs')
sys.exit(0)
