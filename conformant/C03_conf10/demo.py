import os, sys; sys.path.insert(0, os.getcwd())  # noqa: E401,E702

"""
Property C03 demo: a version-3 dump yields all chunked events, then logs, plus metadata sections.

Run as:  cd /tmp/seed10_C03 && /venv/bin/python /tmp/seed_out10/C03/demo.py
Exits 0 when the property holds on every generated dump (on the unchanged and on the changed code),
1 otherwise.  The oracle below is derived from the statement only (it decodes records with struct and
resolves log strings by hand, it does not call the parser's helpers).
"""
import io
import plistlib
import random
import struct
from datetime import datetime, timezone

import pykdebugparser
from pykdebugparser.kd_buf_parser import KdBufParser
from pykdebugparser.os_log_event import OsLogEvent, OsLogType

print('testing', pykdebugparser.__file__)

V3 = b'\x00\x03\xaa\x55'
STACKSHOT_END = b'stackshot_out_fl'
THREADMAP_TAG = b'\x00\x1d\x00\x00\x00\x00\x00\x00'
EVENTS_TAG = b'\x00\x1e\x00\x00\x00\x00\x00\x00'
MORE_EVENTS = b'\x00\x20\x00\x00\x00\x00\x00\x00'
DYLD_MODULES = b'\x01\x80\x00\x00\x00\x00\x00\x00'
TRACE_CODES = b'\x0f\x80\x00\x00\x00\x00\x00\x00'
PROCESSES = b'\x10\x80\x00\x00\x00\x00\x00\x00'
LOG_EVENTS = b'\x11\x80\x00\x00\x00\x00\x00\x00'
LOG_STRINGS = b'\x12\x80\x00\x00\x00\x00\x00\x00'
KEXTS = b'\x05\x80\x00\x00\x00\x00\x00\x00'
IMAGES = b'\x04\x80\x00\x00\x01\x00\x00\x00'
UNKNOWN = b'\x77\x80\x00\x00\x00\x00\x00\x00'


# ----------------------------------------------------------------------------------------------- builder

def build_record(rng):
    return struct.pack('<Q32sQIIQ', rng.getrandbits(64), bytes(rng.getrandbits(8) for _ in range(32)),
                       rng.getrandbits(64), rng.getrandbits(32), rng.getrandbits(32), rng.getrandbits(64))


def decode_record(record):
    """Oracle: the decoding of a 64 byte record, written from the kd_buf layout."""
    timestamp, = struct.unpack_from('<Q', record, 0)
    data = record[8:40]
    values = struct.unpack_from('<4Q', record, 8)
    tid, = struct.unpack_from('<Q', record, 40)
    debugid, = struct.unpack_from('<I', record, 48)
    return timestamp, data, values, tid, debugid, debugid & 0xfffffffc, debugid & 3


def safe_filler(rng, size, marker):
    """Random bytes such that a scan for the marker that follows them stops exactly at that marker."""
    while True:
        filler = bytes(rng.getrandbits(8) for _ in range(size))
        if (filler + marker).find(marker) == len(filler):
            return filler


def build_dump(rng, chunks, threadmap, filler, blocks, pad_last_block=True, size_includes_timestamp=False):
    cpu_info = plistlib.dumps({'cpus': rng.randrange(1, 9)}, fmt=plistlib.FMT_BINARY)
    header = struct.pack('<IIQIIQQIIIII', 0x00001000, 0x00030001, 0, 125, 3, rng.getrandbits(40),
                         1_600_000_000, 17, 0, 0, 1, 0x00001100)
    header += struct.pack('<Q', len(cpu_info)) + cpu_info
    header += b'\x00' * (-len(header) % 8)
    out = V3 + header + b'\x00' * 4
    # The stackshot: anything, the thread-map tag included, closed by the stackshot end marker.
    out += filler + STACKSHOT_END
    out += safe_filler(rng, rng.randrange(0, 24), THREADMAP_TAG) + THREADMAP_TAG
    entries = b''.join(struct.pack('<QI20s', tid, pid, name.encode()) for tid, pid, name in threadmap)
    out += struct.pack('<Q', len(entries)) + entries
    for i, chunk in enumerate(chunks):
        if i:
            out += MORE_EVENTS + struct.pack('<Q', 0x30 + 64 * len(chunk))
        size = 64 * len(chunk) + (8 if size_includes_timestamp else 0)
        if not i:
            build_dump.first_chunk_offset = len(out)
        out += EVENTS_TAG + struct.pack('<Q', size) + b'\x00' * 8 + b''.join(chunk)
    for j, (tag, payload) in enumerate(blocks):
        out += tag + struct.pack('<Q', len(payload)) + payload
        if pad_last_block or j != len(blocks) - 1:
            out += b'\x00' * (-len(payload) % 8)
    return out


NAMES = ['launchd', 'kernel_task', 'SpringBoard', 'backboardd', 'mediaserverd', 'logd', 'a', 'x' * 19]
STRINGS = ['', 'hello %s', 'hello world', '/usr/libexec/logd', 'logd', 'com.apple.sub', 'cat', 'libsystem',
           '/usr/lib/libsystem.dylib', 'SpringBoard', 'backboardd', '%d items', '3 items', 'kernel', 'n']


def build_raw_log(rng, index):
    """A raw log record (with string indexes) and the fields the statement expects for it."""
    def ref(s):
        return index[s]

    message = rng.choice(STRINGS)
    sec, usec = rng.randrange(1_500_000_000, 1_700_000_000), rng.randrange(0, 1_000_000)
    raw = {'cm': ref(message), 't': rng.choice(['logEvent', 'signpostEvent', 'activityCreateEvent']),
           's': rng.randrange(0, 4096), 'tid': rng.choice([0, rng.randrange(1, 1 << 20)]),
           'ns': rng.getrandbits(48), 'mct': rng.getrandbits(48), 'b': bytes(rng.getrandbits(8) for _ in range(16)),
           'piu': bytes(rng.getrandbits(8) for _ in range(16)), 'ud': {'sec': sec, 'usec': usec},
           'utz': {'mw': rng.randrange(-720, 720), 'dt': rng.randrange(0, 2)}}
    expected = {'composed_message': message, 'type_': raw['t'], 'size': raw['s'], 'thread_identifier': raw['tid'],
                'continuous_nanoseconds_since_boot': raw['ns'], 'mach_continuous_timestamp': raw['mct'],
                'boot_uuid': raw['b'], 'process_image_uuid': raw['piu'],
                'unix_date': datetime.fromtimestamp(sec + usec / 10 ** 6, tz=timezone.utc),
                'unix_timezone': {'minutes_west': raw['utz']['mw'], 'dst_time': raw['utz']['dt']}}
    strings = {'p': 'process', 'pip': 'process_image_path', 'send': 'sender', 'sip': 'sender_image_path',
               'sub': 'subsystem', 'cat': 'category', 'f': 'format_string', 'sn': 'signpost_name'}
    for key, field in strings.items():
        if rng.random() < 0.5:
            s = rng.choice(STRINGS)
            raw[key] = ref(s)
            expected[field] = s
    numbers = {'pid': 'process_identifier', 'sio': 'sender_image_offset', 'ttl': 'time_to_live',
               'aid': 'activity_identifier', 'paid': 'parent_activity_identifier', 'si': 'signpost_identifier'}
    for key, field in numbers.items():
        if rng.random() < 0.5:
            raw[key] = expected[field] = rng.randrange(0, 1 << 31)
    if rng.random() < 0.5:
        lt = rng.choice([0, 1, 2, 0x10, 0x11])
        raw['lt'] = lt
        expected['log_type'] = OsLogType(lt)
    if rng.random() < 0.3:
        fmt, arg = rng.choice(STRINGS), rng.choice(STRINGS)
        raw['dm'] = {'pc': 1, 's': 0, 'seg': [{'lp': ref(fmt), 'a': {'c': 2, 'p': 1, 'or': ref(arg)}}]}
        expected['decomposed_message'] = {'placeholder_count': 1, 'state': 0, 'segments': [
            {'literal_prefix': fmt, 'arg': {'privacy': 1, 'category': 2, 'object_representation': arg}}]}
    return raw, OsLogEvent(**expected)


def build_case(rng, n_events=None, n_chunks=None):
    n_events = rng.choice([0, 1, 2, 5, 17, 64]) if n_events is None else n_events
    records = [build_record(rng) for _ in range(n_events)]
    n_chunks = rng.randrange(1, 6) if n_chunks is None else n_chunks
    cuts = sorted(rng.randrange(0, n_events + 1) for _ in range(n_chunks - 1))
    chunks = [records[a:b] for a, b in zip([0] + cuts, cuts + [n_events])]

    threadmap = []
    for _ in range(rng.randrange(0, 7)):
        threadmap.append((rng.randrange(1, 1 << 20), rng.randrange(0, 500), rng.choice(NAMES)))
    filler = safe_filler(rng, rng.randrange(0, 200), STACKSHOT_END)
    if rng.random() < 0.5:
        # The thread-map tag (and an events tag) may occur inside the stackshot.
        filler += THREADMAP_TAG + safe_filler(rng, 40, STACKSHOT_END) + EVENTS_TAG
    assert (filler + STACKSHOT_END).find(STACKSHOT_END) == len(filler)

    strings = list(STRINGS)
    rng.shuffle(strings)
    index = {s: 100 + i for i, s in enumerate(strings)}

    blocks = []
    expected = {'processes': {}, 'images': {}, 'kexts': {'Binaries': []}, 'dyld': {}, 'codes': '', 'logs': []}
    log_blocks = []
    for _ in range(rng.randrange(0, 4)):
        raws = []
        for _ in range(rng.randrange(0, 5)):
            raw, exp = build_raw_log(rng, index)
            raws.append(raw)
            expected['logs'].append(exp)
        log_blocks.append((LOG_EVENTS, plistlib.dumps({'Events': raws}, fmt=plistlib.FMT_BINARY)))
    other = []
    if rng.random() < 0.6:
        expected['processes'] = {'Processes': [{'Name': rng.choice(NAMES), 'PID': rng.randrange(500)}
                                               for _ in range(rng.randrange(0, 4))]}
        other.append((PROCESSES, plistlib.dumps(expected['processes'], fmt=plistlib.FMT_BINARY)))
    if rng.random() < 0.6:
        expected['images'] = {'Images': [{'UUID': '%032X' % rng.getrandbits(128), 'Path': rng.choice(STRINGS)}
                                         for _ in range(rng.randrange(0, 4))], 'Arch': 'arm64e'}
        other.append((IMAGES, plistlib.dumps(expected['images'])))
    kext_blocks = []
    for _ in range(rng.randrange(0, 4)):
        binaries = [{'Name': 'com.apple.kext%d' % rng.randrange(100), 'Address': rng.getrandbits(48)}
                    for _ in range(rng.randrange(0, 4))]
        kext_blocks.append((KEXTS, plistlib.dumps({'Binaries': binaries}, fmt=plistlib.FMT_BINARY)))
        expected['kexts']['Binaries'] += binaries
    dyld_blocks = []
    for k in range(rng.randrange(0, 4)):
        binaries = [{'Name': 'lib%d.dylib' % rng.randrange(100), 'Address': rng.getrandbits(48)}
                    for _ in range(rng.randrange(0, 4))]
        dyld_blocks.append((DYLD_MODULES, plistlib.dumps({'Binaries': binaries}, fmt=plistlib.FMT_BINARY)))
        if k == 0:
            expected['dyld'] = {'Binaries': list(binaries)}
        else:
            expected['dyld']['Binaries'] += binaries
    code_blocks = []
    for _ in range(rng.randrange(0, 4)):
        text = ''.join('0x%x\tNAME_%d\n' % (rng.getrandbits(32), rng.randrange(1000))
                       for _ in range(rng.randrange(0, 4)))
        code_blocks.append((TRACE_CODES, text.encode()))
        expected['codes'] += text
    if log_blocks:
        other.append((LOG_STRINGS, plistlib.dumps({'StringIndex': index}, fmt=plistlib.FMT_BINARY)))
    if rng.random() < 0.3:
        other.append((UNKNOWN, bytes(rng.getrandbits(8) for _ in range(rng.randrange(0, 30)))))

    # Any interleaving of the groups, the order inside each group (= file order) is kept.
    groups = [log_blocks, kext_blocks, dyld_blocks, code_blocks] + [[b] for b in other]
    while any(groups):
        group = rng.choice([g for g in groups if g])
        blocks.append(group.pop(0))

    dump = build_dump(rng, chunks, threadmap, filler, blocks, pad_last_block=rng.random() < 0.7,
                      size_includes_timestamp=rng.random() < 0.5)
    return dump, records, threadmap, expected


# ------------------------------------------------------------------------------------------------- check

class Violation(Exception):
    pass


def require(cond, message):
    if not cond:
        raise Violation(message)


def check_case(dump, records, threadmap, expected, parser=None):
    parser = KdBufParser({}, {}) if parser is None else parser
    threads_pids, pids_names = parser.threads_pids, parser.pids_names
    exp_threads, exp_names = {}, {}
    for tid, pid, name in threadmap:
        exp_threads[tid] = pid
        exp_names[pid] = name

    produced = parser.parse(io.BytesIO(dump))
    got_events, got_logs = [], []
    for item in produced:
        if isinstance(item, OsLogEvent):
            got_logs.append(item)
        else:
            require(not got_logs, 'an event was yielded after a log record')
            got_events.append(item)

    require(len(got_events) == len(records), f'{len(got_events)} events for {len(records)} records')
    for event, record in zip(got_events, records):
        require(tuple(event) == decode_record(record), 'event differs from the decoding of its record')
    require(got_logs == expected['logs'], 'log records differ')
    for log in expected['logs']:
        if log.process and log.thread_identifier:
            exp_threads[log.thread_identifier] = log.process_identifier
            exp_names[log.process_identifier] = log.process
    require(threads_pids == exp_threads, f'threads table {threads_pids} != {exp_threads}')
    require(pids_names == exp_names, f'process table {pids_names} != {exp_names}')
    require(parser.processes == expected['processes'], 'processes')
    require(parser.images == expected['images'], 'images')
    require(parser.kernel_extensions == expected['kexts'], 'kernel extensions')
    require(parser.dyld_modules == expected['dyld'], 'dyld modules')
    require(parser.trace_codes == expected['codes'], 'trace codes')
    return parser


class CountingReader(io.BytesIO):
    def __init__(self, data):
        super().__init__(data)
        self.read_positions = []

    def read(self, *args):
        self.read_positions.append(self.tell())
        return super().read(*args)


def observable_difference():
    rng = random.Random(5)
    dump, records, threadmap, expected = build_case(rng, n_events=300, n_chunks=1)
    first_record = build_dump.first_chunk_offset + 24  # tag, size, 8 unknown bytes
    assert dump[first_record:first_record + 64] == records[0]
    reader = CountingReader(dump)
    list(KdBufParser().parse(reader))
    reads = sum(1 for position in reader.read_positions if first_record <= position < first_record + 64 * 300)
    # A dump cut in the middle of its only events chunk (outside the domain of the property).
    cut = dump[:first_record + 64 * 10 + 5]
    yielded = 0
    try:
        for _ in KdBufParser().parse(io.BytesIO(cut)):
            yielded += 1
        error = 'no error'
    except Exception as e:  # noqa
        error = f'{type(e).__module__}.{type(e).__name__}'
    parser = KdBufParser()
    list(parser.parse(io.BytesIO(dump)))
    sections = getattr(parser, 'v3_sections', 'absent')
    if sections != 'absent':
        sections = f'list of {len(sections)} (tag, size) entries'
    return (f'observable: read() calls spent on the records of a 300 event chunk = {reads}; '
            f'dump cut inside a chunk -> {yielded} events then {error}; parser.v3_sections = {sections}')


def main():
    failures = 0
    cases = 0
    seeds = list(range(60))
    for seed in seeds:
        rng = random.Random(seed)
        case = build_case(rng)
        cases += 1
        try:
            parser = check_case(*case)
            # The same parser object parses a second dump: nothing of the first one is left.
            check_case(*build_case(rng), parser=parser)
            cases += 1
        except Violation as e:
            failures += 1
            print(f'seed {seed}: VIOLATION {e}')
    # Chunks bigger than any read batch, split in all the ways of a few sizes.
    for n_events, n_chunks in [(1025, 1), (2048, 1), (2500, 2), (3000, 3), (1024, 1), (1023, 2)]:
        rng = random.Random(1000 + n_events)
        cases += 1
        try:
            check_case(*build_case(rng, n_events=n_events, n_chunks=n_chunks))
        except Violation as e:
            failures += 1
            print(f'{n_events} events in {n_chunks} chunks: VIOLATION {e}')
    print(observable_difference())
    print(f'{cases} dumps checked, {failures} violations')
    return 1 if failures else 0


if __name__ == '__main__':
    sys.exit(main())
