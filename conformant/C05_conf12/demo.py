"""
C05 demo: per-thread results are invariant under interleaving of threads.

Run as:  cd /tmp/seed12_C05 && /venv/bin/python /tmp/seed_out12/C05/demo.py

Oracle (derived from the statement, not from the implementation's internals):
  * the traces reported for a thread in ANY interleaving (their order, their event lists, their rendered text)
    must equal the traces reported when the thread's own event sequence is the only input of a fresh parser
    ("depend only on that thread's own event sequence");
  * the names learned while a thread's records are fed must equal the pairing computed here, independently of the
    package, from the thread's own records: a NEWTHREAD / EXEC string record names the pid of the latest
    NEWTHREAD / EXEC data record of the same thread.
Renderings are not compared for the decoder that by design reads tables written by other threads
(TRACE_DATA_THREAD_TERMINATE shows the pid / name that other threads recorded); its order and event lists still are.
Nothing here looks at private state of the parser, at the set of record kinds that have a decoder, or at the
literal text of a rendering.
"""
import os, sys; sys.path.insert(0, os.getcwd())  # noqa: E401,E702

import random
import struct

import pykdebugparser
from pykdebugparser.kevent import Kevent
from pykdebugparser.trace_codes import default_trace_codes
from pykdebugparser.traces_parser import TracesParser

print('testing', pykdebugparser.__file__)

CODES = default_trace_codes()
ID = {name: eid for eid, name in CODES.items()}
NONE, START, END, ALL = 0, 1, 2, 3

CROSS_THREAD_RENDERINGS = {'TraceDataThreadTerminate'}

failures = []


def check(cond, msg):
    if not cond:
        failures.append(msg)


class Clock:
    def __init__(self, tid):
        self.now = 1000000 + tid

    def tick(self):
        self.now += 16
        return self.now


def ev(clock, tid, name, qual, values=(0, 0, 0, 0), data=None):
    if data is None:
        data = struct.pack('<QQQQ', *values)
    else:
        data = data.ljust(32, b'\x00')[:32]
        values = struct.unpack('<QQQQ', data)
    eventid = ID[name] if isinstance(name, str) else name
    return Kevent(clock.tick(), data, values, tid, eventid | qual, eventid, qual)


# ---- building blocks of per-thread event programs ------------------------------------------------------------------

def blk_read(c, tid, fd=3):
    return [ev(c, tid, 'BSC_read', START, (fd, 0x1000, 64, 0)), ev(c, tid, 'BSC_read', END, (0, 64, 0, 0))]


def blk_getpid(c, tid, pid=77):
    return [ev(c, tid, 'BSC_getpid', START), ev(c, tid, 'BSC_getpid', END, (0, pid, 0, 0))]


def blk_open(c, tid, path=b'/etc/hosts'):
    lookup = struct.pack('<Q', 0xfeed0000 + tid) + path
    return [ev(c, tid, 'BSC_open', START, (0x2000, 0, 0, 0)),
            ev(c, tid, 'VFS_LOOKUP', ALL, data=lookup),
            ev(c, tid, 'BSC_open', END, (0, 5, 0, 0))]


def blk_open_long(c, tid):
    first = struct.pack('<Q', 0xbeef0000 + tid) + b'/a/rather/long/path/that'
    second = b'/needs/two/records.txt'
    return [ev(c, tid, 'BSC_open', START, (0x2000, 0, 0, 0)),
            ev(c, tid, 'VFS_LOOKUP', START, data=first),
            ev(c, tid, 'VFS_LOOKUP', END, data=second),
            ev(c, tid, 'BSC_open', END, (0, 6, 0, 0))]


def blk_newthread(c, tid, new_tid, pid, name, gap=()):
    return ([ev(c, tid, 'TRACE_DATA_NEWTHREAD', NONE, (new_tid, pid, 0, 9))] + list(gap) +
            [ev(c, tid, 'TRACE_STRING_NEWTHREAD', NONE, data=name)])


def blk_exec(c, tid, pid, name, gap=()):
    return ([ev(c, tid, 'TRACE_DATA_EXEC', NONE, (pid, 1, 2, 0))] + list(gap) +
            [ev(c, tid, 'TRACE_STRING_EXEC', NONE, data=name)])


def blk_orphan_strings(c, tid):
    # string records without a data record of the same thread: nothing can be learned from them
    return [ev(c, tid, 'TRACE_STRING_NEWTHREAD', NONE, data=b'orphan_nt'),
            ev(c, tid, 'TRACE_STRING_EXEC', NONE, data=b'orphan_ex')]


def blk_threadname(c, tid, name=b'com.apple.a.very.long.thread.name.that.needs.two.records'):
    return [ev(c, tid, 'TRACE_STRING_THREADNAME', START, data=name[:32]),
            ev(c, tid, 'TRACE_STRING_THREADNAME', END, data=name[32:])]


def blk_terminate(c, tid, dead_tid):
    return [ev(c, tid, 'TRACE_DATA_THREAD_TERMINATE', NONE, (dead_tid, 0, 0, 0))]


def blk_perf_user(c, tid, pid=149):
    return [ev(c, tid, 'PERF_Event', START, (0x9, 32, 0, 0)),
            ev(c, tid, 'PERF_STK_UHdr', NONE, (0x45, 5, 0, 0)),
            ev(c, tid, 'PERF_STK_UData', NONE, (0x1b5c05bf0, 0x19376e4d4, 0x1025c9930, 0x1d1160b3c)),
            ev(c, tid, 'PERF_STK_UData', NONE, (0x19376e6d4, 0, 0, 0)),
            ev(c, tid, 'PERF_THD_Data', NONE, (pid, tid, 0x16d94b180, 0xfffc0003)),
            ev(c, tid, 'PERF_Event', END, (0x9, 0, 0, 0))]


def blk_perf_kernel(c, tid, pid=149):
    return [ev(c, tid, 'PERF_Event', START, (0xd, 33, 0, 0)),
            ev(c, tid, 'PERF_STK_KHdr', NONE, (0x4d, 6, 0, 0)),
            ev(c, tid, 'PERF_STK_KData', NONE, (0xfffffe0007101000, 0xfffffe0007102000, 0xfffffe0007103000,
                                                 0xfffffe0007104000)),
            ev(c, tid, 'PERF_STK_KData', NONE, (0xfffffe0007105000, 0xfffffe0007106000, 0, 0)),
            ev(c, tid, 'PERF_STK_UHdr', NONE, (0x45, 2, 0, 0)),
            ev(c, tid, 'PERF_STK_UData', NONE, (0x1b5c05bf0, 0x19376e4d4, 0, 0)),
            ev(c, tid, 'PERF_THD_Data', NONE, (pid, tid, 0, 0xfffc0001)),
            ev(c, tid, 'PERF_Event', END, (0xd, 0, 0, 0))]


def blk_lone_kernel_stack(c, tid):
    return [ev(c, tid, 'PERF_STK_KHdr', NONE, (0x4d, 1, 0, 0)),
            ev(c, tid, 'PERF_STK_KData', NONE, (0xfffffe0007101000, 0, 0, 0))]


def blk_unknown(c, tid):
    return [ev(c, tid, 0x63630000, NONE, (1, 2, 3, 4)), ev(c, tid, 'PERF_THD_CSwitch', NONE, (tid, 80, 0, 0))]


def blk_end_without_start(c, tid):
    return [ev(c, tid, 'BSC_read', END, (0, 1, 0, 0))]


def blk_nested(c, tid):
    # a kperf sample taken in the middle of a syscall, the syscall trace carries the sample records
    inner = blk_perf_kernel(c, tid)
    return [ev(c, tid, 'BSC_write', START, (1, 0x3000, 10, 0))] + inner + [ev(c, tid, 'BSC_write', END, (0, 10, 0, 0))]


def blk_unfinished(c, tid):
    return [ev(c, tid, 'BSC_read', START, (9, 0x1000, 1, 0))]


def program(tid, *blocks):
    c = Clock(tid)
    out = []
    for b in blocks:
        out.extend(b(c, tid))
    return out


def P(fn, *args, **kw):
    return lambda c, tid: fn(c, tid, *args, **kw)


def gap_events(c, tid):
    return blk_read(c, tid) + blk_unknown(c, tid)


def blk_newthread_with_gap(c, tid, new_tid, pid, name):
    data = [ev(c, tid, 'TRACE_DATA_NEWTHREAD', NONE, (new_tid, pid, 0, 9))]
    return data + gap_events(c, tid) + [ev(c, tid, 'TRACE_STRING_NEWTHREAD', NONE, data=name)]


def blk_exec_twice(c, tid, pid1, pid2, name):
    # two data records before one string record: the string names the latest one
    return [ev(c, tid, 'TRACE_DATA_EXEC', NONE, (pid1, 1, 2, 0)),
            ev(c, tid, 'TRACE_DATA_EXEC', NONE, (pid2, 1, 2, 0)),
            ev(c, tid, 'TRACE_STRING_EXEC', NONE, data=name)]


PROGRAM_SETS = [
    # 0: plain syscalls on two threads
    [program(11, blk_read, blk_getpid, blk_open), program(12, blk_open_long, blk_read)],
    # 1: new-thread / exec pairs on different threads, distinct pids
    [program(21, P(blk_newthread, 210, 501, b'launchd'), blk_read),
     program(22, P(blk_exec, 502, b'bash'), blk_getpid),
     program(23, blk_read, blk_read)],
    # 2: pairs on different threads naming the SAME pid (the per-thread learned sequences are compared)
    [program(31, P(blk_newthread, 310, 600, b'parent_a'), P(blk_exec, 600, b'exec_a')),
     program(32, P(blk_exec, 600, b'exec_b'), P(blk_newthread, 320, 600, b'parent_b'))],
    # 3: records of the same thread between the data record and its string record
    [program(41, P(blk_newthread_with_gap, 410, 701, b'gap_parent'), blk_open),
     program(42, P(blk_newthread_with_gap, 420, 702, b'other_gap'), blk_read)],
    # 4: orphan string records next to a thread that has pending data records
    [program(51, blk_orphan_strings, blk_read),
     program(52, P(blk_newthread, 520, 801, b'fiftytwo'), P(blk_exec, 802, b'fiftytwo_ex')),
     program(53, P(blk_exec_twice, 803, 804, b'latest_wins'))],
    # 5: kperf samples with user stacks on several threads
    [program(61, blk_perf_user, blk_read), program(62, blk_perf_user), program(63, blk_getpid, blk_perf_user)],
    # 6: kperf samples with kernel stacks
    [program(71, blk_perf_kernel, blk_read), program(72, blk_perf_user, blk_perf_kernel)],
    # 7: kernel stack records outside a sample, undecoded records
    [program(81, blk_lone_kernel_stack, blk_unknown), program(82, blk_unknown, blk_lone_kernel_stack, blk_read)],
    # 8: a sample nested in a syscall, an end without a start, a start without an end
    [program(91, blk_nested, blk_end_without_start), program(92, blk_unfinished, blk_nested),
     program(93, blk_end_without_start, blk_perf_kernel, blk_unfinished)],
    # 9: thread names and thread termination (rendering of the termination record reads other threads' tables)
    [program(101, blk_threadname, P(blk_terminate, 102)), program(102, blk_threadname, blk_perf_user),
     program(103, P(blk_terminate, 101), P(blk_newthread, 102, 900, b'owner'))],
    # 10: everything at once, five threads
    [program(111, blk_read, P(blk_newthread, 1110, 1001, b'p111'), blk_perf_kernel, blk_open),
     program(112, blk_perf_user, P(blk_exec, 1002, b'p112'), blk_lone_kernel_stack),
     program(113, blk_nested, blk_orphan_strings, blk_threadname),
     program(114, blk_open_long, P(blk_newthread_with_gap, 1140, 1004, b'p114'), blk_unknown),
     program(115, P(blk_exec_twice, 1005, 1006, b'p115'), blk_end_without_start, blk_getpid)],
    # 11: a single thread (the only interleaving is the program itself)
    [program(121, blk_perf_kernel, P(blk_newthread, 1210, 1101, b'solo'), blk_open)],
]


# ---- interleavings ---------------------------------------------------------------------------------------------------

def interleavings(programs, rnd):
    yield 'sequential', [e for p in programs for e in p]
    yield 'reversed-sequential', [e for p in reversed(programs) for e in p]
    rr, cursors = [], [0] * len(programs)
    while any(cur < len(p) for cur, p in zip(cursors, programs)):
        for i, p in enumerate(programs):
            if cursors[i] < len(p):
                rr.append(p[cursors[i]])
                cursors[i] += 1
    yield 'round-robin', rr
    for n in range(3):
        cursors = [0] * len(programs)
        out = []
        while True:
            live = [i for i, p in enumerate(programs) if cursors[i] < len(p)]
            if not live:
                break
            i = rnd.choice(live)
            burst = rnd.randint(1, 3)
            out.extend(programs[i][cursors[i]:cursors[i] + burst])
            cursors[i] = min(len(programs[i]), cursors[i] + burst)
        yield f'random-{n}', out


# ---- running the parser ----------------------------------------------------------------------------------------------

class RecordingDict(dict):
    """pids_names of the caller, remembers which thread's record was being fed when a name was learned."""

    def __init__(self):
        super().__init__()
        self.current_tid = None
        self.learned = []

    def __setitem__(self, key, value):
        self.learned.append((self.current_tid, key, value))
        super().__setitem__(key, value)


def run(events):
    names = RecordingDict()
    parser = TracesParser(CODES, {}, names)
    per_thread = {}
    total = 0
    for event in events:
        names.current_tid = event.tid
        trace = parser.feed(event)
        if trace is None:
            continue
        total += 1
        tids = {e.tid for e in trace.ktraces}
        check(tids == {event.tid}, f'trace {type(trace).__name__} mixes threads {tids}')
        kind = type(trace).__name__
        rendering = None if kind in CROSS_THREAD_RENDERINGS else str(trace)
        per_thread.setdefault(event.tid, []).append((kind, tuple(trace.ktraces), rendering))
    learned = {}
    for tid, pid, name in names.learned:
        learned.setdefault(tid, []).append((pid, name))
    return per_thread, learned, dict(names), total


def names_oracle(prog):
    """What a thread's own record pairs name, computed from the records only."""
    last = {'TRACE_DATA_NEWTHREAD': None, 'TRACE_DATA_EXEC': None}
    pair = {'TRACE_STRING_NEWTHREAD': ('TRACE_DATA_NEWTHREAD', 1), 'TRACE_STRING_EXEC': ('TRACE_DATA_EXEC', 0)}
    out = []
    for e in prog:
        name = CODES.get(e.eventid)
        if name in last:
            last[name] = e
        elif name in pair:
            data_name, pid_index = pair[name]
            if last[data_name] is not None:
                out.append((last[data_name].values[pid_index], e.data.replace(b'\x00', b'').decode()))
    return out


def main():
    rnd = random.Random(0xC05)
    inputs = 0
    for set_no, programs in enumerate(PROGRAM_SETS):
        solo = {}
        for prog in programs:
            tid = prog[0].tid
            per_thread, learned, _, _ = run(prog)
            solo[tid] = (per_thread.get(tid, []), learned.get(tid, []))
            check(learned.get(tid, []) == names_oracle(prog),
                  f'set {set_no} tid {tid}: solo learned names {learned.get(tid)} != pairs {names_oracle(prog)}')
        final_names = None
        for label, merged in interleavings(programs, rnd):
            inputs += 1
            check(sorted(map(id, merged)) == sorted(id(e) for p in programs for e in p), 'bad interleaving')
            per_thread, learned, names, total = run(merged)
            check(total == sum(len(v[0]) for v in solo.values()), f'set {set_no} {label}: number of traces differs')
            for prog in programs:
                tid = prog[0].tid
                want_traces, _ = solo[tid]
                got = per_thread.get(tid, [])
                check([t[0] for t in got] == [t[0] for t in want_traces],
                      f'set {set_no} {label} tid {tid}: order / kinds of traces differ')
                check([t[1] for t in got] == [t[1] for t in want_traces] and
                      all(a is b for g, w in zip(got, want_traces) for a, b in zip(g[1], w[1])),
                      f'set {set_no} {label} tid {tid}: event lists differ')
                check([t[2] for t in got] == [t[2] for t in want_traces],
                      f'set {set_no} {label} tid {tid}: renderings differ')
                check(learned.get(tid, []) == names_oracle(prog),
                      f'set {set_no} {label} tid {tid}: learned {learned.get(tid)} != {names_oracle(prog)}')
            pids_named_once = all(
                sum(1 for p in programs for pid, _ in names_oracle(p) if pid == k) == 1 for k in names)
            if pids_named_once:
                # no two threads name the same pid: the table itself is the same for every interleaving
                check(final_names in (None, names), f'set {set_no} {label}: learned table differs')
                final_names = names
                check(names == {pid: n for p in programs for pid, n in names_oracle(p)},
                      f'set {set_no} {label}: learned table is not the union of the pairs')

    # the observable difference of the change (not part of the property)
    c = Clock(7)
    sample = blk_perf_kernel(c, 7) + blk_lone_kernel_stack(c, 7)
    per_thread, _, _, total = run(sample)
    renderings = [t[2] for t in per_thread[7]]
    perf_event = [r for r in renderings if r.startswith('PERF_Event')][0]
    print(f'observable: kernel-stack sample + 2 lone K records -> {total} traces; sample renders as: {perf_event!r}')

    print(f'{inputs} interleaved inputs over {len(PROGRAM_SETS)} program sets checked')
    if failures:
        for f in failures[:20]:
            print('FAIL:', f)
        print(f'{len(failures)} failures')
        return 1
    print('C05 holds on all inputs')
    return 0


if __name__ == '__main__':
    sys.exit(main())
