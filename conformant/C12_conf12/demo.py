"""
Property C12 (event filters select exactly the matching subsequence) exercised on synthetic dumps.

Run as:  cd /tmp/seed12_C12 && /venv/bin/python /tmp/seed_out12/C12/demo.py
Exits 0 on the unchanged and on the changed tree; prints one OBSERVABLE line that differs between the two.
"""
import os, sys; sys.path.insert(0, os.getcwd())  # noqa: E401,E702

import io
import plistlib
import random
import struct
import tempfile
from collections import Counter

import pykdebugparser
from click.testing import CliRunner
from pykdebugparser.__main__ import cli
from pykdebugparser.kd_buf_parser import (RAW_VERSION2_BYTES, RAW_VERSION3_BYTES, TRACEV3_STACKSHOT_END,
                                          TRACEV3_THREADMAP_TAG, TRACEV3_EVENTS_TAG, TRACEV3_MORE_EVENTS,
                                          TRACEV3_LOG_EVENTS, TRACEV3_LOG_STRINGS)
from pykdebugparser.os_log_event import OsLogEvent
from pykdebugparser.pykdebugparser import PyKdebugParser

print('testing', pykdebugparser.__file__)

failures = []
checks = 0


def check(cond, what):
    global checks
    checks += 1
    if not cond:
        failures.append(what)


# ---------------------------------------------------------------------------------------------- dump builders

def kd_buf(timestamp, tid, debugid, args=(0, 0, 0, 0), cpuid=0):
    return struct.pack('<Q32sQIIQ', timestamp, struct.pack('<QQQQ', *args), tid, debugid, cpuid, 0)


def threadmap_entry(tid, pid, name):
    return struct.pack('<QI', tid, pid) + name.encode().ljust(0x14, b'\x00')


def build_v2(events, threads):
    header = struct.pack('<I', len(threads)) + b'\x00' * 12 + struct.pack('<IQ', 1, 24000000) + b'\x00' * 0x100
    header += b''.join(threadmap_entry(*t) for t in threads)
    return RAW_VERSION2_BYTES + header + b''.join(kd_buf(*e) for e in events)


def block(tag, data):
    body = struct.pack('<Q', len(data)) + data
    body += b'\x00' * (-len(body) % 8)
    return tag + body


def raw_log(strings, message, tid, mct, process=None, pid=None):
    def index(s):
        return strings.setdefault(s, len(strings) + 1)

    event = {'cm': index(message), 't': 1024, 's': 10, 'tid': tid, 'ns': mct * 41, 'mct': mct, 'b': b'B' * 16,
             'piu': b'P' * 16, 'ud': {'sec': 1633872873 + mct, 'usec': 5}, 'utz': {'mw': 0, 'dt': 0}}
    if process is not None:
        event['p'] = index(process)
    if pid is not None:
        event['pid'] = pid
    return event


def build_v3(event_chunks, threads, log_blocks, strings):
    """event_chunks: list of lists of events; log_blocks: list of lists of raw log dicts."""
    cpu_info = plistlib.dumps({'cpus': 1}, fmt=plistlib.FMT_BINARY)
    header = struct.pack('<IIQIIQQIIIII', 0x55aa0300, 0, 0, 125, 3, 1000, 1633872873, 0, 0, 0, 0, 0)
    header += struct.pack('<Q', len(cpu_info)) + cpu_info
    header += b'\x00' * (-len(header) % 8)
    out = RAW_VERSION3_BYTES + header + b'\x00' * 4
    out += TRACEV3_STACKSHOT_END + TRACEV3_THREADMAP_TAG
    tm = b''.join(threadmap_entry(*t) for t in threads)
    out += struct.pack('<Q', len(tm)) + tm
    for i, chunk in enumerate(event_chunks):
        if i:
            out += TRACEV3_MORE_EVENTS
        data = b''.join(kd_buf(*e) for e in chunk)
        out += TRACEV3_EVENTS_TAG + struct.pack('<Q', len(data)) + b'\x00' * 8 + data
    for raw_events in log_blocks:
        out += block(TRACEV3_LOG_EVENTS, plistlib.dumps({'Events': raw_events}, fmt=plistlib.FMT_BINARY))
    out += block(TRACEV3_LOG_STRINGS, plistlib.dumps({'StringIndex': dict(strings)}, fmt=plistlib.FMT_BINARY))
    return out


# ------------------------------------------------------------------------------------------------- generation

rnd = random.Random(0xC12)
TIDS = [0, 1, 7, 645241, 0x10000002a]
CLASSES = [1, 3, 4, 7, 37, 255]
PROCS = [('launchd', 1), ('kernel_task', 0), ('7', 44), ('backboardd', 7), (None, None)]
THREADS = [(1, 1, 'launchd'), (7, 7, 'backboardd'), (645241, 44, 'SpringBoard')]


def gen_events(n):
    events = []
    for i in range(n):
        klass = rnd.choice(CLASSES)
        sub = rnd.choice([0, 1, 0x0c, 0xff])
        code = rnd.choice([0, 1, 0x3ff])
        debugid = (klass << 24) | (sub << 16) | (code << 2) | rnd.randrange(4)
        event = (2 * i + 1 + rnd.randrange(3) * 2, rnd.choice(TIDS), debugid, (i, 0, 0, rnd.randrange(500)))
        events.append(event)
        if rnd.random() < 0.2:  # an exact duplicate: multiplicity
            events.append(event)
    return events


log_serial = [0]


def gen_logs(n, strings, shuffled):
    logs = []
    for _ in range(n):
        log_serial[0] += 1
        process, pid = rnd.choice(PROCS)
        mct = rnd.randrange(1, 40) if shuffled else log_serial[0]
        logs.append(raw_log(strings, f'message number {log_serial[0]}', rnd.choice(TIDS), mct, process, pid))
    return logs


dumps = []  # (name, bytes, events, number of logs, set of log messages)
for k in range(5):
    evs = gen_events(rnd.randrange(0, 25))
    dumps.append((f'v2-{k}', build_v2(evs, THREADS if k % 2 else []), evs, []))
for k in range(8):
    chunks = [gen_events(rnd.randrange(1, 12)) for _ in range(rnd.randrange(1, 4))]
    strings = {}
    blocks = [gen_logs(rnd.randrange(0, 7), strings, shuffled=k % 2 == 0) for _ in range(rnd.randrange(1, 4))]
    by_index = {v: s for s, v in strings.items()}
    dumps.append((f'v3-{k}', build_v3(chunks, THREADS, blocks, strings), [e for c in chunks for e in c],
                  [(by_index[r['cm']], r) for b in blocks for r in b]))

EVENT_FILTERS = [
    dict(),
    dict(tid=7), dict(tid=0), dict(tid=0x10000002a), dict(tid=999),
    dict(classes=[4]), dict(classes=(3, 4, 4)), dict(classes=[], subclasses=[]),
    dict(subclasses=[0x040c]), dict(subclasses=(0x0401, 0x0401, 0x2500)),
    dict(classes=[4], subclasses=[0x040c, 0x0301]),  # overlapping
    dict(classes=[99], subclasses=[0x6300]),  # nothing matches
    dict(tid=645241, classes=[1, 7], subclasses=[0x25ff]),
    dict(tid=1, classes=[], subclasses=[0xff00, 0xffff]),
]
LOG_FILTERS = [
    dict(), dict(tid=7), dict(tid=0), dict(tid=999), dict(process='launchd'), dict(process='7'),
    dict(process='44'), dict(process='nobody'), dict(tid=1, process='launchd'), dict(tid=645241, process='0'),
    # class filters do not concern the log
    dict(tid=7, classes=[4], subclasses=[0x0301]),
]


def make_parser(flt):
    parser = PyKdebugParser()
    parser.color = False
    if 'tid' in flt:
        parser.filter_tid = flt['tid']
    if 'process' in flt:
        parser.filter_process = flt['process']
    if 'classes' in flt:
        parser.filter_class = flt['classes']
    if 'subclasses' in flt:
        parser.filter_subclass = flt['subclasses']
    return parser


def event_matches(e, flt):
    """The statement, literally."""
    if flt.get('tid') is not None and e.tid != flt['tid']:
        return False
    classes, subclasses = flt.get('classes') or [], flt.get('subclasses') or []
    if classes or subclasses:
        return (e.eventid >> 24) in classes or (e.eventid >> 16) in subclasses
    return True


def log_matches(e, flt):
    if flt.get('tid') is not None and e.thread_identifier != flt['tid']:
        return False
    if flt.get('process') is not None and flt['process'] not in (e.process, str(e.process_identifier)):
        return False
    return True


def cli_args(command, path, flt):
    args = [command, path]
    if flt.get('tid') is not None:
        args += ['--tid', str(flt['tid'])]
    if flt.get('process') is not None:
        args += ['--process', flt['process']]
    if command == 'kevents':
        for c in flt.get('classes') or []:
            args += ['-cf', hex(c)]
        for s in flt.get('subclasses') or []:
            args += ['-sf', str(s)]
    return args


runner = CliRunner()
tmpdir = tempfile.mkdtemp(prefix='c12demo')

for name, data, gen_evs, gen_logs_ in dumps:
    path = os.path.join(tmpdir, name + '.bin')
    with open(path, 'wb') as f:
        f.write(data)

    # ------------------------------------------------------------------------------------- unfiltered listings
    base = PyKdebugParser()
    base.color = False
    all_events = list(base.kevents(io.BytesIO(data)))
    all_event_lines = list(make_parser({}).formatted_kevents(io.BytesIO(data)))
    all_logs = list(make_parser({}).os_log_events(io.BytesIO(data)))
    all_log_lines = list(make_parser({}).formatted_logs(io.BytesIO(data)))

    # the two listings partition the records of the dump
    check(not any(isinstance(e, OsLogEvent) for e in all_events), f'{name}: a log record in the event listing')
    check(all(isinstance(e, OsLogEvent) for e in all_logs), f'{name}: an event in the log listing')
    check([(e.timestamp, e.tid, e.debugid, e.values) for e in all_events] == gen_evs,
          f'{name}: unfiltered event listing is not the events of the dump, in order, with multiplicity')
    check(Counter(e.composed_message for e in all_logs) == Counter(m for m, _ in gen_logs_),
          f'{name}: unfiltered log listing is not the log records of the dump (as a multiset)')
    check(len(all_event_lines) == len(all_events) and len(all_log_lines) == len(all_logs), f'{name}: line counts')
    check([e.composed_message for e in make_parser({}).os_log_events(io.BytesIO(data))] ==
          [e.composed_message for e in all_logs], f'{name}: the log listing is not deterministic')

    # --------------------------------------------------------------------------------------------- event filters
    for flt in EVENT_FILTERS:
        keep = [event_matches(e, flt) for e in all_events]
        got = list(make_parser(flt).kevents(io.BytesIO(data)))
        check(got == [e for e, k in zip(all_events, keep) if k], f'{name} {flt}: kevents()')
        got_lines = list(make_parser(flt).formatted_kevents(io.BytesIO(data)))
        want_lines = [line for line, k in zip(all_event_lines, keep) if k]
        check(got_lines == want_lines, f'{name} {flt}: formatted_kevents()')
        result = runner.invoke(cli, cli_args('kevents', path, flt))
        check(result.exit_code == 0 and result.output == ''.join(line + '\n' for line in want_lines),
              f'{name} {flt}: kevents command')
        # the log listing ignores class filters and never shows events
        if 'classes' in flt or 'subclasses' in flt:
            got_logs = list(make_parser(flt).os_log_events(io.BytesIO(data)))
            check(got_logs == [e for e in all_logs if log_matches(e, flt)], f'{name} {flt}: os_log_events()')

    # ----------------------------------------------------------------------------------------------- log filters
    for flt in LOG_FILTERS:
        keep = [log_matches(e, flt) for e in all_logs]
        got = list(make_parser(flt).os_log_events(io.BytesIO(data)))
        check(got == [e for e, k in zip(all_logs, keep) if k], f'{name} {flt}: os_log_events()')
        check(all(isinstance(e, OsLogEvent) for e in got), f'{name} {flt}: an event in the log listing')
        got_lines = list(make_parser(flt).formatted_logs(io.BytesIO(data)))
        check(got_lines == [line for line, k in zip(all_log_lines, keep) if k], f'{name} {flt}: formatted_logs()')
        result = runner.invoke(cli, cli_args('logs', path, flt))
        out_lines = result.output.splitlines()
        want_messages = [e.composed_message for e, k in zip(all_logs, keep) if k]
        check(result.exit_code == 0 and len(out_lines) == len(want_messages)
              and all(m in line for m, line in zip(want_messages, out_lines)), f'{name} {flt}: logs command')
        # the event listing is not concerned by the process filter and never shows log records
        got_events = list(make_parser(flt).kevents(io.BytesIO(data)))
        check(got_events == [e for e in all_events if event_matches(e, flt)], f'{name} {flt}: kevents()')

    os.unlink(path)
os.rmdir(tmpdir)

# ------------------------------------------------------------------------------------------ observable difference
strings = {}
late = [raw_log(strings, 'third (t=30)', 7, 30, 'launchd', 1), raw_log(strings, 'fourth (t=40)', 1, 40, 'launchd', 1)]
early = [raw_log(strings, 'second (t=20)', 7, 20, 'launchd', 1), raw_log(strings, 'first (t=10)', 1, 10, 'launchd', 1)]
data = build_v3([[(1, 7, 0x040c0004, (0, 0, 0, 0))]], THREADS, [late, early], strings)
order = [e.composed_message for e in make_parser({}).os_log_events(io.BytesIO(data))]
only7 = [e.composed_message for e in make_parser({'tid': 7}).os_log_events(io.BytesIO(data))]
check(only7 == [m for m in order if m in ('third (t=30)', 'second (t=20)')], 'demo dump: tid filter of the log')
print('OBSERVABLE: log listing of a dump whose log blocks are [t=30, t=40] then [t=20, t=10]:', order,
      '| --tid 7:', only7)

print(f'{checks} checks, {len(failures)} failures')
for f in failures[:20]:
    print('FAIL', f)
sys.exit(1 if failures else 0)
