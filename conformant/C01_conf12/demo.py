"""C01 demo: every 64-byte kd_buf record decodes exactly and totally.
Run as:  cd /tmp/seed12_C01 && /venv/bin/python /tmp/seed_out12/C01/demo.py
Exits 0 on the unchanged and on the changed worktree; prints one DIFFERENCE line."""
import os, sys; sys.path.insert(0, os.getcwd())
import random

import pykdebugparser
import pykdebugparser.kevent as kevent
from pykdebugparser.kevent import from_kd_buf

print('testing', pykdebugparser.__file__)

FIELDS = {'timestamp': (0, 8), 'data': (8, 40), 'tid': (40, 48), 'debugid': (48, 52), 'cpuid': (52, 56),
          'unused': (56, 64)}


def le(b):
    return int.from_bytes(b, 'little')


def oracle(rec):
    """Derived from the statement only."""
    assert len(rec) == 64
    debugid = le(rec[48:52])
    data = bytes(rec[8:40])
    return dict(timestamp=le(rec[0:8]), data=data, values=tuple(le(data[i:i + 8]) for i in range(0, 32, 8)),
                tid=le(rec[40:48]), debugid=debugid, eventid=debugid & ~3 & 0xffffffff, func_qualifier=debugid & 3)


def observed(ev):
    return dict(timestamp=ev.timestamp, data=ev.data, values=ev.values, tid=ev.tid, debugid=ev.debugid,
                eventid=ev.eventid, func_qualifier=ev.func_qualifier)


def rebuild52(ev):
    out = ev.timestamp.to_bytes(8, 'little') + b''.join(v.to_bytes(8, 'little') for v in ev.values)
    out += ev.tid.to_bytes(8, 'little') + (ev.eventid | ev.func_qualifier).to_bytes(4, 'little')
    return out


failures = []


def check(rec, label):
    try:
        ev = from_kd_buf(rec)
    except Exception as e:  # totality
        failures.append(f'{label}: raised {e!r}')
        return None
    want, got = oracle(rec), observed(ev)
    if got != want:
        failures.append(f'{label}: {got} != {want}')
    if not (isinstance(ev.func_qualifier, int) and 0 <= ev.func_qualifier <= 3):
        failures.append(f'{label}: qualifier {ev.func_qualifier!r}')
    if ev.eventid & 3 or (ev.eventid | ev.func_qualifier) != ev.debugid:
        failures.append(f'{label}: id|qualifier does not reassemble the debug id')
    if rebuild52(ev) != bytes(rec[:52]) or ev.data != bytes(rec[8:40]):
        failures.append(f'{label}: first 52 bytes not rebuilt')
    return ev


rng = random.Random(12)
records = [bytes(64), b'\xff' * 64, bytes(range(64)), bytes(range(255, 191, -1))]
records += [bytes(rng.getrandbits(8) for _ in range(64)) for _ in range(24)]
for name, (lo, hi) in FIELDS.items():  # each field alone all-ones, and alone all-zero among ones
    records.append(bytes(0xff if lo <= i < hi else 0 for i in range(64)))
    records.append(bytes(0 if lo <= i < hi else 0xff for i in range(64)))
for q in range(4):  # each qualifier with high bit of debugid set
    records.append(bytes(48) + (0x80000000 | 0x0104000c | q).to_bytes(4, 'little') + bytes(12))
for n, rec in enumerate(records):
    check(rec, f'record#{n}')

# every single bit position of the record: walking one over zeros and walking zero over ones
for bit in range(512):
    for base in (0, (1 << 512) - 1):
        rec = (base ^ (1 << bit)).to_bytes(64, 'little')
        check(rec, f'bit{bit}/base{base & 1}')

# locality: flipping any one bit changes exactly the outputs of the field that owns it, nothing else
OWNED = {'timestamp': {'timestamp'}, 'data': {'data', 'values'}, 'tid': {'tid'},
         'debugid': {'debugid', 'eventid', 'func_qualifier'}, 'cpuid': set(), 'unused': set()}
for base in records[:12]:
    ref = observed(from_kd_buf(base))
    for bit in range(512):
        owner = next(n for n, (lo, hi) in FIELDS.items() if lo <= bit // 8 < hi)
        mod = (le(base) ^ (1 << bit)).to_bytes(64, 'little')
        got = observed(from_kd_buf(mod))
        changed = {k for k in ref if ref[k] != got[k]}
        if not changed <= OWNED[owner]:
            failures.append(f'bit {bit} ({owner}) changed foreign outputs {changed - OWNED[owner]}')
        if OWNED[owner] and not changed:
            failures.append(f'bit {bit} ({owner}) not reflected')
        if from_kd_buf(mod) != from_kd_buf(base) and not OWNED[owner]:
            failures.append(f'bit {bit} ({owner}) alters the event tuple')

# bytes-like inputs of the same 64 bytes decode the same
r = records[5]
if not (from_kd_buf(bytearray(r)) == from_kd_buf(memoryview(r)) == from_kd_buf(r)):
    failures.append('bytes-like inputs disagree')
if type(from_kd_buf(bytearray(r)).data) is not bytes:
    failures.append('data is not bytes for a bytearray record')

# the observable difference introduced by the change (not pinned by the statement)
probe = bytes(52) + (5).to_bytes(4, 'little') + bytes(8)
ev = from_kd_buf(probe)
print('DIFFERENCE: record with cpuid bytes 05 00 00 00 ->',
      f"event.cpuid = {getattr(ev, 'cpuid', '<no such attribute>')!r}; "
      f"vars(event) = {getattr(ev, '__dict__', '<no __dict__>')!r}; "
      f'repr unchanged: {ev!r}')

if failures:
    print(f'{len(failures)} FAILURES')
    for f in failures[:20]:
        print('  ', f)
    sys.exit(1)
print(f'OK: property C01 holds on {len(records)} records + 1024 single-bit records + {12 * 512} locality flips')
