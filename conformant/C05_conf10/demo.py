"""
C05 demo: per-thread results are invariant under interleaving of threads.

Run as:  cd /tmp/seed10_C05 && /venv/bin/python /tmp/seed_out10/C05/demo.py

Oracle (from the statement): what is reported for a thread, and the process names learned from its own
new-thread / exec record pairs, depend only on the thread's own event sequence.  So the reference result for a
thread is what a fresh parser reports when it is fed that thread's program alone; every interleaving of the
programs must give, per thread, exactly that (order of traces, event lists, rendered text), and the learned
names must be the union of what the threads learn alone (the programs use disjoint pids per thread, so the
union is well defined and independent of the merge order).

Decoders that read tables written by other threads (TRACE_DATA_THREAD_TERMINATE, the dyld decoders that read
the global strings) are not used, the statement excludes their renderings.
"""
import os, sys; sys.path.insert(0, os.getcwd())  # noqa: E401,E702

import random
import struct

import pykdebugparser
from pykdebugparser.kevent import Kevent
from pykdebugparser.trace_codes import default_trace_codes
from pykdebugparser.traces_parser import TracesParser

print('testing', pykdebugparser.__file__)

TRACE_CODES = default_trace_codes()
ID = {}
for _eventid, _name in TRACE_CODES.items():
    ID.setdefault(_name, _eventid)

NONE, START, END, ALL = 0, 1, 2, 3
UNKNOWN_EVENTID = 0x2bad0000
assert UNKNOWN_EVENTID not in TRACE_CODES


class Clock:
    def __init__(self):
        self.now = 1000

    def tick(self):
        self.now += 7
        return self.now


def ev(clock, tid, name_or_id, qual, values=(0, 0, 0, 0), data=None):
    eventid = ID[name_or_id] if isinstance(name_or_id, str) else name_or_id
    if data is None:
        data = struct.pack('<QQQQ', *values)
    else:
        data = data.ljust(32, b'\x00')[:32]
        values = struct.unpack('<QQQQ', data)
    return Kevent(clock.tick(), data, tuple(values), tid, eventid | qual, eventid, qual)


# ---------------------------------------------------------------------------------------------------------------
# Building blocks of a thread program.  Every block returns a list of events of ONE thread.
# ---------------------------------------------------------------------------------------------------------------

def blk_read(c, tid, rnd):
    return [ev(c, tid, 'BSC_read', START, (rnd.randrange(3, 9), 0x7000, 128, 0)),
            ev(c, tid, 'BSC_read', END, (0, rnd.randrange(0, 128), 0, 0))]


def blk_getpid(c, tid, rnd):
    return [ev(c, tid, 'BSC_getpid', START), ev(c, tid, 'BSC_getpid', END, (0, tid * 100 + 1, 0, 0))]


def blk_open(c, tid, rnd):
    path = ('/tmp/t%d/f%d' % (tid, rnd.randrange(100))).encode()
    first = struct.pack('<Q', 0xabc0 + tid) + path[:24]
    out = [ev(c, tid, 'BSC_open', START, (0x1000, 0, 0, 0))]
    if len(path) > 24:
        out.append(ev(c, tid, 'VFS_LOOKUP', START, data=first))
        out.append(ev(c, tid, 'VFS_LOOKUP', END, data=path[24:]))
    else:
        out.append(ev(c, tid, 'VFS_LOOKUP', ALL, data=first))
    out.append(ev(c, tid, 'BSC_open', END, (0, rnd.randrange(3, 20), 0, 0)))
    return out


def blk_nested(c, tid, rnd):
    return [ev(c, tid, 'BSC_read', START, (4, 0, 16, 0)),
            ev(c, tid, 'MACH_vmfault', START, (0x1000 * tid, 1, 0, 0)),
            ev(c, tid, UNKNOWN_EVENTID, NONE, (1, 2, 3, 4)),
            ev(c, tid, 'MACH_vmfault', END, (0x1000 * tid, 0, 0, 2)),
            ev(c, tid, 'BSC_read', END, (0, 16, 0, 0))]


def blk_unmatched_end(c, tid, rnd):
    return [ev(c, tid, 'BSC_read', END, (0, 1, 0, 0))]


def blk_dangling_start(c, tid, rnd):
    return [ev(c, tid, 'BSC_getpid', START)]


def blk_restart(c, tid, rnd):
    return [ev(c, tid, 'BSC_read', START, (5, 0, 1, 0)), ev(c, tid, 'BSC_read', START, (6, 0, 2, 0)),
            ev(c, tid, 'BSC_read', END, (0, 2, 0, 0))]


def blk_unknown(c, tid, rnd):
    return [ev(c, tid, UNKNOWN_EVENTID, rnd.choice((NONE, ALL)), (tid, 0, 0, 0))]


def _pid(tid, rnd):
    # pids of different threads never collide, so the names learned by different threads never overwrite
    return tid * 100 + rnd.randrange(2, 60)


def blk_newthread_pair(c, tid, rnd):
    pid = _pid(tid, rnd)
    return [ev(c, tid, 'TRACE_DATA_NEWTHREAD', NONE, (tid * 1000 + rnd.randrange(1000), pid, 0, 77)),
            ev(c, tid, 'TRACE_STRING_NEWTHREAD', NONE, data=('proc%d_%d' % (pid, rnd.randrange(10))).encode())]


def blk_exec_pair(c, tid, rnd):
    pid = _pid(tid, rnd)
    return [ev(c, tid, 'TRACE_DATA_EXEC', NONE, (pid, 1, 2, 0)),
            ev(c, tid, 'TRACE_STRING_EXEC', NONE, data=('exec%d_%d' % (pid, rnd.randrange(10))).encode())]


def blk_pair_with_noise(c, tid, rnd):
    # records of the same thread between the data record and its string record
    pair = blk_newthread_pair(c, tid, rnd) if rnd.random() < .5 else blk_exec_pair(c, tid, rnd)
    return [pair[0]] + blk_unknown(c, tid, rnd) + blk_read(c, tid, rnd) + [pair[1]]


def blk_lone_string(c, tid, rnd):
    name = rnd.choice(('TRACE_STRING_NEWTHREAD', 'TRACE_STRING_EXEC'))
    return [ev(c, tid, name, NONE, data=b'lone%d' % rnd.randrange(10))]


def blk_two_data_one_string(c, tid, rnd):
    a, b = blk_newthread_pair(c, tid, rnd), blk_newthread_pair(c, tid, rnd)
    return [a[0], b[0], b[1]]


def blk_threadname(c, tid, rnd):
    name = rnd.choice(('TRACE_STRING_THREADNAME', 'TRACE_STRING_THREADNAME_PREV'))
    text = ('worker-%d-' % tid).encode() + b'x' * rnd.randrange(0, 70)
    chunks = [text[i:i + 32] for i in range(0, len(text), 32)]
    if len(chunks) == 1:
        return [ev(c, tid, name, ALL, data=chunks[0])]
    out = [ev(c, tid, name, START, data=chunks[0])]
    for chunk in chunks[1:-1]:
        out.append(ev(c, tid, name, NONE, data=chunk))
        out += blk_unknown(c, tid, rnd)
    out.append(ev(c, tid, name, END, data=chunks[-1]))
    return out


def blk_global_string(c, tid, rnd):
    text = ('/usr/lib/lib%d.dylib' % tid).encode()
    first = struct.pack('<QQ', 0x1f050000, tid * 10 + rnd.randrange(10)) + text[:16]
    return [ev(c, tid, 'TRACE_STRING_GLOBAL', START, data=first),
            ev(c, tid, 'TRACE_STRING_GLOBAL', END, data=text[16:])]


def blk_perf(c, tid, rnd):
    out = [ev(c, tid, 'PERF_Event', START, (0x01 | 0x08, rnd.randrange(1, 4), 0, 0)),
           ev(c, tid, 'PERF_THD_Data', NONE, (tid * 100 + 1, tid, 0xd00d, 0x1)),
           ev(c, tid, 'PERF_STK_UHdr', NONE, (0x5, 6, 0, 0))]
    out += [ev(c, tid, 'PERF_STK_UData', NONE, tuple(0x100000 + tid * 16 + i for i in range(4))),
            ev(c, tid, 'PERF_STK_UData', NONE, (0xa, 0xb, 0xc, 0xd)),
            ev(c, tid, 'PERF_Event', END, (0, 0, 0, 0))]
    return out


def blk_cswitch(c, tid, rnd):
    return [ev(c, tid, 'PERF_THD_CSwitch', NONE, (tid, tid * 100 + 1, 0, 0))]


def blk_terminate_pid(c, tid, rnd):
    return [ev(c, tid, 'TRACE_DATA_THREAD_TERMINATE_PID', NONE, (tid * 100 + 1, 9, 0, 0))]


def blk_proc_exit(c, tid, rnd):
    return [ev(c, tid, 'TRACE_STRING_PROC_EXIT', NONE, data=b'gone%d' % tid)]


BLOCKS = [blk_read, blk_getpid, blk_open, blk_nested, blk_unmatched_end, blk_dangling_start, blk_restart,
          blk_unknown, blk_newthread_pair, blk_exec_pair, blk_pair_with_noise, blk_lone_string,
          blk_two_data_one_string, blk_threadname, blk_global_string, blk_perf, blk_cswitch, blk_terminate_pid,
          blk_proc_exit]

for _n in ('BSC_read', 'BSC_getpid', 'BSC_open', 'VFS_LOOKUP', 'MACH_vmfault', 'TRACE_DATA_NEWTHREAD',
           'TRACE_STRING_NEWTHREAD', 'TRACE_DATA_EXEC', 'TRACE_STRING_EXEC', 'TRACE_STRING_THREADNAME',
           'TRACE_STRING_THREADNAME_PREV', 'TRACE_STRING_GLOBAL', 'PERF_Event', 'PERF_THD_Data', 'PERF_STK_UHdr',
           'PERF_STK_UData', 'PERF_THD_CSwitch', 'TRACE_DATA_THREAD_TERMINATE_PID', 'TRACE_STRING_PROC_EXIT'):
    assert _n in ID, _n


def interval_wrapped(c, tid, rnd, inner):
    # the inner blocks are logged while a syscall of the thread is open
    return ([ev(c, tid, 'BSC_read', START, (9, 0, 0, 0))] + inner + [ev(c, tid, 'BSC_read', END, (0, 0, 0, 0))])


def make_program(tid, rnd):
    c = Clock()
    program = []
    for _ in range(rnd.randrange(1, 7)):
        block = rnd.choice(BLOCKS)(c, tid, rnd)
        if rnd.random() < .2:
            block = interval_wrapped(c, tid, rnd, block)
        program += block
    return program


# ---------------------------------------------------------------------------------------------------------------
# Running and observing
# ---------------------------------------------------------------------------------------------------------------

def observe(stream, programs):
    """Feed the stream to a fresh parser, return ({tid: [per-trace observation]}, learned names)."""
    position = {}
    for tid, program in programs.items():
        for i, e in enumerate(program):
            position[id(e)] = (tid, i)
    pids_names = {}
    parser = TracesParser(TRACE_CODES, {}, pids_names)
    per_thread = {tid: [] for tid in programs}
    for trace in parser.feed_generator(iter(stream)):
        members = [position[id(e)] for e in trace.ktraces]
        owner = members[0][0]
        assert all(m[0] == owner for m in members), 'a trace holds records of another thread'
        per_thread[owner].append((type(trace).__name__, str(trace), tuple(m[1] for m in members)))
    return per_thread, dict(pids_names)


def oracle(programs):
    expected, names = {}, {}
    for tid, program in programs.items():
        alone, learned = observe(program, {tid: program})
        expected[tid] = alone[tid]
        assert not set(learned) & set(names)
        names.update(learned)
    return expected, names


def merges(programs, rnd, count):
    tids = sorted(programs)
    # one thread after the other, both directions
    yield [e for tid in tids for e in programs[tid]]
    yield [e for tid in reversed(tids) for e in programs[tid]]
    # round robin
    cursors = {tid: 0 for tid in tids}
    out = []
    while any(cursors[t] < len(programs[t]) for t in tids):
        for t in tids:
            if cursors[t] < len(programs[t]):
                out.append(programs[t][cursors[t]])
                cursors[t] += 1
    yield out
    # random merges, with bursts as per-CPU buffers produce them
    for _ in range(count):
        cursors = {tid: 0 for tid in tids}
        out = []
        while True:
            live = [t for t in tids if cursors[t] < len(programs[t])]
            if not live:
                break
            t = rnd.choice(live)
            for _ in range(rnd.randrange(1, 4)):
                if cursors[t] < len(programs[t]):
                    out.append(programs[t][cursors[t]])
                    cursors[t] += 1
        yield out


def main():
    rnd = random.Random(1005)
    scenarios = failures = streams = traces = names_learned = 0
    for scenario in range(48):
        tids = rnd.sample(range(11, 40), rnd.randrange(2, 5))
        programs = {tid: make_program(tid, rnd) for tid in tids}
        expected, expected_names = oracle(programs)
        scenarios += 1
        traces += sum(len(v) for v in expected.values())
        names_learned += len(expected_names)
        for stream in merges(programs, rnd, 8):
            streams += 1
            assert sorted(map(id, stream)) == sorted(id(e) for p in programs.values() for e in p)
            got, got_names = observe(stream, programs)
            for tid in tids:
                if got[tid] != expected[tid]:
                    failures += 1
                    print('VIOLATION scenario %d tid %d:\n  alone      %r\n  interleaved %r'
                          % (scenario, tid, expected[tid], got[tid]))
            if got_names != expected_names:
                failures += 1
                print('VIOLATION scenario %d learned names: alone %r interleaved %r'
                      % (scenario, expected_names, got_names))

    # hand-written case: the string record is separated from its data record by records of other threads only
    c = Clock()
    a = [ev(c, 1, 'TRACE_DATA_NEWTHREAD', NONE, (1001, 150, 0, 1)), ev(c, 1, 'TRACE_STRING_NEWTHREAD', NONE, data=b'A')]
    b = [ev(c, 2, 'TRACE_DATA_NEWTHREAD', NONE, (2001, 250, 0, 1)), ev(c, 2, 'TRACE_STRING_NEWTHREAD', NONE, data=b'B')]
    x = [ev(c, 3, 'TRACE_DATA_EXEC', NONE, (350, 0, 0, 0)), ev(c, 3, 'TRACE_STRING_EXEC', NONE, data=b'X')]
    programs = {1: a, 2: b, 3: x}
    expected, expected_names = oracle(programs)
    assert expected_names == {150: 'A', 250: 'B', 350: 'X'}, expected_names
    for stream in ([a[0], b[0], x[0], a[1], b[1], x[1]], [a[0], b[0], x[0], x[1], b[1], a[1]],
                   [x[0], b[0], a[0], b[1], a[1], x[1]]):
        streams += 1
        got, got_names = observe(stream, programs)
        if got != expected or got_names != expected_names:
            failures += 1
            print('VIOLATION hand-written pairs', got, got_names)

    # the observable difference (not part of the property): state kept after a thread is done with it
    c = Clock()
    pids_names = {}
    parser = TracesParser(TRACE_CODES, {}, pids_names)
    list(parser.feed_generator(blk_read(c, 7, rnd) + [
        ev(c, 7, 'TRACE_DATA_NEWTHREAD', NONE, (7001, 500, 0, 1)),
        ev(c, 7, 'TRACE_STRING_NEWTHREAD', NONE, data=b'first'),
        ev(c, 7, 'TRACE_STRING_NEWTHREAD', NONE, data=b'second')]))
    print('observable: thread 7 logs read START/END, DATA_NEWTHREAD(pid 500), STRING "first", STRING "second" -> '
          'pids_names=%r  on_going_events=%r  data records still waiting=%d'
          % (pids_names, parser.on_going_events, len(parser.last_data_newthread)))

    print('%d scenarios, %d interleaved streams, %d traces and %d learned names per scenario set checked, '
          '%d violations' % (scenarios + 1, streams, traces, names_learned, failures))
    return 1 if failures else 0


if __name__ == '__main__':
    sys.exit(main())
