"""
Property C15 (callstacks take the sampled frames and attribute each to the right image), exercised against an
oracle written from the statement only.

Run as:  cd /tmp/seed12_C15 && /venv/bin/python /tmp/seed_out12/C15/demo.py
Exits 0 on the unchanged and on the changed code; prints one line with the observable difference.
"""
import os, sys; sys.path.insert(0, os.getcwd())  # noqa: E401,E702

import io
import random
import struct
from uuid import UUID

import pykdebugparser
from pykdebugparser.callstacks_parser import CallstacksParser
from pykdebugparser.kd_buf_parser import RAW_VERSION2_BYTES, kd_header_v2
from pykdebugparser.kevent import KD_BUF_FORMAT, from_kd_buf
from pykdebugparser.pykdebugparser import PyKdebugParser
from pykdebugparser.trace_codes import default_trace_codes
from pykdebugparser.traces_parser import TracesParser

print('testing', pykdebugparser.__file__)

START, END, NONE = 1, 2, 0
PERF_EVENT = 0x25000000
PERF_THD_DATA = 0x25010004
PERF_STK_KDATA = 0x2502000c
PERF_STK_UDATA = 0x25020010
PERF_STK_KHDR = 0x25020014
PERF_STK_UHDR = 0x25020018
DYLD_MAP_A = 0x1f050000
DYLD_MAP_B = 0x1f050004
DYLD_SHARED_CACHE_A = 0x1f050028
DYLD_LAUNCH = 0x1f070004
SAMPLER_TH_INFO, SAMPLER_KSTACK, SAMPLER_USTACK = 0x1, 0x4, 0x8


class Stream:
    """Builds the records of a dump and, side by side, what the statement says must come out of it."""

    def __init__(self):
        self.records = []
        self.ts = 0x1001
        self.images = {}  # load address -> uuid of the FIRST announcement of that address
        self.expected = []

    def rec(self, eventid, qual, tid, values):
        values = tuple(values) + (0,) * (4 - len(values))
        self.ts += 3
        self.records.append(struct.pack(KD_BUF_FORMAT, self.ts, struct.pack('<QQQQ', *values), tid, eventid | qual,
                                        0, 0))
        return self.ts

    @staticmethod
    def uuid_words(uuid):
        return struct.unpack('<QQ', uuid.bytes)

    def announce(self, uuid, addr):
        self.images.setdefault(addr, uuid)

    def image(self, uuid, addr, tid=77, with_b=False):
        """A stand-alone image announcement."""
        self.rec(DYLD_MAP_A, NONE, tid, self.uuid_words(uuid) + (addr, 0))
        if with_b:
            self.rec(DYLD_MAP_B, NONE, tid, (5,))
        self.announce(uuid, addr)

    def launch(self, images, shared_caches, tid=78):
        """A process launch announcing images, then its shared cache(s); no sample is taken in between."""
        self.rec(DYLD_LAUNCH, START, tid, (0, 0x100000000))
        for uuid, addr in images:
            self.rec(DYLD_MAP_A, NONE, tid, self.uuid_words(uuid) + (addr, 0))
            self.announce(uuid, addr)
        for uuid, addr in shared_caches:
            self.rec(DYLD_SHARED_CACHE_A, NONE, tid, self.uuid_words(uuid) + (addr, 0))
            self.announce(uuid, addr)
        self.rec(DYLD_LAUNCH, END, tid, (0, 0x100000000))

    def attribute(self, frame):
        below = [a for a in self.images if a <= frame]
        if not below:
            return frame, None, None
        base = max(below)
        assert frame - base >= 0
        return frame, self.images[base], frame - base

    def sample_open(self, tid, what=SAMPLER_USTACK, actionid=1):
        return self.rec(PERF_EVENT, START, tid, (what, actionid))

    def sample_body(self, tid, words, nframes, flags=0x5, thd_data=False, kernel_words=None, chunk=4):
        """Returns the frame words the statement selects."""
        if kernel_words is not None:
            self.rec(PERF_STK_KHDR, NONE, tid, (0x9, len(kernel_words)))
            for i in range(0, len(kernel_words), 4):
                self.rec(PERF_STK_KDATA, NONE, tid, kernel_words[i:i + 4])
        self.rec(PERF_STK_UHDR, NONE, tid, (flags, nframes))
        supplied = []
        for i in range(0, len(words), chunk):
            piece = tuple(words[i:i + chunk])
            piece += (0,) * (4 - len(piece))  # a record always carries four words
            self.rec(PERF_STK_UDATA, NONE, tid, piece)
            supplied.extend(piece)
        if thd_data:
            self.rec(PERF_THD_DATA, NONE, tid, (40, tid, 0, 1))
        return supplied[:nframes]

    def sample_close(self, tid, start_ts, selected, what=SAMPLER_USTACK):
        self.rec(PERF_EVENT, END, tid, (what, 0))
        if selected is not None:
            self.expected.append((start_ts, tid, [self.attribute(f) for f in selected]))

    def sample(self, tid, words, nframes, what=SAMPLER_USTACK, **kwargs):
        start_ts = self.sample_open(tid, what)
        selected = self.sample_body(tid, words, nframes, **kwargs)
        self.sample_close(tid, start_ts, selected, what)

    def kernel_only_sample(self, tid, kernel_words):
        """Not a user-stack sample: no callstack."""
        self.rec(PERF_EVENT, START, tid, (SAMPLER_KSTACK, 1))
        self.rec(PERF_STK_KHDR, NONE, tid, (0x9, len(kernel_words)))
        for i in range(0, len(kernel_words), 4):
            self.rec(PERF_STK_KDATA, NONE, tid, kernel_words[i:i + 4])
        self.rec(PERF_EVENT, END, tid, (SAMPLER_KSTACK, 0))

    def dump(self):
        header = kd_header_v2.build(dict(number_of_treads=1, is_64bit=1, tick_frequency=24000000,
                                         threadmap=[dict(tid=77, pid=40, process='demo')], _pad=[]))
        return RAW_VERSION2_BYTES + header + b''.join(self.records)


def plain(callstacks):
    """Field by field, by name: what the statement talks about and nothing else."""
    return [(cs.timestamp, cs.tid, [(f.address, f.uuid, f.offset) for f in cs.frames]) for cs in callstacks]


def run_parsers(stream):
    events = [from_kd_buf(r) for r in stream.records]
    traces = TracesParser(default_trace_codes(), {}, {}).feed_generator(events)
    by_parts = list(CallstacksParser([], []).feed_generator(traces))
    whole = list(PyKdebugParser().callstacks(io.BytesIO(stream.dump())))
    return by_parts, whole


def U(n):
    return UUID(int=(0xabcdef0000000000 << 64) | n)


def scenarios():
    # 1 no image at all
    s = Stream()
    s.sample(5, [0x1000, 0x2000, 0x3000], 3)
    yield 'no images', s

    # 2 frames below / at / above every load address, adjacent images
    s = Stream()
    s.image(U(1), 0x1000)
    s.image(U(2), 0x1001)
    s.image(U(3), 0x5000)
    s.sample(5, [0xfff, 0x1000, 0x1001, 0x1002, 0x4fff, 0x5000, 0x5001, 2 ** 64 - 1, 0], 9, thd_data=True)
    yield 'below/at/above, adjacent', s

    # 3 the same images announced in the opposite order
    s = Stream()
    s.image(U(3), 0x5000)
    s.image(U(2), 0x1001)
    s.image(U(1), 0x1000)
    s.sample(5, [0xfff, 0x1000, 0x1001, 0x1002, 0x4fff, 0x5000, 0x5001, 2 ** 64 - 1, 0], 9)
    yield 'reverse announcement order', s

    # 4 an address announced twice keeps its first identity (also with other images in between)
    s = Stream()
    s.image(U(1), 0x4000)
    s.image(U(9), 0x2000)
    s.image(U(2), 0x4000)
    s.image(U(9), 0x6000)
    s.image(U(3), 0x4000, with_b=True)
    s.sample(6, [0x4000, 0x4abc, 0x2000, 0x6fff, 0x1fff], 5)
    yield 'duplicate address', s

    # 5 only the images announced EARLIER count
    s = Stream()
    s.sample(5, [0x7010], 1)
    s.image(U(1), 0x7000)
    s.sample(5, [0x7010, 0x9010], 2)
    s.image(U(2), 0x9000)
    s.image(U(3), 0x7008)
    s.sample(5, [0x7010, 0x9010, 0x7007], 3)
    yield 'announced later', s

    # 6 header count below / equal / above the data supplied, depth 0
    for name, nwords, nframes in (('count below data', 7, 3), ('count equal data', 8, 8), ('count above data', 5, 40),
                                  ('count at a record boundary', 9, 4), ('count 0 with data', 4, 0),
                                  ('count 0 without data', 0, 0), ('count 3 without data', 0, 3),
                                  ('deep stack', 130, 128)):
        s = Stream()
        s.image(U(1), 0x100000)
        s.sample(5, [0x100000 + 16 * i for i in range(nwords)], nframes, flags=0x15)
        yield name, s

    # 7 samples of two threads interleaved; kernel words do not count; samples that are not user-stack samples
    s = Stream()
    s.image(U(1), 0x8000)
    s.launch([(U(2), 0x20000), (U(4), 0x10000)], [(U(5), 0x180000000), (U(6), 0x180000000)])
    s.kernel_only_sample(4, [0xfffffff007004000, 0xfffffff007004010])
    t5 = s.sample_open(5)
    t6 = s.sample_open(6, SAMPLER_USTACK | SAMPLER_KSTACK | SAMPLER_TH_INFO)
    f5 = s.sample_body(5, [0x8004, 0x20004, 0x180000040], 3)
    f6 = s.sample_body(6, [0x10004, 0x7fff, 0x1ffff, 0x17fffffff, 0x180000000], 5, thd_data=True,
                       kernel_words=[0xfffffff007004000, 0x8000, 0x8001])
    s.sample_close(6, t6, f6)
    s.sample_close(5, t5, f5)
    yield 'interleaved threads, launch, kernel stack', s

    # 8 launch whose images duplicate stand-alone ones
    s = Stream()
    s.image(U(1), 0x30000)
    s.launch([(U(2), 0x30000), (U(3), 0x40000)], [(U(4), 0x50000), (U(5), 0x40000)])
    s.image(U(6), 0x50000)
    s.sample(9, [0x30001, 0x40001, 0x50001, 0x2ffff], 4)
    yield 'launch duplicates', s

    # 9 data records carrying fewer than four words
    s = Stream()
    s.image(U(1), 0x1000)
    s.sample(5, [0x1001, 0x1002, 0x1003, 0x1004, 0x1005], 6, chunk=2)
    yield 'short data records', s

    # random streams
    for seed in range(40):
        rnd = random.Random(seed)
        s = Stream()
        bases = [rnd.choice([0, 1, 0x1000, 0x1001, 0x1002, 0x4000, 0x100000000, 0x180000000, 0x1fffffff000,
                             2 ** 64 - 1]) for _ in range(rnd.randint(1, 6))]
        bases += [rnd.randrange(0, 2 ** 40) for _ in range(rnd.randint(0, 3))]
        n = 0
        for _ in range(rnd.randint(3, 14)):
            kind = rnd.random()
            n += 1
            if kind < 0.4:
                s.image(U(n * 100 + seed), rnd.choice(bases), tid=rnd.choice([77, 5, 6]), with_b=rnd.random() < 0.3)
            elif kind < 0.5:
                s.launch([(U(n * 100 + 10 + i), rnd.choice(bases)) for i in range(rnd.randint(0, 3))],
                         [(U(n * 100 + 20 + i), rnd.choice(bases)) for i in range(rnd.randint(0, 2))],
                         tid=rnd.choice([78, 5]))
            elif kind < 0.55:
                s.kernel_only_sample(rnd.choice([5, 6]), [rnd.randrange(2 ** 64) for _ in range(rnd.randint(0, 6))])
            else:
                words = []
                for _ in range(rnd.randint(0, 11)):
                    base = rnd.choice(bases)
                    words.append(min(max(base + rnd.choice([-2, -1, 0, 0, 1, 2, 0x123, 0xfffff]), 0), 2 ** 64 - 1))
                nframes = max(0, len(words) + rnd.choice([-3, -1, 0, 0, 1, 2, 9]))
                s.sample(rnd.choice([5, 6, 7]), words, nframes, flags=rnd.choice([0x1, 0x5, 0x15, 0x0]),
                         thd_data=rnd.random() < 0.3,
                         kernel_words=[1, 2, 3] if rnd.random() < 0.2 else None,
                         what=SAMPLER_USTACK | rnd.choice([0, SAMPLER_TH_INFO, SAMPLER_KSTACK]))
        yield f'random {seed}', s


def main():
    failures = 0
    count = 0
    samples = 0
    shown = None
    for name, stream in scenarios():
        count += 1
        samples += len(stream.expected)
        by_parts, whole = run_parsers(stream)
        for route, got in (('TracesParser+CallstacksParser', by_parts), ('PyKdebugParser.callstacks', whole)):
            if plain(got) != stream.expected:
                failures += 1
                print(f'FAIL [{name}] via {route}:\n  expected {stream.expected}\n  got      {plain(got)}')
            for cs in got:
                if not isinstance(cs.frames, (list, tuple)):
                    failures += 1
                    print(f'FAIL [{name}] via {route}: frames is a {type(cs.frames).__name__}')
        if shown is None and whole:
            shown = whole[0]

    # Order independence, checked directly: every permutation of three distinct images gives the same attribution.
    from itertools import permutations
    results = set()
    for order in permutations([(U(1), 0x1000), (U(2), 0x1001), (U(3), 0x9000)]):
        s = Stream()
        for uuid, addr in order:
            s.image(uuid, addr)
        s.ts = 0x9001  # same timestamps for the sample whatever came before
        s.sample(5, [0xfff, 0x1000, 0x1001, 0x8fff, 0x9000, 0x9001], 6)
        count += 1
        by_parts, whole = run_parsers(s)
        if plain(by_parts) != s.expected or plain(whole) != s.expected:
            failures += 1
            print(f'FAIL [permutation {order}]')
        results.add(repr(plain(whole)))
    if len(results) != 1:
        failures += 1
        print('FAIL: attribution depends on the announcement order')

    extra = [f for f in shown._fields if f not in ('timestamp', 'tid', 'frames')]
    print(f'observable difference: Callstack has {len(shown)} fields {shown._fields}; '
          + (f'extra {extra[0]}={getattr(shown, extra[0])!r}' if extra else 'no extra field'))
    print(f'{count} streams, {samples} user-stack samples, {failures} failures')
    return 1 if failures else 0


if __name__ == '__main__':
    sys.exit(main())
