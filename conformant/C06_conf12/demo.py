"""
C06 demo: truncated dumps - parsing terminates and reports a prefix of the full result.

Run as:  cd /tmp/seed12_C06 && /venv/bin/python /tmp/seed_out12/C06/demo.py

The oracle is derived from the statement only:
  for every dump D and every cut offset k in 0..len(D)
    (1) every public generator (kevents / formatted_kevents / traces / formatted_traces) stops, normally or with an
        exception, after reading at most  4*k + 4096  bytes in at most  4*k + 256  read() calls (linear);
    (2) what it reported before stopping is a prefix of what it reports for D;
    (3) it reported no more events than there are COMPLETE 64-byte records in D[:k] (nothing fabricated from a
        partial record);
    (4) for every output count c the lines print_with_count() writes are exactly the first min(c, n) of the n lines
        written without a limit (c < 0: all of them) - whether or not it ends with an exception.
Nothing else is asserted; in particular not HOW a run ends (exception or not, which exception), nor how much of the
stream a count-limited run consumes - the statement leaves both open.
"""
import os, sys; sys.path.insert(0, os.getcwd())  # noqa: E401,E702

import contextlib
import io
import plistlib
import struct

import pykdebugparser
from construct import Aligned
from pykdebugparser import kd_buf_parser as kbp
from pykdebugparser.__main__ import print_with_count
from pykdebugparser.pykdebugparser import PyKdebugParser
from pykdebugparser.trace_codes import default_trace_codes

print('testing', pykdebugparser.__file__)
assert os.path.realpath(pykdebugparser.__file__).startswith(os.path.realpath(os.getcwd()) + os.sep), \
    'not testing the worktree copy'

CODES = default_trace_codes()
REC = kbp.KEVENT_SIZE
assert REC == 64


# ----------------------------------------------------------------------------------------------- dump builders
def ev(ts, args, tid, debugid, cpu=0):
    data = args if isinstance(args, bytes) else struct.pack('<4Q', *args)
    return struct.pack('<Q32sQIIQ', ts, data.ljust(32, b'\0'), tid, debugid, cpu, 0)


def thread(tid, pid, name):
    return struct.pack('<QI', tid, pid) + name.encode().ljust(0x14, b'\0')


START, END = 1, 2
READ, GETPID, NEWTHREAD, STR_NEWTHREAD, TERMINATE = 0x40c000c, 0x40c0050, 0x7000004, 0x7010004, 0x700000c

EVENTS_A = [
    ev(0x1001, (200, 77, 0, 5), 100, NEWTHREAD),
    ev(0x1002, b'child', 100, STR_NEWTHREAD),
    ev(0x1003, (7, 0x1000, 64, 0), 200, READ | START),
    ev(0x1004, (0, 0, 0, 0), 100, GETPID | START),
    ev(0x1005, (1, 2, 3, 4), 300, 0x99990000),
    ev(0x1006, (0, 64, 0, 0), 200, READ | END),
    ev(0x1007, (0, 77, 0, 0), 100, GETPID | END),
    ev(0x1008, (0, 1, 0, 0), 300, READ | END),  # end without start
    ev(0x1009, (9, 0x2000, 8, 0), 300, READ | START),  # never ends
    ev(0x100a, (200, 0, 0, 0), 200, TERMINATE),
    ev(0x100b, (3, 0x3000, 16, 0), 100, READ | START),
    ev(0x100c, (9, 0, 0, 0), 100, READ | END),  # errno
]
EVENTS_B = [
    ev(0x2001, (5, 0x5000, 32, 0), 400, READ | START),
    ev(0x2002, (0, 32, 0, 0), 400, READ | END),
    ev(0x2003, (0, 0, 0, 0), 400, GETPID | START),
    ev(0x2004, (0, 12, 0, 0), 400, GETPID | END),
    ev(0x2005, (6, 6, 6, 6), 500, 0x31ca0000),
]


def dump_v2(threads, events, pad=0):
    """ returns (bytes, offsets of the event records) """
    header = struct.pack('<I8x4xIQ', len(threads), 1, 24000000) + b'\0' * 0x100
    head = kbp.RAW_VERSION2_BYTES + header + b''.join(threads) + b'\0' * pad
    offsets = [len(head) + i * REC for i in range(len(events))]
    return head + b''.join(events), offsets


def dump_v3(threads, chunks, blocks):
    header = Aligned(8, kbp.kd_header_v3).build(dict(
        tag=0x55aa0300, sub_tag=0, length=0, timebase_numer=125, timebase_denom=3, timestamp=0x1000,
        walltime_secs=1600000000, walltime_usecs=5, timezone_minuteswest=0, timezone_dst=0, flags=1, tag2=0,
        cpu_info={'cpus': 2}))
    out = kbp.RAW_VERSION3_BYTES + header + b'\0' * 4
    # a stackshot holding a decoy thread map tag
    out += b'stackshot..' + kbp.TRACEV3_THREADMAP_TAG + b'\x11\x22\x33' + kbp.TRACEV3_STACKSHOT_END + b'\x07' * 5
    tm = b''.join(threads)
    out += kbp.TRACEV3_THREADMAP_TAG + struct.pack('<Q', len(tm)) + tm
    offsets = []
    for i, chunk in enumerate(chunks):
        if i:
            out += kbp.TRACEV3_MORE_EVENTS
        out += b'\x01' * 3 + kbp.TRACEV3_EVENTS_TAG + struct.pack('<Q', len(chunk) * REC) + b'\0' * 8
        for e in chunk:
            offsets.append(len(out))
            out += e
    for tag, data in blocks:
        out += tag + struct.pack('<Q', len(data)) + data + b'\0' * (-len(data) % 8)
    return out, offsets


THREADS = [thread(100, 55, 'parent'), thread(300, 56, 'other'), thread(400, 57, 'third')]
BLOCKS = [(kbp.TRACEV3_TRACE_CODES, b'0x40c000c\tBSC_read\n'),
          (kbp.TRACEV3_PROCESSES, plistlib.dumps({'Processes': [{'pid': 55, 'name': 'parent'}]}))]

DUMPS = {
    'v2 no threads, no events': dump_v2([], []),
    'v2 no threads, 1 event': dump_v2([], EVENTS_B[:1]),
    'v2 threads+pad, 12 events': dump_v2(THREADS, EVENTS_A, pad=16),
    'v2 threads, 5 events': dump_v2(THREADS[:1], EVENTS_B),
    'v3 two chunks + blocks': dump_v3(THREADS, [EVENTS_A[:7], EVENTS_A[7:]], BLOCKS),
    'v3 one chunk, no blocks': dump_v3(THREADS[:2], [EVENTS_B], []),
    'v3 three chunks (one empty)': dump_v3(THREADS, [EVENTS_B[:2], [], EVENTS_A[:4]], BLOCKS[:1]),
}


# ----------------------------------------------------------------------------------------------- harness
class CountingStream(io.BytesIO):
    def __init__(self, data):
        super().__init__(data)
        self.bytes_read = 0
        self.calls = 0

    def read(self, *a):
        got = super().read(*a)
        self.bytes_read += len(got)
        self.calls += 1
        return got


def configure(cfg):
    p = PyKdebugParser()
    p.color = False
    for k, v in cfg.items():
        setattr(p, k, v)
    return p


def show(kind, x):
    if kind == 'traces':
        return (type(x).__name__, str(x), tuple(x.ktraces))
    return x


def run(kind, data, cfg):
    """ returns (reported items, exception or None, stream) """
    parser = configure(cfg)
    stream = CountingStream(data)
    items, exc = [], None
    try:
        if kind == 'kevents':
            gen = parser.kevents(stream)
        else:
            gen = getattr(parser, kind)(stream, CODES)
        for x in gen:
            items.append(show(kind, x))
    except Exception as e:  # stopping with an error is allowed by the statement
        exc = e
    return items, exc, stream


def run_count(kind, data, cfg, count):
    """ returns (stdout text, exception or None, stream) """
    parser = configure(cfg)
    stream = CountingStream(data)
    out, exc = io.StringIO(), None
    with contextlib.redirect_stdout(out):
        try:
            print_with_count(getattr(parser, kind)(stream, CODES), count)
        except Exception as e:
            exc = e
    return out.getvalue(), exc, stream


KINDS = ('kevents', 'formatted_kevents', 'traces', 'formatted_traces')
CONFIGS = [{}, {'filter_tid': 100, 'show_tid': True}, {'filter_class': [4], 'filter_process': 'parent'}]

checked = 0
for name, (dump, offsets) in DUMPS.items():
    for cfg in CONFIGS:
        full = {}
        for kind in KINDS:
            items, exc, _ = run(kind, dump, cfg)
            assert exc is None, (name, kind, exc)
            full[kind] = items
        if not cfg:
            # the builders produce what they are meant to
            assert len(full['kevents']) == len(offsets), (name, len(full['kevents']), len(offsets))
            assert [e.timestamp for e in full['kevents']] == \
                   [struct.unpack_from('<Q', dump, o)[0] for o in offsets], name

        boundaries = set()
        for o in offsets:
            boundaries.update((o - 1, o, o + 1, o + REC - 1))
        boundaries.update((0, 3, 4, 5, len(dump) - 1, len(dump)))

        for k in range(len(dump) + 1):
            cut = dump[:k]
            complete = sum(1 for o in offsets if o + REC <= k)
            for kind in KINDS:
                items, exc, stream = run(kind, cut, cfg)
                # (1) terminated (we are here) after a linear amount of reading
                assert stream.bytes_read <= 4 * k + 4096, (name, kind, k, stream.bytes_read)
                assert stream.calls <= 4 * k + 256, (name, kind, k, stream.calls)
                # (2) prefix of the full result
                assert items == full[kind][:len(items)], (name, cfg, kind, k)
                # (3) nothing from a partial record
                if kind in ('kevents', 'formatted_kevents') and not cfg:
                    assert len(items) <= complete, (name, kind, k, len(items), complete)
                if k == len(dump):
                    assert exc is None and items == full[kind]
            checked += 1

            # (4) limiting the output count never changes the lines that are printed
            if k in boundaries or k % 29 == 0:
                for kind in ('formatted_kevents', 'formatted_traces'):
                    everything, _, _ = run_count(kind, cut, cfg, -1)
                    lines, _, _ = run(kind, cut, cfg)
                    assert everything == ''.join(x + '\n' for x in lines), (name, kind, k)
                    n = len(lines)
                    for c in {0, 1, 2, n - 1, n, n + 1, n + 5, -1, -7}:
                        text, _, stream = run_count(kind, cut, cfg, c)
                        want = lines if c < 0 else lines[:max(c, 0)]
                        assert text == ''.join(x + '\n' for x in want), (name, kind, k, c)
                        assert stream.bytes_read <= 4 * k + 4096

print(f'OK: {checked} (dump, configuration, cut offset) cases, {len(DUMPS)} dumps x {len(CONFIGS)} configurations x '
      f'{len(KINDS)} generators; prefix / no-partial-record / linear-read / count-limit clauses all hold')

# ----------------------------------------------------------------------------------------------- the difference
def ename(e):
    return 'no error' if e is None else f'{type(e).__module__}.{type(e).__qualname__}'


dump, offsets = DUMPS['v2 threads, 5 events']
cut = dump[:offsets[3] + 10]  # three complete records, the fourth is cut
text, exc, stream = run_count('formatted_kevents', cut, {}, 3)
text0, exc0, stream0 = run_count('formatted_kevents', dump[:100], {}, 0)  # cut inside the header, -c 0
print('observable difference: print_with_count(count=3) on a dump cut inside its 4th record printed '
      f'{text.count(chr(10))} lines and ended with {ename(exc)} '
      f'after reading {stream.bytes_read} bytes; count=0 on a dump cut inside the header ended with '
      f'{ename(exc0)} after reading {stream0.bytes_read} bytes')
