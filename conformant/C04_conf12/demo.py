"""
C04 demo: START/END pairing delivers exactly each operation's per-thread event window.

Run as:  cd /tmp/seed12_C04 && /venv/bin/python /tmp/seed_out12/C04/demo.py
Exits 0 on the unchanged and on the changed tree.  Uses the public surface only: TracesParser(...), .handlers,
.feed(), .feed_generator(), .parse_event_list() (wrapped per instance to see the windows of codes that have no decoder).
"""
import os, sys; sys.path.insert(0, os.getcwd())  # noqa: E401,E702

import random
from collections import namedtuple

import pykdebugparser
from pykdebugparser.kevent import Kevent
from pykdebugparser.traces_parser import TracesParser

print('testing', pykdebugparser.__file__)

NONE, START, END, ALL = 0, 1, 2, 3

# code classes -----------------------------------------------------------------------------------------------------
DEMO_A, DEMO_B, DEMO_C = 0x2bad0000, 0x2bad0004, 0x2bad0008  # decodable (demo decoders registered below)
UNDECODED_1, UNDECODED_2 = 0x2bad0100, 0x2bad0104  # named in the code map, no decoder
UNKNOWN_1, UNKNOWN_2 = 0x2bad0200, 0x2bad0204  # not in the code map at all
T_NEWTHREAD, T_EXEC, T_GLOBAL, T_PROC_EXIT = 0x7000004, 0x7000008, 0x7010000, 0x701000c  # kernel trace domain

CODES = {
    DEMO_A: 'DEMO_A', DEMO_B: 'DEMO_B', DEMO_C: 'DEMO_C',
    UNDECODED_1: 'DEMO_UNDECODED_1', UNDECODED_2: 'DEMO_UNDECODED_2',
    T_NEWTHREAD: 'TRACE_DATA_NEWTHREAD', T_EXEC: 'TRACE_DATA_EXEC',
    T_GLOBAL: 'TRACE_STRING_GLOBAL', T_PROC_EXIT: 'TRACE_STRING_PROC_EXIT',
}
TRACE_DOMAIN = {T_NEWTHREAD, T_EXEC, T_GLOBAL, T_PROC_EXIT}
DECODABLE = {DEMO_A, DEMO_B, DEMO_C} | TRACE_DOMAIN
MAY_SWALLOW_FRAGMENT = {T_GLOBAL}  # C08: a record of a string that does not start it is not reported on its own
ALL_CODES = [DEMO_A, DEMO_B, DEMO_C, UNDECODED_1, UNDECODED_2, UNKNOWN_1, UNKNOWN_2,
             T_NEWTHREAD, T_EXEC, T_GLOBAL, T_PROC_EXIT]

DemoTrace = namedtuple('DemoTrace', ['name', 'ktraces'])


def new_parser():
    parser = TracesParser(dict(CODES), {}, {})
    for name in ('DEMO_A', 'DEMO_B', 'DEMO_C'):
        parser.handlers[name] = (lambda n: lambda p, events: DemoTrace(n, events))(name)
    return parser


_clock = [0]


def ev(tid, code, qual):
    _clock[0] += 1
    return Kevent(_clock[0], bytes(32), (0, 0, 0, 0), tid, code | qual, code, qual)


# oracle, written from the statement ---------------------------------------------------------------------------------
class Oracle:
    def __init__(self):
        self.log = {}  # (domain, tid) -> every event of the thread in that pairing domain, in stream order
        self.open = {}  # (domain, tid) -> {code: position in log of the most recent START that was not ended}
        self.stray = set()  # id() of ENDs that had no open START of their own

    def step(self, event):
        """ -> None if nothing may be delivered, else (required, allowed): the window without / with stray ENDs """
        key = (event.eventid in TRACE_DOMAIN, event.tid)
        log = self.log.setdefault(key, [])
        opened = self.open.setdefault(key, {})
        log.append(event)
        if event.func_qualifier == START:
            opened[event.eventid] = len(log) - 1
            return None
        if event.func_qualifier == END:
            if event.eventid not in opened:
                self.stray.add(id(event))
                return None
            interval = log[opened.pop(event.eventid):]
            return [e for e in interval if id(e) not in self.stray], interval
        return [event], [event]


def is_subsequence(short, long):
    it = iter(long)
    return all(any(x is y for y in it) for x in short)


def same(a, b):
    return len(a) == len(b) and all(x is y for x, y in zip(a, b))


def check_stream(stream, label):
    parser = new_parser()
    oracle = Oracle()
    windows = []
    inner = parser.parse_event_list

    def spy(events):
        windows.append(events)
        return inner(events)

    parser.parse_event_list = spy
    emitted = []
    for position, event in enumerate(stream):
        where = f'{label}, event {position} (tid {event.tid}, code {event.eventid:#x}, qualifier {event.func_qualifier})'
        del windows[:]
        trace = parser.feed(event)
        expected = oracle.step(event)
        decodable = event.eventid in DECODABLE
        if expected is None:
            assert trace is None, f'{where}: a trace where none is due: {trace!r}'
            assert not windows, f'{where}: a window was decoded where none is due'
            continue
        required, allowed = expected
        assert len(windows) <= 1, f'{where}: more than one window delivered at one event'
        if not decodable:
            assert trace is None, f'{where}: a trace for a code that cannot be decoded: {trace!r}'
        elif trace is None:
            assert event.func_qualifier == NONE and event.eventid in MAY_SWALLOW_FRAGMENT, f'{where}: no trace'
        else:
            emitted.append(trace)
            assert len(windows) == 1 and windows[0] is not None
        # the global string decoder reports its own selection of records (C08), the window it was given is checked
        own_selection = event.eventid in MAY_SWALLOW_FRAGMENT
        for got in ([trace.ktraces] if trace is not None and not own_selection else []) + list(windows):
            got = list(got)
            assert len({id(e) for e in got}) == len(got), f'{where}: duplicates in the window'
            assert all(e.tid == event.tid for e in got), f'{where}: event of another thread in the window'
            assert got[0] is allowed[0] and got[-1] is event, f'{where}: wrong first / last event'
            assert is_subsequence(got, allowed), f'{where}: event from outside the interval, or out of order'
            assert same([e for e in got if id(e) not in oracle.stray], required), f'{where}: window incomplete'

    # the generator interface reports the same traces, in the same order
    again = new_parser()
    replay = list(again.feed_generator(iter(stream)))
    assert len(replay) == len(emitted), f'{label}: feed_generator reports {len(replay)} traces, feed {len(emitted)}'
    for a, b in zip(replay, emitted):
        assert type(a) is type(b) and same(list(a.ktraces), list(b.ktraces)), f'{label}: feed_generator differs'
    return len(emitted)


# inputs ---------------------------------------------------------------------------------------------------------------
def handmade():
    A, B, C, U, X, TN, TE, TG, TP = (DEMO_A, DEMO_B, DEMO_C, UNDECODED_1, UNKNOWN_1, T_NEWTHREAD, T_EXEC, T_GLOBAL,
                                     T_PROC_EXIT)
    S, E, N, L = START, END, NONE, ALL
    yield 'plain pair', [(1, A, S), (1, A, E)]
    yield 'pair with body', [(1, A, S), (1, B, N), (1, U, N), (1, X, L), (1, A, E)]
    yield 'unmatched end', [(1, A, E)]
    yield 'unmatched end then pair', [(1, A, E), (1, A, S), (1, A, E), (1, A, E)]
    yield 'end on another thread', [(1, A, S), (2, A, E), (1, A, E)]
    yield 'end of another code', [(1, A, S), (1, B, E), (1, A, E)]
    yield 'stray end inside two open operations', [(1, A, S), (1, C, S), (1, B, E), (1, C, E), (1, A, E)]
    yield 'repeated start', [(1, A, S), (1, B, N), (1, A, S), (1, C, N), (1, A, E), (1, A, E)]
    yield 'repeated start inside another', [(1, B, S), (1, A, S), (1, A, S), (1, A, E), (1, B, E), (1, A, E)]
    yield 'nested', [(1, A, S), (1, B, S), (1, C, N), (1, B, E), (1, A, E)]
    yield 'nested three deep', [(1, A, S), (1, B, S), (1, C, S), (1, C, E), (1, B, E), (1, A, E)]
    yield 'crossing', [(1, A, S), (1, B, S), (1, A, E), (1, C, L), (1, B, E)]
    yield 'crossing with undecoded', [(1, U, S), (1, A, S), (1, U, E), (1, A, E)]
    yield 'unknown code pair around decodable', [(1, X, S), (1, A, S), (1, A, E), (1, X, E)]
    yield 'interleaved threads', [(1, A, S), (2, A, S), (1, B, N), (2, C, N), (2, A, E), (3, B, L), (1, A, E)]
    yield 'same thread again after everything closed', [(1, A, S), (1, A, E), (1, B, N), (1, A, E), (1, A, S), (1, A, E)]
    yield 'singles only', [(1, A, N), (1, A, L), (1, U, N), (1, X, L), (2, B, N)]
    yield 'trace data inside a syscall', [(1, A, S), (1, TN, N), (1, TP, N), (1, A, E)]
    yield 'trace string pair', [(1, TG, S), (1, TG, N), (1, TG, E)]
    yield 'syscall records inside a trace string', [(1, TG, S), (1, A, S), (1, TN, N), (1, A, E), (1, TG, E)]
    yield 'trace string crossing a syscall', [(1, A, S), (1, TG, S), (1, A, E), (1, TE, L), (1, TG, E)]
    yield 'trace stray end', [(1, TG, E), (1, A, S), (1, TG, E), (1, A, E)]
    yield 'trace pairs on two threads', [(1, TG, S), (2, TG, S), (2, TN, N), (1, TG, E), (2, TG, E)]
    yield 'trace data start / end', [(1, TN, S), (1, TE, N), (1, TG, L), (1, TN, E), (1, TN, E)]
    yield 'never ended', [(1, A, S), (1, B, S), (2, C, S), (1, C, N)]


def random_streams(count, length):
    rng = random.Random(0xC04)
    for number in range(count):
        tids = rng.sample(range(1, 1000), rng.choice((1, 2, 3)))
        codes = rng.sample(ALL_CODES, rng.choice((2, 3, 5, len(ALL_CODES))))
        yield f'random {number}', [(rng.choice(tids), rng.choice(codes), rng.choice((NONE, START, START, END, END, ALL)))
                                  for _ in range(length)]


def main():
    streams = traces = 0
    for label, spec in list(handmade()) + list(random_streams(40, 80)):
        traces += check_stream([ev(*item) for item in spec], label)
        streams += 1
    print(f'C04 holds on {streams} streams ({traces} traces checked)')

    # observable difference (bookkeeping the statement does not talk about): what the parser keeps of a thread whose
    # operations have all ended
    parser = new_parser()
    for item in [(7, DEMO_A, START), (7, DEMO_A, END), (7, DEMO_B, END)]:
        parser.feed(ev(*item))
    print('bookkeeping after START, END, stray END on thread 7: on_going_events =', repr(parser.on_going_events),
          '| has qualifiers_actions:', hasattr(parser, 'qualifiers_actions'))


if __name__ == '__main__':
    main()
