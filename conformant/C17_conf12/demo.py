"""
Property C17 demo: every registered decoder is reachable; X and X_nocancel decode alike.

Run as:  cd /tmp/seed12_C17 && /venv/bin/python /tmp/seed_out12/C17/demo.py
Exits 0 on both the unchanged and the changed tree.
"""
import os, sys; sys.path.insert(0, os.getcwd())  # noqa: E702

import itertools
import struct

import pykdebugparser

print('testing', pykdebugparser.__file__)

from pykdebugparser import traces_parser as tp  # noqa: E402
from pykdebugparser.kevent import Kevent  # noqa: E402
from pykdebugparser.trace_codes import default_trace_codes  # noqa: E402

failures = []


def check(cond, msg):
    if not cond:
        failures.append(msg)


codes = default_trace_codes()
ids_of = {}
for eventid, name in codes.items():
    ids_of.setdefault(name, []).append(eventid)

# ---------------------------------------------------------------- clause 1: reachability / disjoint families
families = {n: getattr(tp, n) for n in dir(tp) if n.endswith('_handlers') and hasattr(getattr(tp, n), 'keys')}
check(len(families) >= 7, f'expected at least the 7 known families, found {sorted(families)}')
parser = tp.TracesParser(codes, {}, {})
merged = parser.handlers
union = set().union(*[set(h) for h in families.values()])
check(set(merged) == union, 'merged table differs from the union of the families')

for fam, table in families.items():
    for name in table:
        check(callable(table[name]), f'{fam}: {name} is not callable')
        check(name in ids_of, f'{fam}: {name} does not occur in the bundled code table')
        clear = [i for i in ids_of.get(name, []) if i & 3 == 0]
        check(bool(clear), f'{fam}: {name} occurs only under ids with qualifier bits set: {ids_of.get(name)}')
for (fa, ta), (fb, tb) in itertools.combinations(families.items(), 2):
    both = set(ta) & set(tb)
    check(not both, f'{fa} and {fb} both claim {sorted(both)}')

# ---------------------------------------------------------------- clause 2: twins decode alike
SUFFIX = '_nocancel'
twins = sorted(n for n in merged if n.endswith(SUFFIX))
check(len(twins) >= 30, f'only {len(twins)} twins registered')

START_ARGS = [
    (0, 0, 0, 0),
    (1, 2, 3, 4),
    (3, 0x7ffee000, 4096, 0),
    (5, 0x1000, 0x200, 0x1b6),
    (0xffffffffffffff9c, 0x10000000, 0x601, 0x1a4),      # AT_FDCWD style negative
    (7, 0x7000, 16, 0x80),
    (0xffffffff, 0xffffffff, 0xffffffff, 0xffffffff),
    (0xffffffffffffffff, 0xffffffffffffffff, 0xffffffffffffffff, 0xffffffffffffffff),
    (2, 1, 6, 0),
    (12, 0, 0x20000, 3),
    (1024, 0x7f0000000000, 0, 0x7f0000001000),
    (4, 2, 0, 0),
]
END_ARGS = [
    (0, 0, 0, 0),           # success, result 0
    (0, 17, 0, 0),          # success, result 17
    (0, 0x1000, 0, 0),
    (2, 0, 0, 0),           # ENOENT
    (4, 0xffffffffffffffff, 0, 0),  # EINTR
    (9, 0, 0, 0),           # EBADF
    (35, 0, 0, 0),          # EAGAIN
    (1000, 0, 0, 0),        # unknown errno
]
TID = 0x4321


def event(eventid, qual, values, ts):
    data = struct.pack('<QQQQ', *values)
    return Kevent(ts, data, tuple(values), TID, eventid | qual, eventid, qual)


def decode(name, start, end):
    """Feed a START/END pair of the named call through a fresh parser; -> ('ok', str) / ('none',) / ('exc', type)."""
    eventid = [i for i in ids_of[name] if i & 3 == 0][0]
    p = tp.TracesParser(codes, {}, {})
    try:
        first = p.feed(event(eventid, 1, start, 100))
        if first is not None:
            return 'early', str(first)
        res = p.feed(event(eventid, 2, end, 200))
        if res is None:
            return ('none',)
        return 'ok', str(res)
    except Exception as e:  # decoding alike includes failing alike
        return 'exc', type(e).__name__


n_cases = 0
for twin in twins:
    base = twin[:-len(SUFFIX)]
    check(base in merged, f'{twin} is decoded but {base} is not')
    if base not in merged or twin not in ids_of or base not in ids_of:
        continue
    for start, end in itertools.product(START_ARGS, END_ARGS):
        n_cases += 1
        rb = decode(base, start, end)
        rt = decode(twin, start, end)
        check(rb[0] == rt[0], f'{twin}{start}{end}: outcome {rt} vs base {rb}')
        if rb[0] != rt[0]:
            continue
        if rb[0] == 'exc':
            check(rb == rt, f'{twin}{start}{end}: raises {rt[1]}, base raises {rb[1]}')
            continue
        if rb[0] == 'none':
            failures.append(f'{twin}{start}{end}: registered decoder produced nothing')
            continue
        sb, st = rb[1], rt[1]
        call_b, sep_b, rest_b = sb.partition('(')
        call_t, sep_t, rest_t = st.partition('(')
        check(sep_b == '(' and sep_t == '(', f'{twin}: rendering without a call: {st!r} / {sb!r}')
        check(call_t == call_b + SUFFIX, f'{twin}{start}{end}: call name {call_t!r} vs base {call_b!r}')
        check(rest_t == rest_b, f'{twin}{start}{end}: renderings differ beyond the suffix:\n   {st}\n   {sb}')
        check(SUFFIX not in sb, f'{base}{start}{end}: base rendering carries the suffix: {sb}')

print(f'{sum(len(t) for t in families.values())} decoders in {len(families)} families, '
      f'{len(twins)} twin pairs, {n_cases} START/END cases compared')

# ---------------------------------------------------------------- the observable difference (not pinned by C17)
probe = 'BSC_sigwait_nocancel'
out = decode(probe, (0x7ffee100, 0x7ffee200, 0, 0), (0, 0, 0, 0))
print(f'observable difference: {probe} START/END pair -> {out!r}   '
      f'(twins registered: {len(twins)}, bsd decoders: {len(tp.bsd_handlers)})')

if failures:
    print(f'{len(failures)} FAILURES')
    for f in failures[:40]:
        print(' -', f)
    sys.exit(1)
print('C17 holds')
sys.exit(0)
