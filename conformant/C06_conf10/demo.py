import os, sys; sys.path.insert(0, os.getcwd())  # noqa: E702  (test the worktree copy, not the editable install)

"""
Property C06 demo: truncated dumps - parsing terminates and reports a prefix of the full result.

Run as:  cd /tmp/seed10_C06 && /venv/bin/python /tmp/seed_out10/C06/demo.py

For synthetic version-2 and version-3 dumps and for truncation offsets 0..len (all offsets of the small dumps,
a sample containing every interesting boundary of the big ones) the oracle below, which is derived from the
statement only, checks:
  T  termination: the parse returns or raises (watchdog), and the reading is linear in the length of the input
     (number of read calls and number of bytes handed out by the stream are bounded by c * len + c').
  P  prefix: events / formatted event lines / traces / formatted trace lines reported before the stop are a prefix
     of what is reported for the complete dump.
  F  nothing fabricated: the number of reported events is at most the number of records that are completely
     inside the cut dump.
  S  stable: what was reported is not changed afterwards (the objects collected before the stop are compared again
     after the stop to a snapshot taken when they were reported).
  C  count: print_with_count(gen, c) prints exactly the first c lines of what is printed without a limit.
How the parse stops (normally, or the type / message of the error) is NOT part of the property and not checked.
Exit status 0 iff no violation was found.
"""

import contextlib
import io
import plistlib
import random
import signal
import struct

import pykdebugparser
from pykdebugparser import kd_buf_parser
from pykdebugparser.__main__ import print_with_count
from pykdebugparser.pykdebugparser import PyKdebugParser
from pykdebugparser.trace_codes import default_trace_codes

print('testing', pykdebugparser.__file__)

TRACE_CODES = default_trace_codes()
KEVENT_SIZE = 64
BSC_READ = 0x40c000c
BSC_GETPID = 0x40c0050
UNKNOWN_ID = 0x7f010004  # not in trace.codes

violations = []


def violation(msg):
    violations.append(msg)
    if len(violations) <= 20:
        print('VIOLATION:', msg)


# ---------------------------------------------------------------------------------------------------------------------
# Builders
# ---------------------------------------------------------------------------------------------------------------------

def kd_buf(ts, args, tid, debugid, cpu=0):
    assert ts & 0xff, 'low byte of the timestamp is kept non zero (the v2 header ends with a greedy zero pad)'
    return struct.pack('<Q32sQIIQ', ts, struct.pack('<QQQQ', *args), tid, debugid, cpu, 0)


def make_events(n, tids, seed):
    """ A realistic mix: read() / getpid() syscalls (start + end), unknown single events. """
    rnd = random.Random(seed)
    out = []
    ts = 0x1000001
    open_calls = {}
    while len(out) < n:
        tid = rnd.choice(tids)
        ts += rnd.randrange(1, 50) * 256
        if tid in open_calls:
            eventid = open_calls.pop(tid)
            out.append(kd_buf(ts, (0, rnd.randrange(1, 5000), 0, 0x90), tid, eventid | 2))
        else:
            kind = rnd.randrange(3)
            if kind == 0:
                open_calls[tid] = BSC_READ
                out.append(kd_buf(ts, (rnd.randrange(3, 20), 0x11bf1c000, rnd.randrange(1, 30000), 0), tid,
                                  BSC_READ | 1))
            elif kind == 1:
                open_calls[tid] = BSC_GETPID
                out.append(kd_buf(ts, (0, 0, 0, 0), tid, BSC_GETPID | 1))
            else:
                out.append(kd_buf(ts, (rnd.randrange(1 << 60), 2, 3, 4), tid, UNKNOWN_ID | rnd.choice((0, 3))))
    return out


def threadmap_entry(tid, pid, name):
    return struct.pack('<QI20s', tid, pid, name.encode())


def build_v2(threads, events, pad=0):
    """ :return: (dump, [end offset of every record]) """
    dump = kd_buf_parser.RAW_VERSION2_BYTES
    dump += struct.pack('<I', len(threads)) + b'\x00' * 12 + struct.pack('<IQ', 1, 24000000) + b'\x00' * 0x100
    for t in threads:
        dump += threadmap_entry(*t)
    dump += b'\x00' * pad
    ends = []
    for e in events:
        dump += e
        ends.append(len(dump))
    return dump, ends


def build_v3(threads, chunks, sections=True):
    """ :return: (dump, [end offset of every record]) """
    cpu_info = plistlib.dumps({'cpus': 2}, fmt=plistlib.FMT_BINARY)
    header = struct.pack('<IIQIIQQIIIII', 0x00001000, 0, 0, 125, 3, 0x123456, 1600000000, 5, 0, 0, 0, 0x1c00)
    header += struct.pack('<Q', len(cpu_info)) + cpu_info
    header += b'\x00' * (-len(header) % 8)
    dump = kd_buf_parser.RAW_VERSION3_BYTES + header + b'\x00' * 4
    dump += b'\x11\x22\x33\x44' * 6 + kd_buf_parser.TRACEV3_STACKSHOT_END + b'\x55' * 8
    tm = b''.join(threadmap_entry(*t) for t in threads)
    dump += kd_buf_parser.TRACEV3_THREADMAP_TAG + struct.pack('<Q', len(tm)) + tm
    ends = []
    for i, chunk in enumerate(chunks):
        body = b''.join(chunk)
        if i:
            dump += kd_buf_parser.TRACEV3_MORE_EVENTS + struct.pack('<Q', len(body) + 24)
        dump += kd_buf_parser.TRACEV3_EVENTS_TAG + struct.pack('<Q', len(body)) + b'\x00' * 8
        for e in chunk:
            dump += e
            ends.append(len(dump))
    if sections:
        for tag, data in ((kd_buf_parser.TRACEV3_TRACE_CODES, b'0x7f010004\tDEMO_code\n'),
                          (kd_buf_parser.TRACEV3_PROCESSES, plistlib.dumps({'Processes': [{'pid': 7}]},
                                                                            fmt=plistlib.FMT_BINARY))):
            dump += tag + struct.pack('<Q', len(data)) + data + b'\x00' * (-len(data) % 8)
    return dump, ends


# ---------------------------------------------------------------------------------------------------------------------
# Instrumented stream, drivers
# ---------------------------------------------------------------------------------------------------------------------

class CountingReader(io.BytesIO):
    def __init__(self, data):
        super().__init__(data)
        self.calls = 0
        self.handed_out = 0

    def read(self, *a):
        ret = super().read(*a)
        self.calls += 1
        self.handed_out += len(ret)
        return ret

    def seek(self, *a):
        self.calls += 1
        return super().seek(*a)


def drain(make_generator, snapshot=repr):
    """
    Pull everything a lazily built generator reports until it stops.
    :return: (items, snapshots taken at report time, error or None)
    """
    items, snaps, error = [], [], None
    try:
        for obj in make_generator():
            items.append(obj)
            snaps.append(snapshot(obj))
    except Exception as e:  # stopping with an error is allowed, whatever the error is
        error = e
    # S: nothing already reported is later changed or withdrawn
    if [snapshot(o) for o in items] != snaps:
        violation('reported objects changed after they were reported')
    return items, snaps, error


def new_parser():
    p = PyKdebugParser()
    p.color = False
    p.show_tid = True
    return p


def trace_snapshot(t):
    return str(t), repr(t.ktraces)


def printed_lines(make_generator, count):
    out = io.StringIO()
    try:
        with contextlib.redirect_stdout(out):
            print_with_count(make_generator(), count)
    except Exception:
        pass
    return out.getvalue().splitlines()


def results(data):
    r = {}
    reader = CountingReader(data)
    r['events'], _, r['error'] = drain(lambda: new_parser().kevents(reader))
    r['reader'] = reader
    r['lines'] = drain(lambda: new_parser().formatted_kevents(io.BytesIO(data), TRACE_CODES))[0]
    r['traces'] = drain(lambda: new_parser().traces(io.BytesIO(data), TRACE_CODES), trace_snapshot)[1]
    r['trace_lines'] = drain(lambda: new_parser().formatted_traces(io.BytesIO(data), TRACE_CODES))[0]
    return r


def is_prefix(a, b):
    return len(a) <= len(b) and list(b[:len(a)]) == list(a)


def check_dump(name, dump, ends, offsets, with_counts=True):
    full = results(dump)
    if len(full['events']) != len(ends):
        violation(f'{name}: builder / parser disagree on the complete dump: {len(full["events"])} != {len(ends)} '
                  f'({full["error"]!r})')
    stops = {}
    exact = 0
    for cut in offsets:
        data = dump[:cut]
        where = f'{name} cut at {cut}/{len(dump)}'
        r = results(data)
        stops[type(r['error']).__name__] = stops.get(type(r['error']).__name__, 0) + 1
        # T
        rd = r['reader']
        if rd.calls > 4 * cut + 200 or rd.handed_out > 4 * cut + 200:
            violation(f'{where}: reading is not linear: {rd.calls} calls, {rd.handed_out} bytes handed out')
        # P
        for key in ('events', 'lines', 'traces', 'trace_lines'):
            if not is_prefix(r[key], full[key]):
                violation(f'{where}: {key} are not a prefix of those of the complete dump '
                          f'({len(r[key])} reported, {len(full[key])} in the complete dump)')
        # F
        complete_records = sum(1 for e in ends if e <= cut)
        if len(r['events']) > complete_records:
            violation(f'{where}: {len(r["events"])} events reported but only {complete_records} complete records')
        exact += len(r['events']) == complete_records
        if len(r['lines']) != len(r['events']):
            violation(f'{where}: {len(r["lines"])} formatted lines for {len(r["events"])} events')
        # C
        if with_counts:
            for fmt in ('formatted_kevents', 'formatted_traces'):
                def gen():
                    return getattr(new_parser(), fmt)(io.BytesIO(data), TRACE_CODES)
                unlimited = printed_lines(gen, -1)
                if unlimited != r['lines' if fmt == 'formatted_kevents' else 'trace_lines']:
                    violation(f'{where}: print_with_count(-1) of {fmt} differs from the generator output')
                for count in (0, 1, 3, len(unlimited), len(unlimited) + 1):
                    got = printed_lines(gen, count)
                    if got != unlimited[:count]:
                        violation(f'{where}: {fmt} with count {count} printed {len(got)} lines that are not the '
                                  f'first {count} of the {len(unlimited)} unlimited ones')
    print(f'{name:<34} len {len(dump):>6}  records {len(ends):>4}  traces {len(full["traces"]):>4}  '
          f'cuts checked {len(offsets):>5}  maximal prefix at {exact:>5}  stops: '
          + ', '.join(f'{k}={v}' for k, v in sorted(stops.items())))
    return full


def sampled_offsets(dump, ends, first_record_start, seed):
    rnd = random.Random(seed)
    offs = {0, 1, 3, 4, 5, len(dump), len(dump) - 1, len(dump) - 63, len(dump) - 64, len(dump) - 65}
    offs.update(range(max(0, first_record_start - 20), first_record_start + 70))
    for k in (255, 256, 257, 511, 512, 513):  # around the read batches of the changed code
        if k < len(ends):
            offs.update(range(ends[k] - 66, ends[k] + 3))
    offs.update(rnd.randrange(len(dump)) for _ in range(60))
    offs.update(rnd.choice(ends) for _ in range(10))
    return sorted(o for o in offs if 0 <= o <= len(dump))


def main():
    signal.alarm(900)  # watchdog for the termination clause

    threads = [(0x101, 7, 'launchd'), (0x202, 44, 'demo_process'), (0x303, 44, 'demo_process')]
    tids = [0x101, 0x202, 0x303, 0x999]

    # version 2
    d, ends = build_v2([], make_events(5, tids[:2], 1))
    check_dump('v2 no threadmap, 5 records', d, ends, range(len(d) + 1))
    d, ends = build_v2(threads, make_events(12, tids, 2), pad=7)
    check_dump('v2 3 threads + pad, 12 records', d, ends, range(len(d) + 1))
    d, ends = build_v2(threads, [], pad=0)
    check_dump('v2 3 threads, no records', d, ends, range(len(d) + 1))
    d, ends = build_v2(threads[:1], make_events(600, tids, 3))
    big_v2 = d
    check_dump('v2 600 records (sampled cuts)', d, ends, sampled_offsets(d, ends, ends[0] - 64, 4), with_counts=False)

    # version 3
    d, ends = build_v3(threads, [make_events(6, tids, 5)])
    check_dump('v3 one chunk of 6', d, ends, range(len(d) + 1))
    d, ends = build_v3(threads, [make_events(4, tids, 6), make_events(3, tids, 7)])
    check_dump('v3 chunks of 4 + 3', d, ends, range(len(d) + 1))
    d, ends = build_v3(threads[:2], [make_events(2, tids, 8)], sections=False)
    check_dump('v3 one chunk of 2, no sections', d, ends, range(len(d) + 1))
    d, ends = build_v3(threads, [make_events(300, tids, 9), make_events(260, tids, 10)])
    check_dump('v3 chunks of 300 + 260 (sampled)', d, ends, sampled_offsets(d, ends, ends[0] - 64, 11),
               with_counts=False)

    # The observable difference (none of it is pinned down by the statement): how the stop is signalled when the
    # cut is inside a record, and how many read calls are made.
    cut = big_v2[:len(big_v2) - 30]
    reader = CountingReader(cut)
    events, _, error = drain(lambda: new_parser().kevents(reader))
    print(f'OBSERVABLE: v2 dump of 600 records cut 30 bytes before its end: {len(events)} events, then '
          f'{type(error).__module__}.{type(error).__name__}({str(error)!r}); {reader.calls} read/seek calls on the '
          f'stream; batched reader present: {hasattr(kd_buf_parser, "read_kevents")}')

    if violations:
        print(f'FAIL: {len(violations)} violations')
        return 1
    print('OK: property C06 holds on all the checked inputs')
    return 0


if __name__ == '__main__':
    sys.exit(main())
