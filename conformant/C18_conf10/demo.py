"""
C18 demo: the text produced for a dump does not depend on the host operating system.

Run as:  cd /tmp/seed10_C18 && /venv/bin/python /tmp/seed_out10/C18/demo.py

The host is modelled by swapping the tables of the interpreter's errno / signal / socket modules (and sys.platform,
os.strerror, signal.strsignal) for the ones of another platform, importing the package afresh under that host and
decoding the same records.  Oracle (derived from the statement only):

  O1  for a number that Darwin's headers name, the symbolic name shown is Darwin's (and no other name of that kind);
  O2  for every number - named or not - the outcome is the same under every host;
  O3  for a number that Darwin's headers do not name, no symbolic name of that kind is shown (there is no Darwin name,
      so any name would have to be some host's).

How a number without a Darwin name is rendered (as a number, as an exception, ...) is not pinned down by the statement
and is therefore not checked, only that it is the same everywhere (O2) and names nothing (O3).
"""
import os, sys; sys.path.insert(0, os.getcwd())  # noqa: E401,E702

import contextlib
import enum
import errno
import importlib
import re
import signal
import socket
import struct

# ----------------------------------------------------------------------------------------------------------------------
# Darwin's tables, copied from the headers (bsd/sys/errno.h, bsd/sys/signal.h, bsd/sys/socket.h), NOT from the package.
# ----------------------------------------------------------------------------------------------------------------------
DARWIN_ERRNO = dict(enumerate('''
EPERM ENOENT ESRCH EINTR EIO ENXIO E2BIG ENOEXEC EBADF ECHILD EDEADLK ENOMEM EACCES EFAULT ENOTBLK EBUSY EEXIST EXDEV
ENODEV ENOTDIR EISDIR EINVAL ENFILE EMFILE ENOTTY ETXTBSY EFBIG ENOSPC ESPIPE EROFS EMLINK EPIPE EDOM ERANGE EAGAIN
EINPROGRESS EALREADY ENOTSOCK EDESTADDRREQ EMSGSIZE EPROTOTYPE ENOPROTOOPT EPROTONOSUPPORT ESOCKTNOSUPPORT ENOTSUP
EPFNOSUPPORT EAFNOSUPPORT EADDRINUSE EADDRNOTAVAIL ENETDOWN ENETUNREACH ENETRESET ECONNABORTED ECONNRESET ENOBUFS EISCONN
ENOTCONN ESHUTDOWN ETOOMANYREFS ETIMEDOUT ECONNREFUSED ELOOP ENAMETOOLONG EHOSTDOWN EHOSTUNREACH ENOTEMPTY EPROCLIM EUSERS
EDQUOT ESTALE EREMOTE EBADRPC ERPCMISMATCH EPROGUNAVAIL EPROGMISMATCH EPROCUNAVAIL ENOLCK ENOSYS EFTYPE EAUTH ENEEDAUTH
EPWROFF EDEVERR EOVERFLOW EBADEXEC EBADARCH ESHLIBVERS EBADMACHO ECANCELED EIDRM ENOMSG EILSEQ ENOATTR EBADMSG EMULTIHOP
ENODATA ENOLINK ENOSR ENOSTR EPROTO ETIME EOPNOTSUPP ENOPOLICY ENOTRECOVERABLE EOWNERDEAD EQFULL
'''.split(), start=1))
assert len(DARWIN_ERRNO) == 106 and DARWIN_ERRNO[35] == 'EAGAIN' and DARWIN_ERRNO[106] == 'EQFULL'

DARWIN_SIGNALS = dict(enumerate('''
SIGHUP SIGINT SIGQUIT SIGILL SIGTRAP SIGABRT SIGEMT SIGFPE SIGKILL SIGBUS SIGSEGV SIGSYS SIGPIPE SIGALRM SIGTERM SIGURG
SIGSTOP SIGTSTP SIGCONT SIGCHLD SIGTTIN SIGTTOU SIGIO SIGXCPU SIGXFSZ SIGVTALRM SIGPROF SIGWINCH SIGINFO SIGUSR1 SIGUSR2
'''.split(), start=1))
assert len(DARWIN_SIGNALS) == 31 and DARWIN_SIGNALS[10] == 'SIGBUS' and DARWIN_SIGNALS[31] == 'SIGUSR2'

DARWIN_FAMILIES = {
    0: 'AF_UNSPEC', 1: 'AF_UNIX', 2: 'AF_INET', 3: 'AF_IMPLINK', 4: 'AF_PUP', 5: 'AF_CHAOS', 6: 'AF_NS', 7: 'AF_ISO',
    8: 'AF_ECMA', 9: 'AF_DATAKIT', 10: 'AF_CCITT', 11: 'AF_SNA', 12: 'AF_DECnet', 13: 'AF_DLI', 14: 'AF_LAT',
    15: 'AF_HYLINK', 16: 'AF_APPLETALK', 17: 'AF_ROUTE', 18: 'AF_LINK', 19: 'pseudo_AF_XTP', 20: 'AF_COIP',
    21: 'AF_CNT', 22: 'pseudo_AF_RTIP', 23: 'AF_IPX', 24: 'AF_SIP', 25: 'pseudo_AF_PIP', 27: 'AF_NDRV', 28: 'AF_ISDN',
    29: 'pseudo_AF_KEY', 30: 'AF_INET6', 31: 'AF_NATM', 32: 'AF_SYSTEM', 33: 'AF_NETBIOS', 34: 'AF_PPP',
    35: 'pseudo_AF_HDRCMPLT', 36: 'AF_RESERVED_36', 37: 'AF_IEEE80211', 38: 'AF_UTUN', 40: 'AF_VSOCK',
}
DARWIN_KINDS = {1: 'SOCK_STREAM', 2: 'SOCK_DGRAM', 3: 'SOCK_RAW', 4: 'SOCK_RDM', 5: 'SOCK_SEQPACKET'}
DARWIN_LEVELS = {0xffff: 'SOL_SOCKET'}

# ----------------------------------------------------------------------------------------------------------------------
# Hosts
# ----------------------------------------------------------------------------------------------------------------------
NATIVE = object()


def rotate(table):
    """Every number gets the name of its successor: all names exist on the platform but none is at Darwin's number."""
    numbers = sorted(table)
    return {n: table[numbers[(i + 1) % len(numbers)]] for i, n in enumerate(numbers)}


HOSTS = {
    'native': NATIVE,
    'darwin': dict(platform='darwin', errno=DARWIN_ERRNO, signals=DARWIN_SIGNALS, families=DARWIN_FAMILIES,
                   kinds=DARWIN_KINDS, sol_socket=0xffff),
    'linux': dict(platform='linux',
                  errno={1: 'EPERM', 2: 'ENOENT', 11: 'EAGAIN', 35: 'EDEADLK', 36: 'ENAMETOOLONG', 38: 'ENOSYS',
                         45: 'EL2NSYNC', 61: 'ENODATA', 62: 'ETIME', 78: 'EREMCHG', 95: 'EOPNOTSUPP', 98: 'EADDRINUSE',
                         106: 'EISCONN', 107: 'ENOTCONN', 110: 'ETIMEDOUT', 111: 'ECONNREFUSED', 133: 'EHWPOISON'},
                  signals={1: 'SIGHUP', 2: 'SIGINT', 6: 'SIGABRT', 7: 'SIGBUS', 9: 'SIGKILL', 10: 'SIGUSR1',
                           11: 'SIGSEGV', 12: 'SIGUSR2', 16: 'SIGSTKFLT', 17: 'SIGCHLD', 18: 'SIGCONT', 19: 'SIGSTOP',
                           20: 'SIGTSTP', 23: 'SIGURG', 29: 'SIGIO', 30: 'SIGPWR', 31: 'SIGSYS', 34: 'SIGRTMIN',
                           64: 'SIGRTMAX'},
                  families={0: 'AF_UNSPEC', 1: 'AF_UNIX', 2: 'AF_INET', 3: 'AF_AX25', 4: 'AF_IPX', 5: 'AF_APPLETALK',
                            10: 'AF_INET6', 16: 'AF_NETLINK', 17: 'AF_PACKET', 26: 'AF_LLC', 29: 'AF_CAN',
                            30: 'AF_TIPC', 31: 'AF_BLUETOOTH', 38: 'AF_ALG', 39: 'AF_NFC', 40: 'AF_VSOCK',
                            41: 'AF_KCM', 44: 'AF_XDP'},
                  kinds={1: 'SOCK_STREAM', 2: 'SOCK_DGRAM', 3: 'SOCK_RAW', 4: 'SOCK_RDM', 5: 'SOCK_SEQPACKET',
                         6: 'SOCK_DCCP', 10: 'SOCK_PACKET', 0o4000: 'SOCK_NONBLOCK', 0o2000000: 'SOCK_CLOEXEC'},
                  sol_socket=1),
    'windows': dict(platform='win32',
                    errno={1: 'EPERM', 2: 'ENOENT', 11: 'EAGAIN', 35: 'ENOTSUP', 36: 'EDEADLK', 38: 'ENAMETOOLONG',
                           40: 'ENOSYS', 41: 'ENOTEMPTY', 42: 'EILSEQ', 100: 'EADDRINUSE', 106: 'ECONNABORTED',
                           107: 'ECONNREFUSED', 10035: 'WSAEWOULDBLOCK', 10061: 'WSAECONNREFUSED'},
                    signals={2: 'SIGINT', 4: 'SIGILL', 8: 'SIGFPE', 11: 'SIGSEGV', 15: 'SIGTERM', 21: 'SIGBREAK',
                             22: 'SIGABRT'},
                    families={0: 'AF_UNSPEC', 2: 'AF_INET', 6: 'AF_IPX', 16: 'AF_APPLETALK', 23: 'AF_INET6',
                              26: 'AF_IRDA', 32: 'AF_BTH', 34: 'AF_HYPERV'},
                    kinds={1: 'SOCK_STREAM', 2: 'SOCK_DGRAM', 3: 'SOCK_RAW', 4: 'SOCK_RDM', 5: 'SOCK_SEQPACKET'},
                    sol_socket=0xffff),
    'rotated': dict(platform='rotatedbsd', errno=rotate(DARWIN_ERRNO), signals=rotate(DARWIN_SIGNALS),
                    families=rotate(DARWIN_FAMILIES), kinds=rotate(DARWIN_KINDS), sol_socket=0),
    'bare': dict(platform='bare', errno={}, signals={2: 'SIGINT'}, families={0: 'AF_UNSPEC'}, kinds={1: 'SOCK_STREAM'},
                 sol_socket=6),
}


@contextlib.contextmanager
def host(model):
    """Swap the host's errno/signal/socket tables for the model's; the package is imported afresh by the caller."""
    if model is NATIVE:
        yield
        return
    saved = []

    def put(obj, name, value):
        saved.append((obj, name, getattr(obj, name, put)))
        setattr(obj, name, value)

    def hide(obj, prefix_re):
        for name in [n for n in vars(obj) if re.fullmatch(prefix_re, n)]:
            saved.append((obj, name, getattr(obj, name)))
            delattr(obj, name)

    try:
        hide(errno, r'E[A-Z0-9]+|WSA[A-Z0-9]+')
        put(errno, 'errorcode', dict(model['errno']))
        for number, name in model['errno'].items():
            put(errno, name, number)
        put(os, 'strerror', lambda code: f'<{model["platform"]} strerror {code}>')

        hide(signal, r'SIG[A-Z0-9]+')
        host_signals = enum.IntEnum('Signals', {name: number for number, name in model['signals'].items()})
        put(signal, 'Signals', host_signals)
        for member in host_signals:
            put(signal, member.name, member)
        put(signal, 'strsignal', lambda number: f'<{model["platform"]} strsignal {number}>')
        put(signal, 'valid_signals', lambda: set(host_signals))

        hide(socket, r'(AF|PF|SOCK|SOL)_\w+')
        host_families = enum.IntEnum('AddressFamily', {name: number for number, name in model['families'].items()})
        host_kinds = enum.IntEnum('SocketKind', {name: number for number, name in model['kinds'].items()})
        put(socket, 'AddressFamily', host_families)
        put(socket, 'SocketKind', host_kinds)
        for member in list(host_families) + list(host_kinds):
            put(socket, member.name, member)
        put(socket, 'SOL_SOCKET', model['sol_socket'])

        put(sys, 'platform', model['platform'])
        yield
    finally:
        for obj, name, value in reversed(saved):
            if value is put:
                delattr(obj, name)
            else:
                setattr(obj, name, value)


def fresh_package():
    """Import the package afresh so that anything it binds at import time is bound under the current host."""
    for name in [n for n in sys.modules if n == 'pykdebugparser' or n.startswith('pykdebugparser.')]:
        del sys.modules[name]
    return importlib.import_module('pykdebugparser')


# ----------------------------------------------------------------------------------------------------------------------
# Inputs: (label, kind of the number under test, the number, records)
# ----------------------------------------------------------------------------------------------------------------------
START, END = 1, 2


def syscall(kevent_cls, eventid, args, ret):
    def record(values, qual, timestamp):
        values = tuple(v & 0xffffffffffffffff for v in values)
        return kevent_cls(timestamp=timestamp, data=struct.pack('<QQQQ', *values), values=values, tid=0x111,
                          debugid=eventid | qual, eventid=eventid, func_qualifier=qual)
    return [record(args, START, 1000), record(ret, END, 2000)]


def inputs(kevent_cls, ids):
    cases = []

    def add(label, kind, number, trace, args, ret):
        cases.append((f'{label}[{number}]', kind, number, syscall(kevent_cls, ids[trace], args, ret)))

    # error numbers: every Darwin one through the common path, a few through the other call sites, and unnamed ones
    for code in list(range(1, 107)) + [107, 110, 133, 200, 10035, 0x7fffffff]:
        add('kill/errno', 'errno', code, 'BSC_kill', (77, 0, 0, 0), (code, 0, 0, 0))
    for code in (9, 11, 23, 24, 35, 45, 102, 106, 107, 4096):
        add('pipe/errno', 'errno', code, 'BSC_pipe', (0, 0, 0, 0), (code, 0, 0, 0))
        add('socket/errno', 'errno', code, 'BSC_socket', (2, 1, 0, 0), (code, 0, 0, 0))
    # signal numbers
    for sig in list(range(1, 32)) + [0, 32, 34, 64, 65, 255]:
        add('sigaction/signal', 'signal', sig, 'BSC_sigaction', (sig, 0x1000, 0, 0), (0, 0, 0, 0))
    for sig in (7, 10, 12, 30, 31):
        add('kill/signal', 'signal-as-number', sig, 'BSC_kill', (77, sig, 0, 0), (0, 0, 0, 0))
    # address families
    for family in list(range(0, 41)) + [41, 44, 255, 0x10002]:
        add('socket/family', 'family', family, 'BSC_socket', (family, 1, 0, 0), (0, 3, 0, 0))
    for family in (1, 2, 10, 23, 26, 30, 32, 39, 40, 41):
        add('socketpair/family', 'family', family, 'BSC_socketpair', (family, 2, 0, 0x2000), (0, 0, 0, 0))
        add('socket_delegate/family', 'family', family, 'BSC_socket_delegate', (family, 1, 6, 99), (0, 4, 0, 0))
    # socket types
    for kind in (1, 2, 3, 4, 5, 0, 6, 10, 0o4001, 0o2000001):
        add('socket/type', 'kind', kind, 'BSC_socket', (30, kind, 0, 0), (0, 3, 0, 0))
        add('socketpair/type', 'kind', kind, 'BSC_socketpair', (1, kind, 0, 0x2000), (0, 0, 0, 0))
    # socket-option levels (option 4 is SO_REUSEADDR, 0x1007 is SO_ERROR)
    for level in (0xffff, 1, 0, 6, 17, 41, 0xfffe, 0x1ffff):
        add('setsockopt/level', 'level', level, 'BSC_setsockopt', (5, level, 4, 0x3000), (0, 0, 0, 0))
        add('getsockopt/level', 'level', level, 'BSC_getsockopt', (5, level, 0x1007, 0x3000), (0, 0, 0, 0))
    return cases


TOKENS = {
    'errno': (DARWIN_ERRNO, r'\b(?:E[A-Z0-9]{2,}|WSA[A-Z0-9]+)\b'),
    'signal': (DARWIN_SIGNALS, r'\bSIG[A-Z0-9]+\b'),
    'signal-as-number': ({}, r'\bSIG[A-Z0-9]+\b'),  # kill() shows the number; no name may appear
    'family': (DARWIN_FAMILIES, r'\b(?:pseudo_)?AF_\w+\b'),
    'kind': (DARWIN_KINDS, r'\bSOCK_\w+\b'),
    'level': (DARWIN_LEVELS, r'\bSOL_\w+\b'),
}


def outcomes_under(host_name):
    with host(HOSTS[host_name]):
        package = fresh_package()
        kevent = importlib.import_module('pykdebugparser.kevent')
        traces_parser = importlib.import_module('pykdebugparser.traces_parser')
        trace_codes = importlib.import_module('pykdebugparser.trace_codes').default_trace_codes()
        ids = {name: number for number, name in trace_codes.items()}
        result = {}
        for label, kind, number, records in inputs(kevent.Kevent, ids):
            parser = traces_parser.TracesParser(trace_codes, {}, {})
            try:
                result[label] = (kind, number, 'text', ' | '.join(str(t) for t in parser.feed_generator(records)))
            except Exception as e:  # an outcome like any other, it only has to be the same on every host
                result[label] = (kind, number, 'raises', f'{type(e).__name__}: {e}')
        return package.__file__, result


def main():
    failures = []
    per_host = {}
    for host_name in HOSTS:
        path, per_host[host_name] = outcomes_under(host_name)
        if host_name == 'native':
            print('package under test:', path)
    reference = per_host['native']

    for label, (kind, number, how, text) in reference.items():
        table, token_re = TOKENS[kind]
        shown = re.findall(token_re, text)
        if number in table:
            if how != 'text' or shown != [table[number]]:  # O1
                failures.append(f'O1 {label}: Darwin calls it {table[number]}, outcome is {how} {text!r}')
        elif shown:  # O3
            failures.append(f'O3 {label}: Darwin has no name for it, yet {shown} is shown: {text!r}')
        for host_name, outcomes in per_host.items():  # O2
            if outcomes[label] != reference[label]:
                failures.append(f'O2 {label}: {reference[label][2:]} natively but {outcomes[label][2:]} on {host_name}')

    named = sum(1 for kind, number, _, _ in reference.values() if number in TOKENS[kind][0])
    print(f'{len(reference)} inputs ({named} with a Darwin name, {len(reference) - named} without) x {len(HOSTS)} hosts '
          f'{sorted(HOSTS)}: {len(failures)} violation(s)')
    for failure in failures[:20]:
        print('VIOLATION', failure)

    probe = [reference[k][2:] for k in ('sigaction/signal[34]', 'socket/family[41]', 'socket/type[6]')]
    print('observable difference (numbers without a Darwin name; identical on every host):',
          '; '.join(f'{how} {text!r}' for how, text in probe))
    return 1 if failures else 0


if __name__ == '__main__':
    sys.exit(main())
