"""
C07 demo: missing or unexpected context never aborts the trace stream.

Run as:  cd /tmp/seed12_C07 && /venv/bin/python /tmp/seed_out12/C07/demo.py

Oracle (derived from the statement only):
  * every history built from individually in-domain events is consumed to its end by the trace pipeline
    (TracesParser.feed_generator and PyKdebugParser.formatted_traces) without an exception;
  * every trace that is emitted renders (str(), _format_trace with and without colours) to a str without raising;
  * a missing piece is an empty / omitted field: a syscall with no lookup has path '', a dlopen whose string id was
    announced before the dump has path '', a sample without its header record has no frames.
Nothing is asserted about how MANY traces a history emits or about which record kinds have a decoder, the statement
does not say anything about that.
"""
import os
import sys

sys.path.insert(0, os.getcwd())

import struct  # noqa: E402
import traceback  # noqa: E402
from io import BytesIO  # noqa: E402
from itertools import count  # noqa: E402

import pykdebugparser  # noqa: E402
from pykdebugparser.kd_buf_parser import RAW_VERSION2_BYTES  # noqa: E402
from pykdebugparser.kevent import Kevent, KD_BUF_FORMAT  # noqa: E402
from pykdebugparser.pykdebugparser import PyKdebugParser  # noqa: E402
from pykdebugparser.trace_codes import default_trace_codes  # noqa: E402
from pykdebugparser.traces_parser import TracesParser  # noqa: E402

print('testing', pykdebugparser.__file__)

CODES = default_trace_codes()
IDS = {}
for _code, _name in CODES.items():
    IDS.setdefault(_name, _code)

NONE, START, END, ALL = 0, 1, 2, 3
_ts = count(1000)


def ev(name, qual, values=(0, 0, 0, 0), tid=100, data=None):
    if data is None:
        data = struct.pack('<QQQQ', *values)
    else:
        data = data.ljust(32, b'\x00')[:32]
        values = struct.unpack('<QQQQ', data)
    eventid = IDS[name]
    # The low byte of a timestamp is kept non zero: the padding after a version 2 file header is a run of zero bytes,
    # a first record that starts with a zero byte would be taken for padding (file framing, not what is checked here).
    return Kevent(next(_ts) * 256 + 0xa5, data, values, tid, eventid | qual, eventid, qual)


def retid(events, tid):
    return [e._replace(tid=tid) for e in events]


def lookup(path: bytes, vnode_id=0x1234):
    """ The records of one VFS_LOOKUP: the first one carries the vnode id and 24 bytes of path, the others 32. """
    chunks = [struct.pack('<Q', vnode_id) + path[:24].ljust(24, b'\x00')]
    rest = path[24:]
    while rest:
        chunks.append(rest[:32].ljust(32, b'\x00'))
        rest = rest[32:]
    if len(chunks) == 1:
        return [ev('VFS_LOOKUP', ALL, data=chunks[0])]
    quals = [START] + [NONE] * (len(chunks) - 2) + [END]
    return [ev('VFS_LOOKUP', q, data=c) for q, c in zip(quals, chunks)]


def global_string(str_id, text: bytes):
    chunks = [struct.pack('<QQ', 0, str_id) + text[:16].ljust(16, b'\x00')]
    rest = text[16:]
    while rest:
        chunks.append(rest[:32].ljust(32, b'\x00'))
        rest = rest[32:]
    if len(chunks) == 1:
        return [ev('TRACE_STRING_GLOBAL', ALL, data=chunks[0])]
    quals = [START] + [NONE] * (len(chunks) - 2) + [END]
    return [ev('TRACE_STRING_GLOBAL', q, data=c) for q, c in zip(quals, chunks)]


SAMPLER_TH_INFO, SAMPLER_KSTACK, SAMPLER_USTACK = 0x1, 0x4, 0x8


def scenarios():
    s = {}
    s['open'] = ([ev('BSC_open', START, (0x7000, 0x601, 0o644, 0))] +
                 lookup(b'/private/var/mobile/Library/Caches/com.example.app/very-long-file-name.sqlite-journal') +
                 [ev('BSC_open', END, (0, 5, 0, 0))])
    s['open_enoent'] = ([ev('BSC_open', START, (0x7000, 0, 0, 0))] + lookup(b'/nope') +
                        [ev('BSC_open', END, (2, 0, 0, 0))])
    s['rename'] = ([ev('BSC_rename', START, (0x7000, 0x7100, 0, 0))] + lookup(b'/tmp/a', 11) +
                   lookup(b'/tmp/a-renamed-to-something-much-longer-than-one-record', 12) +
                   [ev('BSC_rename', END, (0, 0, 0, 0))])
    s['symlinkat'] = ([ev('BSC_symlinkat', START, (0x7000, 3, 0x7100, 0))] + lookup(b'/tmp/target', 21) +
                      lookup(b'/tmp/link', 22) + [ev('BSC_symlinkat', END, (0, 0, 0, 0))])
    s['posix_spawn'] = ([ev('BSC_posix_spawn', START, (0x7000, 0x7100, 0x7200, 0x7300))] +
                        [r for i in range(6) for r in lookup(b'/dev/fd%d' % i, 30 + i)] +
                        [ev('BSC_posix_spawn', END, (0, 321, 0, 0))])
    s['dlopen'] = (global_string(77, b'/usr/lib/libobjc.A.dylib-and-a-rather-long-suffix') +
                   [ev('DBG_DYLD_TIMING_DLOPEN', START, (0, 77, 0x102, 0)),
                    ev('DBG_DYLD_TIMING_DLOPEN', END, (0, 0xdead0000, 0, 0))])
    s['thread'] = [ev('TRACE_DATA_NEWTHREAD', NONE, (100, 55, 0, 9)),
                   ev('TRACE_STRING_NEWTHREAD', NONE, data=b'launchd'),
                   ev('TRACE_STRING_THREADNAME', START, data=b'com.apple.a-long-thread-name-that'),
                   ev('TRACE_STRING_THREADNAME', END, data=b'-needs-two-records'),
                   ev('TRACE_DATA_THREAD_TERMINATE', NONE, (100, 0, 0, 0))]
    s['sample'] = [ev('PERF_Event', START, (SAMPLER_TH_INFO | SAMPLER_KSTACK | SAMPLER_USTACK, 32, 0, 0)),
                   ev('PERF_STK_KHdr', NONE, (0x4d, 6, 0, 0)),
                   ev('PERF_STK_KData', NONE, (0xfffffff007001000, 0xfffffff007002000, 0xfffffff007003000,
                                               0xfffffff007004000)),
                   ev('PERF_STK_KData', NONE, (0xfffffff007005000, 0xfffffff007006000, 0, 0)),
                   ev('PERF_STK_UHdr', NONE, (0x45, 5, 0, 0)),
                   ev('PERF_STK_UData', NONE, (0x1b5c05bf0, 0x19376e4d4, 0x1025c9930, 0x1d1160b3c)),
                   ev('PERF_STK_UData', NONE, (0x19376e6d4, 0, 0, 0)),
                   ev('PERF_THD_Sched_Data', NONE, (1, 2, 3, 4)),  # Nested record of a kind the tool does not decode.
                   ev('PERF_THD_Data', NONE, (55, 100, 0x16d94b180, 0xfffc0003)),
                   ev('PERF_Event', END, (SAMPLER_TH_INFO | SAMPLER_KSTACK | SAMPLER_USTACK, 0, 0, 0))]
    s['kstack_only'] = [ev('PERF_Event', START, (SAMPLER_KSTACK, 7, 0, 0)),
                        ev('PERF_STK_KHdr', NONE, (0x9, 0xffffffffffffffff, 0, 0)),
                        ev('PERF_STK_KData', NONE, (0xffffffffffffffff, 0, 1, 2)),
                        ev('PERF_Event', END, (SAMPLER_KSTACK, 0, 0, 0))]
    s['launch'] = [ev('DBG_DYLD_TIMING_LAUNCH_EXECUTABLE', START, (0, 0x100000000, 0, 0)),
                   ev('DYLD_uuid_map_a', NONE, data=bytes(range(16)) + struct.pack('<QQ', 0x100000000, 1)),
                   ev('PERF_STK_KHdr', NONE, (0, 0, 0, 0)),  # Foreign nested record.
                   ev('DYLD_uuid_map_a', NONE, data=bytes(range(16, 32)) + struct.pack('<QQ', 0x90000000, 1)),
                   ev('DBG_DYLD_TIMING_LAUNCH_EXECUTABLE', END, (0, 0, 0, 0))]
    # Qualifiers the kernel does not use for these records, still individually well formed.
    s['odd_quals'] = [ev('PERF_STK_KHdr', START, (1, 2, 0, 0)), ev('PERF_STK_KData', START, (1, 2, 3, 4)),
                      ev('PERF_STK_KData', END, (5, 6, 7, 8)), ev('PERF_STK_KHdr', END, (1, 2, 0, 0)),
                      ev('PERF_STK_UHdr', END, (1, 2, 0, 0)), ev('PERF_STK_KHdr', ALL, (1, 2, 0, 0))]
    return s


def histories():
    scen = scenarios()
    for name, s in scen.items():
        n = len(s)
        yield f'{name}/full', s
        for k in range(1, n):
            yield f'{name}/drop-prefix-{k}', s[k:]
        for k in range(n):
            yield f'{name}/drop-record-{k}', s[:k] + s[k + 1:]
        for k in range(n):
            yield f'{name}/repeat-record-{k}', s[:k + 1] + s[k:]
        yield f'{name}/twice', s + s
        yield f'{name}/nested-in-open', ([ev('BSC_open', START, (0x7000, 0, 0, 0))] + s +
                                         [ev('BSC_open', END, (0, 3, 0, 0))])
        yield f'{name}/nested-in-sample', ([ev('PERF_Event', START, (0xd, 1, 0, 0))] + s +
                                           [ev('PERF_Event', END, (0xd, 0, 0, 0))])
        yield f'{name}/nested-in-itself', s[:n // 2] + s + s[n // 2:]
    names = list(scen)
    for i, a in enumerate(names):
        b = names[(i + 3) % len(names)]
        x, y = scen[a], retid(scen[b], 200)
        mixed = [e for pair in zip(x, y) for e in pair] + x[len(y):] + y[len(x):]
        yield f'{a}+{b}/interleaved-two-threads', mixed
        same = [e for pair in zip(scen[a], scen[b]) for e in pair] + scen[a][len(scen[b]):] + scen[b][len(scen[a]):]
        yield f'{a}+{b}/interleaved-same-thread', same
    everything = [e for s in scen.values() for e in s]
    for k in range(0, len(everything), 5):
        yield f'everything/drop-prefix-{k}', everything[k:]


def to_dump(events):
    buf = RAW_VERSION2_BYTES + b'\x00' * 0x11c
    for e in events:
        buf += struct.pack(KD_BUF_FORMAT, e.timestamp, e.data, e.tid, e.debugid, 0, 0)
    return buf


failures = []
checked = 0
traces_rendered = 0


def check(label, events):
    global checked, traces_rendered
    checked += 1
    try:
        # Layer 1: the traces parser, event by event, to see that the whole stream is consumed.
        front = PyKdebugParser()
        parser = TracesParser(CODES, front.threads_pids, front.pids_names)
        consumed = 0
        traces = []

        def counting():
            nonlocal consumed
            for e in events:
                consumed += 1
                yield e

        for trace in parser.feed_generator(counting()):
            traces.append(trace)
            for color in (False, True):
                front.color = color
                front.show_tid = color
                assert isinstance(str(trace), str)
                assert isinstance(front._format_trace(trace), str)
            traces_rendered += 1
        assert consumed == len(events), f'only {consumed} of {len(events)} events consumed'

        # Missing pieces are empty / omitted fields.
        for trace in traces:
            kind = type(trace).__name__
            if kind == 'BscOpen' and not any(CODES.get(e.eventid) == 'VFS_LOOKUP' for e in trace.ktraces):
                assert trace.path == '', f'open without lookup has path {trace.path!r}'
            if kind == 'PerfEvent':
                names = [CODES.get(e.eventid) for e in trace.ktraces]
                if 'PERF_STK_UHdr' not in names:
                    assert trace.cs_frames is None and ', frames count' not in str(trace)
                if 'PERF_THD_Data' not in names:
                    assert trace.th_info is None
                if 'PERF_STK_KHdr' not in names:
                    assert getattr(trace, 'kcs_frames', None) is None and 'kernel frames' not in str(trace)

        # Layer 2: the same history as a dump file through the public pipeline.
        for color in (False, True):
            front = PyKdebugParser()
            front.color = color
            front.show_tid = True
            lines = list(front.formatted_traces(BytesIO(to_dump(events)), CODES))
            assert len(lines) == len(traces), f'file pipeline emitted {len(lines)} traces, parser {len(traces)}'
            assert all(isinstance(line, str) for line in lines)
        return traces
    except Exception:  # noqa
        failures.append((label, traceback.format_exc()))
        return []


for label, history in histories():
    check(label, history)

# A string id announced before the dump began: the path is empty, not a crash.
scen = scenarios()
late = [e for e in scen['dlopen'] if CODES[e.eventid] != 'TRACE_STRING_GLOBAL']
res = check('dlopen/string-announced-before-the-dump', late)
if not (len(res) == 1 and res[0].path == '' and str(res[0]).startswith('dlopen("",')):
    failures.append(('dlopen/string-announced-before-the-dump', f'unexpected {res!r}'))
# A syscall that fails before any lookup.
res = check('open/failed-before-lookup', [scen['open'][0], ev('BSC_open', END, (14, 0, 0, 0))])
if not (len(res) == 1 and res[0].path == '' and 'errno' in str(res[0])):
    failures.append(('open/failed-before-lookup', f'unexpected {res!r}'))
# A sample whose samplers did not log anything.
res = check('sample/no-nested-records', [scen['sample'][0], scen['sample'][-1]])
if not (len(res) == 1 and res[0].th_info is None and res[0].cs_frames is None
        and getattr(res[0], 'kcs_frames', None) is None):
    failures.append(('sample/no-nested-records', f'unexpected {res!r}'))

# The observable difference of the change (not part of the oracle).
res = check('sample/full', scen['sample'])
kinds = [type(t).__name__ for t in res]
sample = [t for t in res if type(t).__name__ == 'PerfEvent']
print(f'DIFFERENCE: the sample history of {len(scen["sample"])} records emits {len(res)} traces '
      f'({", ".join(kinds)}); the sample renders as: {str(sample[-1]) if sample else None!r}')

print(f'{checked} histories checked, {traces_rendered} traces rendered, {len(failures)} failures')
for label, tb in failures[:10]:
    print('FAILED', label)
    print(tb)
sys.exit(1 if failures else 0)
