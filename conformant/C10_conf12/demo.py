"""
Demo for property C10 (syscall results: errors take precedence and come only from the END record).

Run as:  cd /tmp/seed12_C10 && /venv/bin/python /tmp/seed_out12/C10/demo.py

Every BSD syscall that the package decodes (whatever the `handlers` table of the copy under test contains) is fed
through TracesParser.feed as START record [+ VFS_LOOKUP records] + END record, for several START tuples and several END
tuples.  The oracle is derived from the statement only, it has no per-syscall table of expected labels:

  error word != 0  ->  result part is exactly 'errno: NAME(code)' (NAME from Darwin's errno.h) or 'errno: code',
                       and the text is '<call part>, <result part>' (so no success value is shown);
  error word == 0  ->  no 'errno' anywhere in the text; the result part is '' or '<label>: <rendering>' where the
                       rendering is one of the usual renderings of the END record's return word;
  the result part is the same for all START tuples (depends only on the END record);
  the call part is the same for all END tuples (does not depend on the END record).

Exits 0 when the property holds on all the inputs, 1 otherwise.
"""
import os, sys; sys.path.insert(0, os.getcwd())  # noqa: E401,E702

import ctypes
import struct

import pykdebugparser
from pykdebugparser.kevent import Kevent
from pykdebugparser.trace_codes import default_trace_codes
from pykdebugparser.trace_handlers import bsd
from pykdebugparser.traces_parser import TracesParser

print('testing', pykdebugparser.__file__)

CODES = default_trace_codes()
NAME2ID = {name: eventid for eventid, name in CODES.items()}
VFS_LOOKUP = NAME2ID['VFS_LOOKUP']
START, END = 1, 2

# bsd/sys/errno.h of Darwin, written down independently of the package for a few codes; the rest is only
# required to have the shape E[A-Z0-9]+ .
KNOWN_ERRNO = {1: 'EPERM', 2: 'ENOENT', 9: 'EBADF', 13: 'EACCES', 17: 'EEXIST', 22: 'EINVAL', 35: 'EAGAIN',
               45: 'ENOTSUP', 60: 'ETIMEDOUT', 102: 'EOPNOTSUPP', 106: 'EQFULL'}
LAST_ERRNO = 106

# The syscalls the statement excludes (cannot fail / do not return).
EXEMPT = {'BSC_getpid', 'BSC_getuid', 'BSC_geteuid', 'BSC_getppid', 'BSC_getegid', 'BSC_getgid', 'BSC_getpgrp',
          'BSC_umask', 'BSC_sync', 'BSC_sys_getdtablesize', 'BSC_getlogin', 'BSC_execve', 'BSC_vfork',
          'BSC_bsdthread_create', 'BSC_abort_with_payload'}

START_TUPLES = [
    (0, 0, 0, 0),
    (1, 1, 1, 1),
    (3, 0x1000, 16, 2),
    (2, 2, 2, 2),
    (5, 0x40047477, 0x7ffee000, 0),  # a well-formed ioctl request
    (4, 0o644, 3, 1),
]
ERROR_WORDS = [1, 2, 9, 13, 22, 35, 60, 102, 106, 107, 255, 4096, 2 ** 31, 2 ** 32 + 2, 2 ** 64 - 1]
RETURN_WORDS = [0, 1, 3, 77, 0x7fff5fbff000, 2 ** 63, 2 ** 64 - 1]


def kevent(eventid, qualifier, values, data=None, timestamp=1, tid=7):
    if data is None:
        data = struct.pack('<QQQQ', *values)
    return Kevent(timestamp, data, tuple(values), tid, eventid | qualifier, eventid, qualifier)


def lookup_records(path=b'/tmp/some/file'):
    # One VFS_LOOKUP: vnode id in the first word of the START record, the path in the rest.
    data = struct.pack('<Q', 0xabc) + path.ljust(24, b'\x00')
    return [kevent(VFS_LOOKUP, START | END, struct.unpack('<QQQQ', data), data=data, timestamp=2)]


def decode(name, start_values, end_values, with_lookup):
    """ The decoded object of one syscall, None when the copy under test does not decode it. """
    eventid = NAME2ID[name]
    parser = TracesParser(CODES, {}, {})
    assert parser.feed(kevent(eventid, START, start_values)) is None
    if with_lookup:
        for record in lookup_records():
            parser.feed(record)
    return parser.feed(kevent(eventid, END, end_values, timestamp=3))


def renderings(word):
    signed64 = ctypes.c_int64(word).value
    signed32 = ctypes.c_int32(word & 0xffffffff).value
    values = {word, signed64, signed32, word & 0xffffffff}
    out = set()
    for v in values:
        out.update({str(v), hex(v), oct(v), f'{v:#x}', f'{v:x}'})
    out.update({str(bool(word))})
    return out


def errno_ok(result, code):
    if result == f'errno: {code}':
        return code not in KNOWN_ERRNO  # a known code may not lose its name
    prefix, suffix = 'errno: ', f'({code})'
    if not (result.startswith(prefix) and result.endswith(suffix)):
        return False
    errno_name = result[len(prefix):-len(suffix)]
    if code in KNOWN_ERRNO:
        return errno_name == KNOWN_ERRNO[code]
    return 1 <= code <= LAST_ERRNO and errno_name.startswith('E') and errno_name.isalnum() and errno_name.isupper()


def split(obj):
    """
    (call part, result part) of a decoded syscall.  The result part is the `result` field, shown as ', <result>';
    everything else of the text is the call part (fsgetpath shows the looked-up path after the result).
    """
    text = str(obj)
    result = obj.result
    assert isinstance(result, str), (text, result)
    if result:
        index = text.rfind(', ' + result)
        assert index > 0, f'the result part is not shown in the text: {text!r} / {result!r}'
        return text[:index] + '\x00' + text[index + len(', ' + result):], result
    return text + '\x00', ''


def usable_starts(name):
    """ START tuples the copy under test decodes for this syscall (enum-typed arguments reject some of them). """
    starts = []
    for start_values in START_TUPLES:
        try:
            str(decode(name, start_values, (0, 0, 0, 0), True))
        except (ValueError, KeyError):
            continue
        starts.append(start_values)
    return starts


def check_syscall(name, failures):
    checked = 0
    starts = usable_starts(name)
    if not starts:
        failures.append(f'{name}: no START tuple of the demo decodes')
        return 0
    first = decode(name, starts[0], (0, 0, 0, 0), True)
    if not hasattr(first, 'result'):
        if name not in EXEMPT:
            failures.append(f'{name}: has no result part and is not one of the excluded syscalls')
        return 0
    if name in EXEMPT:
        return 0

    end_tuples = [(error, ret, 0x5555, 0x6666) for error in ERROR_WORDS for ret in (0, 3, 2 ** 64 - 1)]
    end_tuples += [(0, ret, 0x5555, 0x6666) for ret in RETURN_WORDS]
    call_parts = {}
    for end_values in end_tuples:
        error, ret = end_values[0], end_values[1]
        results = set()
        for start_values in starts:
            for with_lookup in (True, False):
                obj = decode(name, start_values, end_values, with_lookup)
                try:
                    call, result = split(obj)
                except AssertionError as e:
                    failures.append(f'{name}: {e}')
                    continue
                checked += 1
                results.add(result)
                previous = call_parts.setdefault((start_values, with_lookup), call)
                if previous != call:
                    failures.append(f'{name}: call part depends on the END record: {previous!r} != {call!r}')
                text = str(obj)
                if error:
                    if not errno_ok(result, error):
                        failures.append(f'{name}: END {end_values}: bad errno text {result!r}')
                    # text == call part + result part by construction, and the call part is the same for all END
                    # tuples (checked above), so nothing but the errno text may come from the END record.
                    if text.count('errno') != 1:
                        failures.append(f'{name}: END {end_values}: something besides the errno is shown: {text!r}')
                else:
                    if 'errno' in text:
                        failures.append(f'{name}: END {end_values}: errno shown for a success: {text!r}')
                    if name == 'BSC_pipe':
                        # Two descriptors, each the rendering of a return word of the END record.
                        expected = f'read_fd: {end_values[1]}, write_fd: {end_values[2]}'
                        if result != expected:
                            failures.append(f'{name}: END {end_values}: {result!r} != {expected!r}')
                    elif result:
                        label, sep, value = result.partition(': ')
                        if not sep or not label or value not in renderings(ret):
                            failures.append(f'{name}: END {end_values}: success value {result!r} is not a '
                                            f'rendering of the return word {ret}')
        if len(results) > 1:
            failures.append(f'{name}: END {end_values}: result part depends on more than the END record: {results}')
    return checked


def main():
    failures = []
    checked = 0
    decodable = [name for name in bsd.handlers if name.startswith('BSC_')]
    for name in decodable:
        checked += check_syscall(name, failures)

    # The observable difference of the change: records of four syscalls that were passed over are decoded now.
    difference = []
    for name, start_values in (('BSC_mkfifoat', (4, 0x1000, 0o10644, 0)), ('BSC_mknodat', (4, 0x1000, 0o20644, 7)),
                               ('BSC_freadlink', (4, 0x1000, 1024, 0)), ('BSC_pthread_chdir', (0x1000, 0, 0, 0))):
        error_case = decode(name, start_values, (2, 0, 0, 0), True)
        success_case = decode(name, start_values, (0, 12, 0, 0), True)
        difference.append(f'{name}: {error_case if error_case is None else str(error_case)!r} / '
                          f'{success_case if success_case is None else str(success_case)!r}')
    print(f'{len(decodable)} decodable BSD syscalls, {checked} decoded calls checked')
    print('observable difference (errno 2 / success 12): ' + '; '.join(difference))

    for failure in failures[:40]:
        print('VIOLATION', failure)
    if failures:
        print(f'{len(failures)} violations')
        return 1
    print('property C10 holds on all the inputs of the demo')
    return 0


if __name__ == '__main__':
    sys.exit(main())
