import os, sys; sys.path.insert(0, os.getcwd())  # noqa: E702  (the worktree copy must win over the editable install)

import io
import random
import struct

import pykdebugparser
from pykdebugparser.kd_buf_parser import KdBufParser
from pykdebugparser.kevent import from_kd_buf
from pykdebugparser.pykdebugparser import PyKdebugParser

print('testing', pykdebugparser.__file__)

FIELDS = ('timestamp', 'data', 'values', 'tid', 'debugid', 'eventid', 'func_qualifier')


# ---------------------------------------------------------------- building dumps (from the statement, not the package)
def build_v2(threadmap, pad, records, is_64bit=1, tick=24000000, junk=b'\x00'):
    """threadmap: list of (tid, pid, name_bytes); pad: number of zero bytes; records: list of 64-byte strings."""
    out = b'\x00\x02\xaa\x55'
    out += struct.pack('<I', len(threadmap)) + junk * 8 + junk * 4 + struct.pack('<IQ', is_64bit, tick) + junk * 0x100
    for tid, pid, name in threadmap:
        assert len(name) <= 20
        out += struct.pack('<QI', tid, pid) + name.ljust(20, b'\x00')
    out += b'\x00' * pad
    for r in records:
        assert len(r) == 64
        out += r
    return out


# ---------------------------------------------------------------- oracle (from the statement)
def oracle_event(rec):
    timestamp, data, tid, debugid, _cpuid, _unused = struct.unpack('<Q32sQIIQ', rec)
    return dict(timestamp=timestamp, data=data, values=struct.unpack('<4Q', data), tid=tid, debugid=debugid,
                eventid=debugid & 0xfffffffc, func_qualifier=debugid & 3)


def oracle_tables(threadmap):
    threads_pids, pids_names = {}, {}
    for tid, pid, name in threadmap:  # a later entry for the same key wins
        threads_pids[tid] = pid
        pids_names[pid] = name.split(b'\x00', 1)[0].decode('utf8')
    return threads_pids, pids_names


failures = []


def check(label, events, records, tables, threadmap):
    events = list(events)
    if len(events) != len(records):
        failures.append(f'{label}: {len(events)} events for {len(records)} records')
        return
    for i, (e, r) in enumerate(zip(events, records)):
        want = oracle_event(r)
        got = {f: getattr(e, f) for f in FIELDS}
        if got != want or e != from_kd_buf(r):
            failures.append(f'{label}: event {i} is {e!r}, expected {want!r}')
            return
    want_tp, want_pn = oracle_tables(threadmap)
    if dict(tables[0]) != want_tp or dict(tables[1]) != want_pn:
        failures.append(f'{label}: tables {dict(tables[0])!r} {dict(tables[1])!r}, expected {want_tp!r} {want_pn!r}')


# ---------------------------------------------------------------- inputs
rnd = random.Random(0xC02)
NAMES = [b'', b'a', b'kernel_task', b'launchd', b'x' * 19, 'café'.encode(), 'é'.encode() * 9, b'a b\tc',
         b'ab\x00cd'[:2], b'0', b'WindowServer', b'com.apple.WebKit'[:16]]


def rand_threadmap(n):
    tids = [rnd.choice([0, 1, 2, 0x1234, 2 ** 32, 2 ** 64 - 1, rnd.getrandbits(64), rnd.getrandbits(12)])
            for _ in range(n)]
    pids = [rnd.choice([0, 1, 2, 99, 2 ** 31, 2 ** 32 - 1, rnd.getrandbits(32), rnd.getrandbits(4)]) for _ in range(n)]
    return [(t, p, rnd.choice(NAMES)) for t, p in zip(tids, pids)]


def rand_records(m):
    """Any bytes.  Records after the first may begin with zero bytes or be all zeros.
    The FIRST record is given a non-zero first byte: after a thread map nothing in the file says where the optional
    zero padding stops, and both the unchanged and the changed parser take every zero byte as padding (see notes.txt).
    """
    recs = []
    for i in range(m):
        kind = rnd.randrange(5)
        if kind == 0:
            r = bytes(rnd.getrandbits(8) for _ in range(64))
        elif kind == 1:
            r = b'\x00' * rnd.randrange(1, 64)
            r += bytes(rnd.randrange(1, 256) for _ in range(64 - len(r)))
        elif kind == 2:
            r = b'\x00' * 64
        elif kind == 3:
            r = b'\xff' * 64
        else:
            r = struct.pack('<Q32sQIIQ', rnd.getrandbits(40), b'/usr/lib/dyld'.ljust(32, b'\0'), rnd.getrandbits(20),
                            rnd.choice([0x040c0000, 0x01030005, 0x1f070006, 0x2b310003]), rnd.getrandbits(3), 0)
        if i == 0 and r[0] == 0:
            r = bytes([rnd.randrange(1, 256)]) + r[1:]
        recs.append(r)
    return recs


PADS = [0, 1, 3, 7, 8, 63, 64, 65, 100, 0xfff, 0x1000, 0x1001, 4096 - 288, 9000]
cases = []
for k in range(48):
    n = rnd.choice([0, 0, 1, 2, 3, 5, 17, 300])
    m = rnd.choice([0, 1, 2, 3, 10, 65, 1025])
    cases.append((rand_threadmap(n), PADS[k % len(PADS)], rand_records(m)))
# hand-made corners
cases.append(([], 0, []))
cases.append(([], 5000, []))
cases.append(([(5, 1, b'one'), (5, 2, b'two'), (6, 2, b'two-again'), (7, 1, b'')], 4, rand_records(3)))
cases.append(([(1, 1, b'p')] * 4, 0, [b'\x01' + b'\x00' * 63, b'\x00' * 64, b'\x00' * 63 + b'\x01']))

# 1. each dump with a fresh parser
for i, (tm, pad, recs) in enumerate(cases):
    p = KdBufParser()
    check(f'fresh#{i}', p.parse(io.BytesIO(build_v2(tm, pad, recs))), recs, (p.threads_pids, p.pids_names), tm)

# 2. all the dumps, one after the other, through ONE parser object whose tables start with stale entries
tp, pn = {0xdead: 0xbeef, 5: 77}, {0xbeef: 'stale', 77: 'old', 1: 'older'}
one = KdBufParser(tp, pn)
for i, (tm, pad, recs) in enumerate(cases):
    check(f'reused#{i}', one.parse(io.BytesIO(build_v2(tm, pad, recs))), recs, (tp, pn), tm)
    if one.threads_pids is not tp or one.pids_names is not pn:
        failures.append(f'reused#{i}: the map objects were replaced')

# 3. a new parser object per dump over the SAME map objects (what PyKdebugParser does), arbitrary header filler bytes
for i, (tm, pad, recs) in enumerate(cases[::3]):
    data = build_v2(tm, pad, recs, is_64bit=rnd.choice([0, 1]), tick=rnd.getrandbits(40), junk=b'\xa5')
    check(f'shared#{i}', KdBufParser(tp, pn).parse(io.BytesIO(data)), recs, (tp, pn), tm)

# 4. through the public facade, unfiltered
facade = PyKdebugParser()
facade.threads_pids[123] = 456
facade.pids_names[456] = 'leftover'
for i, (tm, pad, recs) in enumerate(cases[1::4]):
    check(f'facade#{i}', facade.kevents(io.BytesIO(build_v2(tm, pad, recs))), recs,
          (facade.threads_pids, facade.pids_names), tm)

# 5. a real file object instead of BytesIO
import tempfile
with tempfile.TemporaryFile() as f:
    tm, pad, recs = cases[5]
    f.write(build_v2(tm, pad, recs))
    f.seek(0)
    check('file', KdBufParser(tp, pn).parse(f), recs, (tp, pn), tm)


# ---------------------------------------------------------------- the observable difference (outside the statement)
def outcome(data):
    p = KdBufParser()
    try:
        n = len(list(p.parse(io.BytesIO(data))))
        return f'{n} events, names {sorted(p.pids_names.values())}'
    except Exception as e:  # noqa
        return type(e).__module__.split('.')[0] + '.' + type(e).__name__


rec = b'\x07' + b'\x11' * 63
cut_header = build_v2([(5, 1, b'x'), (6, 2, b'y')], 0, [])[:300]
full_name = build_v2([(5, 1, b'N' * 20)], 8, [rec])
bad_utf8 = build_v2([(5, 1, b'\xff\xfe')], 8, [rec])
p = KdBufParser()
list(p.parse(io.BytesIO(build_v2([(5, 1, b'x')], 8, [rec]))))
print('observable difference: thread map cut short -> %s | 20-byte name without NUL -> %s | name not utf8 -> %s | '
      'parser.v2_header after a parse -> %r'
      % (outcome(cut_header), outcome(full_name), outcome(bad_utf8), getattr(p, 'v2_header', '<no such attribute>')))
# Not a difference, shown for the record: the zero bytes at the start of a FIRST record are taken as padding, before
# and after the change alike (nothing in a file tells such bytes from padding).
print('same before and after: first record starting with 00 after 3 bytes of padding -> %s'
      % outcome(build_v2([(5, 1, b'x')], 3, [b'\x00' + b'\x11' * 63, rec])))

if failures:
    print(f'{len(failures)} FAILURES')
    for f in failures[:20]:
        print('  ', f)
    sys.exit(1)
print(f'OK: the property held on {len(cases)} dumps x 4 ways of parsing them')
