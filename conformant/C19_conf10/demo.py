"""
Demo for property C19 (code-table text -> mapping; a supplied table is honoured).

Run as:  cd /tmp/seed10_C19 && /venv/bin/python /tmp/seed_out10/C19/demo.py

The oracle is derived from the statement only: tables are GENERATED from structured data (id value, how the id is
spelled, name, trailing text), so the expected mapping is known without parsing anything; event streams are generated
together with the list of the calls they contain, so the expected listing lines / traces are known too.
Exits 0 on both the unchanged and the changed code.
"""
import os, sys; sys.path.insert(0, os.getcwd())  # noqa: E702

import random
import struct
from collections.abc import Mapping
from io import BytesIO

import pykdebugparser
from pykdebugparser.kd_buf_parser import RAW_VERSION2_BYTES
from pykdebugparser.kevent import KD_BUF_FORMAT
from pykdebugparser.pykdebugparser import PyKdebugParser
from pykdebugparser.trace_codes import default_trace_codes, from_trace_codes_text

print('testing', pykdebugparser.__file__)

failures = []


def check(cond, msg):
    if not cond:
        failures.append(msg)
        print('FAIL:', msg)


# ------------------------------------------------------------------------------------------------------------------
# Part A: text -> mapping
# ------------------------------------------------------------------------------------------------------------------

NAME_ALPHABET = 'abcdefXYZ019_#()[]{}<>:;,.=+-*/\\|!?@$%^&~"\'`é中'
COMMENT_PIECES = ['', '#Params: flow band page size', '\t\t#Matchby: Arg1', 'trailing words here', '0x99 NOT_A_NAME',
                  '# 0xdead beef', '   ', '\t', 'deadbeef cafe', '#', 'x']
SEPARATORS = [' ', '\t', '  ', '\t\t', ' \t ', '        ']


def spell_id(rng, value):
    digits = '%x' % value
    digits = rng.choice([digits, digits.upper(), ''.join(rng.choice([c.lower(), c.upper()]) for c in digits)])
    if rng.random() < 0.2:
        digits = '0' * rng.randint(1, 3) + digits
    return rng.choice(['0x', '0X', '']) + digits


def random_name(rng):
    if rng.random() < 0.15:
        # Names that look like ids / comments are still names.
        return rng.choice(['0x10', 'ff', '#name', 'BSC_getpid', 'a#b', 'DEADBEEF', '0'])
    return ''.join(rng.choice(NAME_ALPHABET) for _ in range(rng.randint(1, 24)))


def random_id(rng):
    return rng.choice([
        rng.getrandbits(32), rng.getrandbits(32), rng.getrandbits(16), rng.getrandbits(8),
        0, 1, 0xffffffff, 0x80000000, 0x7fffffff, 0xabcdef, 0xa, 0xdead, 0x40c0050,
    ])


def build_table(rng, entries, newline='\n', final_newline=None):
    """entries: list of (id value, name). Returns (text, expected mapping)."""
    lines = []
    expected = {}
    for value, name in entries:
        line = rng.choice(['', '', '', ' ', '\t']) + spell_id(rng, value) + rng.choice(SEPARATORS) + name
        comment = rng.choice(COMMENT_PIECES)
        if comment:
            line += rng.choice(SEPARATORS) + comment
        lines.append(line)
        expected[value] = name  # the last occurrence wins
    text = newline.join(lines)
    if final_newline is None:
        final_newline = rng.random() < 0.5
    if final_newline and lines:
        text += newline
    return text, expected


def check_table(label, text, expected):
    try:
        got = from_trace_codes_text(text)
    except Exception as e:  # noqa
        check(False, f'{label}: {type(e).__name__}: {e} for text {text!r}')
        return None
    check(isinstance(got, Mapping), f'{label}: result is not a mapping: {type(got)}')
    check(dict(got) == expected, f'{label}: mapping differs for {text!r}: {dict(got)!r} != {expected!r}')
    check(len(got) == len(expected), f'{label}: size differs')
    check(all(type(k) is int and type(v) is str for k, v in got.items()), f'{label}: key / value types')
    for k, v in expected.items():
        check(k in got and got[k] == v and got.get(k) == v, f'{label}: lookup of {k:#x}')
    return got


n_tables = 0
# Hand-written cases.
HAND = [
    ('', {}),
    ('0x40c0548\tBSC_stat64', {0x40c0548: 'BSC_stat64'}),
    ('0x40c0548\tBSC_stat64\n', {0x40c0548: 'BSC_stat64'}),
    ('40C0548 BSC_stat64', {0x40c0548: 'BSC_stat64'}),
    ('0X40c0548 BSC_stat64 #c', {0x40c0548: 'BSC_stat64'}),
    ('0x1 a\n0x1 b\n0x01 c\n1 d', {1: 'd'}),
    ('0x1 a\n0x2 a', {1: 'a', 2: 'a'}),
    ('ffffffff top\n0 zero', {0xffffffff: 'top', 0: 'zero'}),
    ('0x10 0x20 0x30 name', {0x10: '0x20'}),
    ('0xa #name rest', {0xa: '#name'}),
    ('abc def', {0xabc: 'def'}),
    ('0x5 n\r\n0x6 m\r\n', {5: 'n', 6: 'm'}),
    ('  0x7\t\tlead   # x', {7: 'lead'}),
    ('0x80010068 ASPCORE_PUSH_PAGES                                          \t\t'
     '#Params: flow band page size\t\t#Matchby: Arg1', {0x80010068: 'ASPCORE_PUSH_PAGES'}),
]
for i, (text, expected) in enumerate(HAND):
    check_table(f'hand[{i}]', text, expected)
    n_tables += 1

for seed in range(40):
    rng = random.Random(1900 + seed)
    n = rng.choice([1, 2, 3, 5, 8, 20, 60])
    entries = [(random_id(rng), random_name(rng)) for _ in range(n)]
    # Force duplicates (same value, other spelling, other name).
    for _ in range(rng.randint(0, 3)):
        entries.insert(rng.randrange(len(entries) + 1), (rng.choice(entries)[0], random_name(rng)))
    text, expected = build_table(rng, entries, newline=rng.choice(['\n', '\n', '\n', '\r\n']))
    check_table(f'random[{seed}]', text, expected)
    n_tables += 1

# ------------------------------------------------------------------------------------------------------------------
# Part B: listings and traces under a supplied table
# ------------------------------------------------------------------------------------------------------------------

START, END, NONE = 1, 2, 0
DECODABLE = {'BSC_getpid': ('BscGetpid', 'getpid(), pid: {}'), 'BSC_getuid': ('BscGetuid', 'getuid(), uid: {}')}
BUNDLED_GETPID = 0x40c0050


def kd_buf(timestamp, values, tid, debugid):
    return struct.pack(KD_BUF_FORMAT, timestamp, struct.pack('<QQQQ', *values), tid, debugid, 0, 0)


def build_stream(calls):
    """calls: list of (eventid, tid, result, single). Returns the v2 dump and the list of (eventid, qualifier)."""
    buf = RAW_VERSION2_BYTES + b'\x00' * 0x11c
    listing = []
    ts = 1000
    for eventid, tid, result, single in calls:
        if single:
            buf += kd_buf(ts, (0, result, 0, 0), tid, eventid | NONE)
            listing.append(eventid)
            ts += 1
        else:
            buf += kd_buf(ts, (0, 0, 0, 0), tid, eventid | START)
            buf += kd_buf(ts + 1, (0, result, 0, 0), tid, eventid | END)
            listing += [eventid, eventid]
            ts += 2
    return buf, listing


def new_parser():
    p = PyKdebugParser()
    p.color = False
    p.show_timestamp = False
    p.show_func_qual = False
    p.show_process = False
    p.show_tid = False
    p.show_args = False
    return p


def check_stream(label, table, expected_table, calls):
    """table: what is handed to the package; expected_table: plain dict with the pairs the statement promises."""
    global n_lines, n_named, n_traces
    buf, listing = build_stream(calls)

    # Listing: name (hex) for ids of the table, bare hex otherwise.
    lines = list(new_parser().formatted_kevents(BytesIO(buf), table))
    check(len(lines) == len(listing), f'{label}: {len(lines)} listing lines for {len(listing)} events')
    for line, eventid in zip(lines, listing):
        if eventid in expected_table:
            want = f'{expected_table[eventid]} ({hex(eventid)})'
        else:
            want = hex(eventid)
        check(line.strip() == want, f'{label}: listing line {line!r}, wanted {want!r}')
        n_lines += 1
        n_named += eventid in expected_table

    # Traces: exactly the calls whose id the table names with a decodable name, in order.
    want_traces = [(eventid, tid, result) + DECODABLE[expected_table[eventid]]
                   for eventid, tid, result, single in calls
                   if eventid in expected_table and expected_table[eventid] in DECODABLE]
    traces = list(new_parser().traces(BytesIO(buf), table))
    n_traces += len(want_traces)
    check(len(traces) == len(want_traces), f'{label}: {len(traces)} traces, wanted {len(want_traces)}')
    for trace, (eventid, tid, result, cls, fmt) in zip(traces, want_traces):
        check(type(trace).__name__ == cls, f'{label}: trace class {type(trace).__name__}, wanted {cls}')
        check(str(trace) == fmt.format(result), f'{label}: trace {str(trace)!r}, wanted {fmt.format(result)!r}')
        check(trace.ktraces[0].eventid == eventid and trace.ktraces[0].tid == tid, f'{label}: trace events')
        check(all(e.eventid in expected_table for e in trace.ktraces[:1]), f'{label}: trace of an absent id')
    formatted = list(new_parser().formatted_traces(BytesIO(buf), table))
    check([f.strip() for f in formatted] == [fmt.format(result) for _, _, result, _, fmt in want_traces],
          f'{label}: formatted traces {formatted!r}')


n_streams = 0
n_lines = n_named = n_traces = 0
for seed in range(30):
    rng = random.Random(7700 + seed)
    # Ids of events have their two low bits clear (they hold the function qualifier).
    event_ids = {BUNDLED_GETPID}
    while len(event_ids) < 6:
        event_ids.add(random_id(rng) & 0xfffffffc)
    event_ids = sorted(event_ids)
    rng.shuffle(event_ids)
    in_table = event_ids[:3 + rng.randint(0, 1)]
    absent = [i for i in event_ids if i not in in_table]
    entries = []
    for i, value in enumerate(in_table):
        name = rng.choice(list(DECODABLE)) if i < 2 or rng.random() < 0.3 else 'X_' + random_name(rng)
        entries.append((value, name))
    # Entries that no event can have and an overridden duplicate.
    entries.append((in_table[0] | rng.randint(1, 3), 'BSC_getpid'))
    if rng.random() < 0.5:
        entries.insert(0, (in_table[0], 'X_overridden'))
    if rng.random() < 0.5:
        entries.insert(0, (in_table[1], 'BSC_getuid'))
        entries.append((in_table[1], 'X_not_decodable_any_more'))
    text, expected = build_table(rng, entries)
    table = check_table(f'stream-table[{seed}]', text, expected)
    if table is None:
        continue
    calls = []
    for _ in range(rng.randint(5, 25)):
        eventid = rng.choice(event_ids + [in_table[0]])
        if rng.random() < 0.15:
            eventid = (eventid + 4) & 0xfffffffc  # a neighbour, usually absent
        calls.append((eventid, rng.choice([0x10, 0x11, 0x1234]), rng.getrandbits(20), rng.random() < 0.25))
    check_stream(f'stream[{seed}] parsed table', table, expected, calls)
    check_stream(f'stream[{seed}] plain dict', dict(expected), expected, calls)
    n_streams += 1
    if BUNDLED_GETPID not in expected:
        # The bundled table names this id BSC_getpid; under the supplied table it is bare hex and never a trace.
        only = [(BUNDLED_GETPID, 0x10, 77, False)]
        check_stream(f'stream[{seed}] bundled id absent', table, expected, only)

# An empty supplied table is still a supplied table.
check_stream('empty table', from_trace_codes_text(''), {}, [(BUNDLED_GETPID, 0x10, 5, False), (0x1000, 0x10, 1, True)])
check_stream('empty dict', {}, {}, [(BUNDLED_GETPID, 0x10, 5, False)])
# Without a table the bundled one is in effect (sanity, both before and after the change).
bundled = dict(default_trace_codes())
check(bundled.get(BUNDLED_GETPID) == 'BSC_getpid', 'bundled table')
check_stream('bundled', None, bundled, [(BUNDLED_GETPID, 0x10, 5, False), (0xfffffff0, 0x10, 1, True)])

# ------------------------------------------------------------------------------------------------------------------
# The observable difference (outside of what the statement pins down); informational only.
# ------------------------------------------------------------------------------------------------------------------


def outcome(f):
    try:
        return repr(f())
    except Exception as e:  # noqa
        return f'{type(e).__name__}({str(e)!r})'


d1, d2 = default_trace_codes(), default_trace_codes()
print('observable difference: '
      f'''from_trace_codes_text('# c\\n\\n0x1 a') -> {outcome(lambda: from_trace_codes_text('# c' + chr(10) * 2 + '0x1 a'))}; '''
      f'''from_trace_codes_text('0x1') -> {outcome(lambda: from_trace_codes_text('0x1'))}; '''
      f'default_trace_codes() -> {type(d1).__name__}, same object on every call: {d1 is d2}')

print(f'{n_tables} tables, {n_streams} table+stream scenarios ({n_lines} listing lines, {n_named} of them named; '
      f'{n_traces} expected traces), {len(failures)} failures')
sys.exit(1 if failures else 0)
