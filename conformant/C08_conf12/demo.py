"""
C08 demo: paths / global strings / thread names split over several records are reassembled exactly, once.

Run as:  cd /tmp/seed12_C08 && /venv/bin/python /tmp/seed_out12/C08/demo.py
Exits 0 on the unchanged and on the changed tree; prints one DIFFERENCE line.
"""
import os, sys; sys.path.insert(0, os.getcwd())  # noqa: E401,E702

import struct

import pykdebugparser
from pykdebugparser.kevent import Kevent
from pykdebugparser.trace_codes import default_trace_codes
from pykdebugparser.traces_parser import TracesParser

print('testing', pykdebugparser.__file__)

START, END, ALL, NONE = 1, 2, 3, 0
VFS_LOOKUP = 0x3010090
VFS_LOOKUP_DONE = 0x301009c
STRING_GLOBAL = 0x7010000
STRING_THREADNAME = 0x7010010
STRING_THREADNAME_PREV = 0x7010014
MACH_SCHED = 0x1400000
BSC_GETPID = 0x40c0050
TID = 0x1234
CODES = default_trace_codes()

clock = [1000]


def rec(eventid, qual, data, tid=TID):
    assert len(data) == 32, len(data)
    clock[0] += 1
    return Kevent(clock[0], data, struct.unpack('<QQQQ', data), tid, eventid | qual, eventid, qual)


def split(header, text, eventid):
    """The kernel's split: header + text, NUL padded to whole records; START on the first, END on the last."""
    raw = header + text
    raw += b'\x00' * (-len(raw) % 32)
    if not raw:
        raw = b'\x00' * 32
    chunks = [raw[i:i + 32] for i in range(0, len(raw), 32)]
    out = []
    for i, chunk in enumerate(chunks):
        qual = (START if i == 0 else 0) | (END if i == len(chunks) - 1 else 0)
        out.append(rec(eventid, qual, chunk))
    return out


def lookup(text, vnode, eventid=VFS_LOOKUP):
    return split(struct.pack('<Q', vnode), text.encode(), eventid)


def global_string(text, debugid, str_id):
    return split(struct.pack('<QQ', debugid, str_id), text.encode(), STRING_GLOBAL)


def thread_name(text, eventid=STRING_THREADNAME):
    return split(b'', text.encode(), eventid)


def syscall(eventid, args, inner, result=(0, 3, 0, 0)):
    return ([rec(eventid, START, struct.pack('<QQQQ', *args))] + inner +
            [rec(eventid, END, struct.pack('<QQQQ', *result))])


# --- unrelated same-thread records ------------------------------------------------------------------------------
def noise_sched():
    return [rec(MACH_SCHED, NONE, struct.pack('<QQQQ', 1, 2, 3, 4))]


def noise_getpid():
    return syscall(BSC_GETPID, (0, 0, 0, 0), [], (0, 77, 0, 0))


def noise_lookup_done():
    # what namei() logs when it is done: same layout as VFS_LOOKUP, a code of its own (not a lookup of the syscall)
    return lookup('/private/var/db/resolved/by/namei/and/long/enough/for/three/records', 0xffffff80aabbcc00,
                  VFS_LOOKUP_DONE)


def noise_lookup_done_garbage():
    # not text at all
    return [rec(VFS_LOOKUP_DONE, START, bytes(range(0xe0, 0x100))),
            rec(VFS_LOOKUP_DONE, NONE, b'\xff' * 32),
            rec(VFS_LOOKUP_DONE, END, b'\xfe' * 32)]


def noise_other_thread():
    return [rec(VFS_LOOKUP, ALL, struct.pack('<Q', 5) + b'/other/thread'.ljust(24, b'\x00'), tid=TID + 1)]


NOISES = [lambda: [], noise_sched, noise_getpid, noise_lookup_done, noise_lookup_done_garbage]


def interleave(records, k):
    """Put noise number k (rotating) between every two records."""
    out = []
    for i, r in enumerate(records):
        if i:
            out += NOISES[(k + i) % len(NOISES)]()
        out.append(r)
    return out


def run(events):
    parser = TracesParser(CODES, {}, {})
    return list(parser.feed_generator(events))


def named(traces, name, tid=TID):
    return [t for t in traces if type(t).__name__ == name and t.ktraces[0].tid == tid]


failures = []
checked = [0]


def check(cond, what):
    checked[0] += 1
    if not cond:
        failures.append(what)
        print('FAIL', what)


def text_of(n, salt=0):
    alphabet = '/abcdefghijklmnopqrstuvwxyz0123456789._-'
    return ''.join(alphabet[(i * 7 + salt) % len(alphabet)] for i in range(n))


LENGTHS = [0, 1, 23, 24, 25, 55, 56, 57, 87, 88, 89, 119, 120, 121, 151, 152, 153, 183, 184]
extra_kinds = {}


def note_extras(traces, expected_names):
    for t in traces:
        if t.ktraces[0].tid == TID and type(t).__name__ not in expected_names | {'MachSched'}:
            if type(t).__name__ not in extra_kinds or '\\x' in extra_kinds[type(t).__name__]:
                extra_kinds[type(t).__name__] = str(t)


# 1. bare lookups, every boundary length, with and without records in between
for k, n in enumerate(LENGTHS):
    text, vnode = text_of(n, k), 0xffffff8000000000 + n
    for noisy in (False, True):
        records = lookup(text, vnode)
        events = noise_other_thread() + (interleave(records, k) if noisy else records) + noise_sched()
        traces = run(events)
        found = named(traces, 'VfsLookup')
        check(len(found) == 1, f'lookup len {n} noisy={noisy}: {len(found)} lookup traces')
        check(found and found[0].path == text, f'lookup len {n} noisy={noisy}: path {found and found[0].path!r}')
        check(found and found[0].vnode_id == vnode, f'lookup len {n} noisy={noisy}: vnode id')
        note_extras(traces, {'VfsLookup', 'BscGetpid'})

# a multi-byte character over the 24 byte boundary
text = 'a' * 23 + 'é' + 'b' * 40
found = named(run(lookup(text, 9)), 'VfsLookup')
check(len(found) == 1 and found[0].path == text and found[0].vnode_id == 9, 'multi-byte character over the boundary')

# 2. one-path syscalls
ONE_PATH = [(0x40c0014, 'BscOpen', 'path'), (0x40c0028, 'BscUnlink', 'pathname'), (0x40c0030, 'BscChdir', 'path'),
            (0x40c0084, 'BscAccess', 'path'), (0x40c0548, 'BscStat64', 'path')]
for k, (code, cls, attr) in enumerate(ONE_PATH):
    for n in (0, 24, 25, 56, 57, 184):
        for nlookups in (1, 2, 3):
            texts = [text_of(n, 3 * k + j) for j in range(nlookups)]
            inner = []
            for j, t in enumerate(texts):
                inner += NOISES[(k + j) % len(NOISES)]() + interleave(lookup(t, 100 + j), k + j)
            inner += NOISES[(k + 3) % len(NOISES)]()
            traces = run(syscall(code, (0x7000, 0, 0, 0), inner))
            found = named(traces, 'VfsLookup')
            check([f.path for f in found] == texts, f'{cls} len {n} x{nlookups}: lookup traces {[f.path for f in found]}')
            check([f.vnode_id for f in found] == [100 + j for j in range(nlookups)], f'{cls} len {n}: vnode ids')
            sys_traces = named(traces, cls)
            check(len(sys_traces) == 1 and getattr(sys_traces[0], attr) == texts[0],
                  f'{cls} len {n} x{nlookups}: {attr} {sys_traces and getattr(sys_traces[0], attr)!r}')
            note_extras(traces, {'VfsLookup', 'BscGetpid', cls})

# 3. two-path syscalls
TWO_PATH = [(0x40c0200, 'BscRename', ('old', 'new')), (0x40c0024, 'BscLink', ('oldpath', 'newpath')),
            (0x40c0744, 'BscRenameat', ('from_', 'to')), (0x40c075c, 'BscLinkat', ('path', 'link'))]
for k, (code, cls, attrs) in enumerate(TWO_PATH):
    for n1, n2 in ((1, 184), (24, 24), (25, 56), (57, 0), (88, 89), (184, 184)):
        for nlookups in (2, 3):
            texts = [text_of(n1, k), text_of(n2, k + 11), text_of(30, k + 5)][:nlookups]
            inner = []
            for j, t in enumerate(texts):
                inner += interleave(lookup(t, 200 + j), k + j) + NOISES[(k + j + 1) % len(NOISES)]()
            traces = run(syscall(code, (3, 0x7000, 4, 0x8000), inner))
            found = named(traces, 'VfsLookup')
            check([f.path for f in found] == texts, f'{cls} {n1}/{n2} x{nlookups}: lookup traces')
            sys_traces = named(traces, cls)
            got = sys_traces and tuple(getattr(sys_traces[0], a) for a in attrs)
            check(len(sys_traces) == 1 and got == (texts[0], texts[1]), f'{cls} {n1}/{n2} x{nlookups}: {got!r}')
            note_extras(traces, {'VfsLookup', 'BscGetpid', cls})

# 4. global strings and thread names
for k, n in enumerate([0, 1, 15, 16, 17, 47, 48, 49, 79, 80, 81, 184]):
    text = text_of(n, k)
    records = global_string(text, 0x1f000000 + n, 0x8000 + n)
    for noisy in (False, True):
        events = interleave(records, k) if noisy else list(records)
        traces = run(events)
        found = named(traces, 'TraceStringGlobal')
        check(len(found) == 1 and found[0].vstr == text and found[0].str_id == 0x8000 + n,
              f'global string len {n} noisy={noisy}: {[f.vstr for f in found]}')
        records = global_string(text, 0x1f000000 + n, 0x8000 + n)

for k, n in enumerate([0, 1, 31, 32, 33, 63, 64, 65, 184]):
    text = text_of(n, k + 2)
    for eventid, cls in ((STRING_THREADNAME, 'TraceStringThreadname'), (STRING_THREADNAME_PREV, 'TraceStringThreadnamePrev')):
        for noisy in (False, True):
            records = thread_name(text, eventid)
            traces = run(interleave(records, k) if noisy else records)
            found = named(traces, cls)
            check(len(found) == 1 and found[0].name == text, f'{cls} len {n} noisy={noisy}: {[f.name for f in found]}')

print(f'{checked[0]} checks, {len(failures)} failures')
if extra_kinds:
    for name, rep in sorted(extra_kinds.items()):
        print(f'DIFFERENCE: VFS_LOOKUP_DONE records logged between the lookup records are decoded into {name} traces '
              f'of their own, e.g. {rep}')
else:
    print('DIFFERENCE: none seen (VFS_LOOKUP_DONE records logged between the lookup records produce no trace)')
sys.exit(1 if failures else 0)
