"""
Demo for property C02 (version-2 dump -> exactly its records, in order, and its thread map).

Run as:  cd /tmp/seed10_C02 && /venv/bin/python /tmp/seed_out10/C02/demo.py

Exits 0 on the unchanged code and on the code with patch.diff applied.
The oracle is written from the statement only (own decoding of the 64-byte record with int.from_bytes, own
thread-map fold), it does not call into the package.

NOTE on the inputs: the FIRST record of every generated dump starts with a non-zero byte.  On the unchanged code
the header's greedy zero padding swallows leading zero bytes of the first record (pre-existing behaviour, not
touched by the patch: the patch only replaces the record-reading loop that runs AFTER the header was consumed).
Later records do begin with zero bytes, and all-zero records are included.
"""
import os, sys; sys.path.insert(0, os.getcwd())  # noqa: E702

import io
import random
import struct

import pykdebugparser
from pykdebugparser.kd_buf_parser import KdBufParser
from pykdebugparser.pykdebugparser import PyKdebugParser

print('testing', pykdebugparser.__file__)

MAGIC_V2 = b'\x00\x02\xaa\x55'
REC = 64
failures = []


# ----------------------------------------------------------------------------- dump builder
def build_dump(threadmap, pad, records):
    out = MAGIC_V2
    out += struct.pack('<I', len(threadmap))
    out += b'\x00' * 12
    out += struct.pack('<IQ', 1, 24000000)
    out += b'\x00' * 0x100
    for tid, pid, name in threadmap:
        raw = name.encode('utf8')
        assert len(raw) <= 19
        out += struct.pack('<QI', tid, pid) + raw.ljust(20, b'\x00')
    out += b'\x00' * pad
    for r in records:
        assert len(r) == REC
        out += r
    return out


# ----------------------------------------------------------------------------- oracle (from the statement)
def le(b):
    return int.from_bytes(b, 'little')


def oracle_event(rec):
    timestamp = le(rec[0:8])
    data = rec[8:40]
    values = tuple(le(data[i:i + 8]) for i in range(0, 32, 8))
    tid = le(rec[40:48])
    debugid = le(rec[48:52])
    return (timestamp, data, values, tid, debugid, debugid & 0xfffffffc, debugid & 3)


def oracle_tables(threadmap):
    tp, pn = {}, {}
    for tid, pid, name in threadmap:
        tp[tid] = pid
        pn[pid] = name
    return tp, pn


# ----------------------------------------------------------------------------- generators of inputs
def rand_record(rng, first):
    kind = rng.randrange(6)
    if kind == 0:
        rec = bytes(rng.randrange(256) for _ in range(REC))
    elif kind == 1:
        rec = b'\x00' * REC                                   # all zero
    elif kind == 2:
        rec = b'\x00' * rng.randrange(1, 40) + bytes(rng.randrange(1, 256) for _ in range(REC))
        rec = rec[:REC]                                       # begins with zero bytes
    elif kind == 3:
        rec = b'\xff' * REC
    elif kind == 4:
        rec = MAGIC_V2 + bytes(rng.randrange(256) for _ in range(REC - 4))   # looks like a header
    else:
        rec = struct.pack('<Q32sQIIQ', rng.randrange(2 ** 64), bytes(rng.randrange(256) for _ in range(32)),
                          rng.randrange(2 ** 64), rng.randrange(2 ** 32), rng.randrange(2 ** 32), 0)
    if first and rec[0] == 0:
        rec = bytes([rng.randrange(1, 256)]) + rec[1:]
    return rec


NAMES = ['', 'a', 'launchd', 'kernel_task', 'x' * 19, 'café', '日本語', 'with space', 'Z' * 18]


def rand_threadmap(rng, n):
    tm = []
    for _ in range(n):
        tid = rng.choice([0, 1, 2, 3, 2 ** 64 - 1, rng.randrange(2 ** 64), rng.randrange(16)])
        pid = rng.choice([0, 1, 2, 2 ** 32 - 1, rng.randrange(2 ** 32), rng.randrange(8)])
        tm.append((tid, pid, rng.choice(NAMES)))
    return tm


def rand_case(rng, n=None, pad=None, m=None):
    n = rng.choice([0, 1, 2, 5, 17]) if n is None else n
    pad = rng.choice([0, 1, 3, 7, 8, 63, 64, 65, 4096 - 28, 1000]) if pad is None else pad
    m = rng.choice([0, 1, 2, 3, 10, 50]) if m is None else m
    tm = rand_threadmap(rng, n)
    recs = [rand_record(rng, i == 0) for i in range(m)]
    return tm, pad, recs


# ----------------------------------------------------------------------------- checks
def check(label, events, threads_pids, pids_names, tm, recs):
    exp = [oracle_event(r) for r in recs]
    got = [tuple(e) for e in events]
    if len(got) != len(exp):
        failures.append(f'{label}: {len(got)} events, expected {len(exp)}')
    elif got != exp:
        i = next(i for i in range(len(exp)) if got[i] != exp[i])
        failures.append(f'{label}: event {i} differs: {got[i]} != {exp[i]}')
    etp, epn = oracle_tables(tm)
    if dict(threads_pids) != etp:
        failures.append(f'{label}: threads_pids {dict(threads_pids)} != {etp}')
    if dict(pids_names) != epn:
        failures.append(f'{label}: pids_names {dict(pids_names)} != {epn}')


def main():
    rng = random.Random(0xC02)
    ncases = 0

    # 1. single parses, fresh KdBufParser, random shapes
    for i in range(40):
        tm, pad, recs = rand_case(rng)
        p = KdBufParser()
        events = list(p.parse(io.BytesIO(build_dump(tm, pad, recs))))
        check(f'single#{i} n={len(tm)} pad={pad} m={len(recs)}', events, p.threads_pids, p.pids_names, tm, recs)
        ncases += 1

    # 2. record counts around plausible read-chunk boundaries
    for m in (127, 128, 129, 1023, 1024, 1025, 2048, 2049, 3000):
        tm, pad, recs = rand_case(rng, n=3, pad=rng.choice([0, 5, 64]), m=m)
        p = KdBufParser()
        events = list(p.parse(io.BytesIO(build_dump(tm, pad, recs))))
        check(f'big m={m}', events, p.threads_pids, p.pids_names, tm, recs)
        ncases += 1

    # 3. duplicate keys: a later entry wins
    tm = [(1, 10, 'first'), (1, 11, 'second'), (2, 11, 'third'), (3, 10, 'fourth'), (1, 10, 'fifth')]
    recs = [rand_record(rng, i == 0) for i in range(4)]
    p = KdBufParser()
    events = list(p.parse(io.BytesIO(build_dump(tm, 9, recs))))
    check('dups', events, p.threads_pids, p.pids_names, tm, recs)
    ncases += 1

    # 4. sequences of parses that reuse the same map objects (KdBufParser reused, and caller supplied dicts)
    tp, pn = {}, {}
    tp[777] = 888
    pn[888] = 'stale-before-first-parse'
    parser = KdBufParser(tp, pn)
    for i in range(12):
        tm, pad, recs = rand_case(rng)
        events = list(parser.parse(io.BytesIO(build_dump(tm, pad, recs))))
        check(f'reuse#{i}', events, tp, pn, tm, recs)
        if parser.threads_pids is not tp or parser.pids_names is not pn:
            failures.append(f'reuse#{i}: the parser replaced the caller supplied map objects')
        ncases += 1
    # big map then empty map then no records at all
    for tm, pad, recs in ([rand_threadmap(rng, 30), 3, [rand_record(rng, True)]], [[], 0, []], [[(5, 6, 'p')], 2, []]):
        events = list(parser.parse(io.BytesIO(build_dump(tm, pad, recs))))
        check('reuse-shrink', events, tp, pn, tm, recs)
        ncases += 1

    # 5. the public front end, same PyKdebugParser object for several dumps, real file object instead of BytesIO
    front = PyKdebugParser()
    tmp_path = os.path.join('/tmp/seed_out10/C02', 'demo_tmp.kdebug')
    for i in range(8):
        tm, pad, recs = rand_case(rng)
        blob = build_dump(tm, pad, recs)
        if i % 2:
            with open(tmp_path, 'wb') as f:
                f.write(blob)
            with open(tmp_path, 'rb') as f:
                events = list(front.kevents(f))
        else:
            events = list(front.kevents(io.BytesIO(blob)))
        check(f'front#{i}', events, front.threads_pids, front.pids_names, tm, recs)
        ncases += 1
    if os.path.exists(tmp_path):
        os.remove(tmp_path)

    # 6. events are produced lazily and in order (consume one by one)
    tm, pad, recs = rand_case(rng, n=2, pad=11, m=20)
    p = KdBufParser()
    gen = p.parse(io.BytesIO(build_dump(tm, pad, recs)))
    one_by_one = [next(gen) for _ in range(20)]
    rest = list(gen)
    check('stepwise', one_by_one + rest, p.threads_pids, p.pids_names, tm, recs)
    ncases += 1

    # ------------------------------------------------------------------ observable difference (NOT in the property)
    class CountingReader(io.BytesIO):
        calls = 0

        def read(self, *a):
            CountingReader.calls += 1
            return super().read(*a)

    tm, pad, recs = rand_case(rng, n=1, pad=0, m=100)
    blob = build_dump(tm, pad, recs)
    r = CountingReader(blob)
    gen = KdBufParser().parse(r)
    next(gen)
    pos_after_first = r.tell() - (len(blob) - 100 * REC)
    list(gen)
    try:
        list(KdBufParser().parse(io.BytesIO(blob + b'\x01' * 10)))   # truncated last record: OUTSIDE the domain
        trunc = 'no exception'
    except Exception as e:   # noqa
        trunc = type(e).__module__ + '.' + type(e).__name__
    print(f'observable (outside the property): after the 1st of 100 events the stream is {pos_after_first} bytes '
          f'into the records; read() calls for the whole dump: {CountingReader.calls}; '
          f'a truncated trailing record raises {trunc}')

    print(f'{ncases} cases checked, {len(failures)} failures')
    for f in failures[:20]:
        print('FAIL', f)
    sys.exit(1 if failures else 0)


if __name__ == '__main__':
    main()
