"""C16 demo: log records decode for every combination of optional fields; trace identifier is the inverse of its packing.

Run as:  cd /tmp/seed12_C16 && /venv/bin/python /tmp/seed_out12/C16/demo.py
Exits 0 on the unchanged and on the changed code. The oracle below is written from the property statement only.
"""
import os, sys; sys.path.insert(0, os.getcwd())  # noqa: E401,E702

import copy
import dataclasses
import enum
import random
from datetime import datetime, timedelta, timezone

import pykdebugparser
from pykdebugparser import os_log_event as M
from pykdebugparser.os_log_event import OsLogEvent

print('testing', pykdebugparser.__file__)

rnd = random.Random(0xC16)
failures = []


def check(cond, what):
    if not cond:
        failures.append(what)


# ---------------------------------------------------------------------------------------------------------------
# string index
STRINGS = {i: f'string-{i}-é' for i in range(0, 400)}

# ---------------------------------------------------------------------------------------------------------------
# trace identifier: the packing, and the values the format defines
NAMESPACE_TYPES = {
    0: None,  # unknown: raw type byte
    2: {1: 'create', 2: 'swap', 3: 'useraction'},
    3: {0: 'default', 1: 'info', 2: 'debug', 0x10: 'error', 0x11: 'fault'},
    4: {0: 'default', 1: 'info', 2: 'debug', 0x10: 'error', 0x11: 'fault'},
    5: {1: 'dyld', 2: 'subsystem', 3: 'kext', 4: 'coprocessor'},
    6: 'signpost',  # (event|begin|end) | scope bits
    7: None,  # loss: raw type byte
}
NAMESPACE_NAMES = {0: 'unknown', 2: 'activity', 3: 'trace', 4: 'log', 5: 'metadata', 6: 'signpost', 7: 'loss'}
PC_STYLES = ['none', 'main_exe', 'shared_cache', 'main_plugin', 'absolute', 'uuid_relative', 'large_shared_cache',
             '_unused7']
LOG_FLAG_BITS = 0x1f  # namespace log
TRACE_FLAG_BITS = 0x9f  # namespace trace


def pack(namespace, type_, has_current_aid, pc_style, has_unique_pid, has_large_offset, flags, code):
    base = (has_current_aid << 0) | (pc_style << 1) | (has_unique_pid << 4) | (has_large_offset << 5)
    return namespace | (type_ << 8) | (base << 16) | (flags << 24) | (code << 32)


def defined_types(namespace):
    kinds = NAMESPACE_TYPES[namespace]
    if kinds is None:
        return [0, 1, 0x7f, 0xff]
    if kinds == 'signpost':
        return [kind | scope for kind in (0, 1, 2) for scope in (0, 0x40, 0x80, 0xc0)]
    return list(kinds)


def defined_flags(namespace):
    if namespace == 4:
        return [f for f in range(256) if not f & ~LOG_FLAG_BITS]
    if namespace == 3:
        return [f for f in range(256) if not f & ~TRACE_FLAG_BITS]
    return [0, 1, 0x80, 0xff]  # not interpreted for the other namespaces


def check_trace_identifier(decoded, fields, where):
    namespace, type_, aid, pc, upid, large, flags, code = fields
    check(isinstance(decoded.namespace, enum.Enum) and decoded.namespace.value == namespace
          and decoded.namespace.name == NAMESPACE_NAMES[namespace], f'{where}: namespace {decoded.namespace!r}')
    kinds = NAMESPACE_TYPES[namespace]
    if kinds is None:
        check(decoded.type_ == type_, f'{where}: raw type {decoded.type_!r}')
    elif kinds == 'signpost':
        check(int(decoded.type_) == type_, f'{where}: signpost type {decoded.type_!r}')
        check(isinstance(decoded.type_, M.FirehoseTracepointSignpostType), f'{where}: signpost type class')
    else:
        check(decoded.type_.value == type_ and decoded.type_.name == kinds[type_], f'{where}: type {decoded.type_!r}')
    check(decoded.has_current_aid == bool(aid), f'{where}: has_current_aid')
    check(decoded.has_unique_pid == bool(upid), f'{where}: has_unique_pid')
    check(decoded.has_large_offset == bool(large), f'{where}: has_large_offset')
    check(decoded.pc_style.value == pc and decoded.pc_style.name == PC_STYLES[pc], f'{where}: pc_style')
    if namespace in (3, 4):
        check(int(decoded.flags) == flags, f'{where}: flags {decoded.flags!r}')
        for bit, name in ((1, 'has_private_data'), (2, 'has_subsystem'), (4, 'has_rules'), (8, 'has_oversize'),
                          (0x10, 'has_context_data')):
            check(bool(decoded.flags & type(decoded.flags)[name]) == bool(flags & bit), f'{where}: flag {name}')
    else:
        check(decoded.flags is None, f'{where}: flags should be uninterpreted')
    check(decoded.code == code, f'{where}: code')


trace_words = []
for namespace in NAMESPACE_TYPES:
    for type_ in defined_types(namespace):
        for flags in defined_flags(namespace):
            base = rnd.randrange(64)
            fields = (namespace, type_, base & 1, (base >> 1) & 7, (base >> 4) & 1, (base >> 5) & 1, flags,
                      rnd.choice([0, 1, 0xffffffff, rnd.randrange(1 << 32)]))
            trace_words.append(fields)
for base in range(64):  # every combination of the namespace independent flags
    trace_words.append((4, 1, base & 1, (base >> 1) & 7, (base >> 4) & 1, (base >> 5) & 1, 2, 1730654))

for fields in trace_words:
    word = pack(*fields)
    check_trace_identifier(OsLogEvent.parse_trace_identifier(word), fields, f'ti {word:#018x}')
    # the two unused bits of the namespace independent flags byte carry no field
    check_trace_identifier(OsLogEvent.parse_trace_identifier(word | (0xc0 << 16)), fields, f'ti+pad {word:#018x}')

# ---------------------------------------------------------------------------------------------------------------
# raw records
EPOCH = datetime(1970, 1, 1, tzinfo=timezone.utc)


def rand_uuid():
    return bytes(rnd.randrange(256) for _ in range(16))


def rand_string():
    return rnd.randrange(len(STRINGS))


def rand_tz():
    return {'mw': rnd.randrange(-720, 721), 'dt': rnd.randrange(2)}


def rand_date():
    return {'sec': rnd.randrange(1 << 32), 'usec': rnd.randrange(10 ** 6)}


def expect_tz(tz):
    return {'minutes_west': tz['mw'], 'dst_time': tz['dt']}


def rand_segment(shape):
    seg, exp = {}, {}
    if shape & 1:
        seg['lp'] = rand_string()
        exp['literal_prefix'] = STRINGS[seg['lp']]
    if shape & 2:
        p = {'w': rnd.randrange(-1, 100), 'p': rnd.randrange(-1, 100)}
        ep = {}
        if shape & 8:
            p['rs'] = rand_string()
            ep['raw_string'] = STRINGS[p['rs']]
        if shape & 16:
            p['t'] = [rand_string() for _ in range(rnd.randrange(1, 4))]
            ep['tokens'] = [STRINGS[t] for t in p['t']]
        if shape & 32:
            p['tn'] = rand_string()
            p['ty'] = rand_string()
            ep['type_namespace'] = STRINGS[p['tn']]
            ep['type'] = STRINGS[p['ty']]
        ep['width'] = p['w']
        ep['precision'] = p['p']
        seg['p'] = p
        exp['placeholder'] = ep
    if shape & 4:
        category = rnd.choice([1, 2, 3])
        a = {'a': 3, 'p': rnd.randrange(4), 'c': category}
        ea = {'availability': 3, 'privacy': a['p'], 'category': category}
        if category == 1:
            a['sc'] = rnd.randrange(4)
            a['st'] = rnd.randrange(16)
            a['or'] = rnd.randrange(1 << 40)
            ea['scalar_category'] = a['sc']
            ea['scalar_type'] = a['st']
            ea['object_representation'] = a['or']
        elif category == 2:
            a['or'] = rand_string()
            ea['object_representation'] = STRINGS[a['or']]
        seg['a'] = a
        exp['arg'] = ea
    return seg, exp


def rand_decomposed(n_segments):
    dm = {'pc': n_segments, 's': rnd.randrange(4)}
    exp = {'placeholder_count': n_segments, 'state': dm['s']}
    if n_segments:
        pairs = [rand_segment(rnd.randrange(1, 64)) for _ in range(n_segments)]
        dm['seg'] = [p[0] for p in pairs]
        exp['segments'] = [p[1] for p in pairs]
    return dm, exp


def opt_string(field):
    def gen():
        idx = rand_string()
        return idx, (field, STRINGS[idx])
    return gen


def opt_plain(field, make):
    def gen():
        value = make()
        return value, (field, copy.deepcopy(value))
    return gen


def opt_ti():
    fields = rnd.choice(trace_words)
    return pack(*fields), ('trace_identifier', fields)


def opt_lt():
    value = rnd.choice([0, 1, 2, 0x10, 0x11])
    return value, ('log_type', value)


def opt_tz(field):
    def gen():
        tz = rand_tz()
        return tz, (field, expect_tz(tz))
    return gen


def opt_bt():
    levels = [{'iu': rand_uuid(), 'io': rnd.randrange(1 << 32)} for _ in range(rnd.randrange(0, 5))]
    return levels, ('backtrace', [{'image_uuid': lv['iu'], 'image_offset': lv['io']} for lv in levels])


def opt_lc():
    lc = {'c': rnd.randrange(1 << 20), 's': rnd.randrange(4)}
    return lc, ('loss_count', {'count': lc['c'], 'unknown': lc['s']})


def opt_dm():
    dm, exp = rand_decomposed(rnd.choice([0, 1, 2, 5]))
    return dm, ('decomposed_message', exp)


def u64():
    return rnd.randrange(1 << 64)


OPTIONAL = {
    'ti': opt_ti,
    'pip': opt_string('process_image_path'), 'p': opt_string('process'),
    'sip': opt_string('sender_image_path'), 'send': opt_string('sender'),
    'sio': opt_plain('sender_image_offset', u64), 'siu': opt_plain('sender_image_uuid', rand_uuid),
    'lt': opt_lt,
    'ttl': opt_plain('time_to_live', lambda: rnd.randrange(256)),
    'pid': opt_plain('process_identifier', lambda: rnd.randrange(1 << 31)),
    'aid': opt_plain('activity_identifier', u64), 'paid': opt_plain('parent_activity_identifier', u64),
    'tai': opt_plain('transition_activity_identifier', u64),
    'sub': opt_string('subsystem'), 'cat': opt_string('category'), 'f': opt_string('format_string'),
    'cai': opt_plain('creator_activity_identifier', u64),
    'cpui': opt_plain('creator_process_unique_identifier', u64),
    'si': opt_plain('signpost_identifier', u64), 'sn': opt_string('signpost_name'),
    'st': opt_plain('signpost_type', lambda: rnd.randrange(3)),
    'ss': opt_plain('signpost_scope', lambda: rnd.randrange(4)),
    'lsmct': opt_plain('loss_start_mach_continuous_timestamp', u64),
    'lemct': opt_plain('loss_end_mach_continuous_timestamp', u64),
    'lsud': opt_plain('loss_start_unix_date', rand_date), 'leud': opt_plain('loss_end_unix_date', rand_date),
    'lsutz': opt_tz('loss_start_unix_timezone'), 'leutz': opt_tz('loss_end_unix_timezone'),
    'bt': opt_bt, 'lc': opt_lc, 'dm': opt_dm,
}
assert len(OPTIONAL) == 31

DEFAULTS = {
    'process_image_path': '', 'process': '', 'sender_image_path': '', 'sender': '', 'sender_image_offset': 0,
    'sender_image_uuid': b'', 'log_type': None, 'time_to_live': 0, 'process_identifier': 0, 'subsystem': '',
    'category': '', 'format_string': '', 'activity_identifier': 0, 'parent_activity_identifier': 0,
    'transition_activity_identifier': 0, 'decomposed_message': {}, 'trace_identifier': None,
    'creator_activity_identifier': 0, 'creator_process_unique_identifier': 0, 'signpost_identifier': 0,
    'signpost_name': '', 'signpost_type': 0, 'signpost_scope': 0, 'loss_start_mach_continuous_timestamp': 0,
    'loss_end_mach_continuous_timestamp': 0, 'loss_start_unix_date': {}, 'loss_end_unix_date': {},
    'loss_start_unix_timezone': {}, 'loss_end_unix_timezone': {}, 'loss_count': {}, 'backtrace': [],
}


def run_record(keys, where):
    date, tz = rand_date(), rand_tz()
    raw = {
        'cm': rand_string(), 't': rnd.choice(['logEvent', 'activityCreateEvent', 'signpostEvent', 'lossEvent']),
        's': rnd.randrange(1 << 16), 'tid': rnd.randrange(1 << 32), 'ns': u64(), 'mct': u64(), 'b': rand_uuid(),
        'piu': rand_uuid(), 'ud': date, 'utz': tz,
    }
    expected = dict(DEFAULTS)
    expected.update({
        'composed_message': STRINGS[raw['cm']], 'type_': raw['t'], 'size': raw['s'], 'thread_identifier': raw['tid'],
        'continuous_nanoseconds_since_boot': raw['ns'], 'mach_continuous_timestamp': raw['mct'],
        'boot_uuid': raw['b'], 'process_image_uuid': raw['piu'],
        'unix_date': EPOCH + timedelta(seconds=date['sec'], microseconds=date['usec']),
        'unix_timezone': expect_tz(tz),
    })
    key_order = list(keys)
    rnd.shuffle(key_order)  # the order of the keys in the raw dictionary carries no meaning
    for key in key_order:
        raw[key], (field, value) = OPTIONAL[key]()
        expected[field] = value
    try:
        event = OsLogEvent.from_raw_log_event(copy.deepcopy(raw), dict(STRINGS))
    except Exception as e:  # noqa
        failures.append(f'{where}: decoding raised {type(e).__name__}: {e}')
        return
    check(isinstance(event, OsLogEvent), f'{where}: not an OsLogEvent')
    names = {f.name for f in dataclasses.fields(event)}
    check(names >= set(expected), f'{where}: missing fields {set(expected) - names}')
    for field, value in expected.items():
        got = getattr(event, field)
        if field == 'trace_identifier' and value is not None:
            check_trace_identifier(got, value, f'{where}: trace_identifier')
        elif field == 'log_type' and value is not None:
            check(isinstance(got, enum.Enum) and got.value == value, f'{where}: log_type {got!r}')
        elif field == 'unix_date':
            check(got == value and got.utcoffset() == timedelta(0), f'{where}: unix_date {got!r} != {value!r}')
        else:
            check(got == value and type(got) is type(value), f'{where}: {field} {got!r} != {value!r}')


ALL = list(OPTIONAL)
subsets = [[], ALL] + [[k] for k in ALL] + [[x for x in ALL if x != k] for k in ALL]
subsets += [[k for k in ALL if rnd.random() < 0.5] for _ in range(60)]
for i, keys in enumerate(subsets):
    run_record(keys, f'record {i} keys={sorted(keys)}')

# every decomposed-message shape bit combination, 0..3 segments
for shape in range(64):
    seg, exp = rand_segment(shape)
    check(OsLogEvent.parse_decomposed_segment(seg, STRINGS) == exp, f'segment shape {shape}')
for n in range(4):
    dm, exp = rand_decomposed(n)
    check(OsLogEvent.parse_decomposed(dm, STRINGS) == exp, f'decomposed with {n} segments')


# ---------------------------------------------------------------------------------------------------------------
# not part of the property: a word that does not fit 64 bits, and the module's helper names
def outcome(word):
    try:
        return repr(OsLogEvent.parse_trace_identifier(word))
    except Exception as e:  # noqa
        return f'{type(e).__module__}.{type(e).__name__}'


print(f'observable difference (outside the property): parse_trace_identifier(1 << 64) -> {outcome(1 << 64)}; '
      f'parse_trace_identifier(-1) -> {outcome(-1)}; '
      f'module has firehose_tracepoint_id: {hasattr(M, "firehose_tracepoint_id")}')

print(f'{len(trace_words) * 2} trace identifier words, {len(subsets)} records, 64 segment shapes checked; '
      f'{len(failures)} failure(s)')
for failure in failures[:20]:
    print('FAIL', failure)
sys.exit(1 if failures else 0)
