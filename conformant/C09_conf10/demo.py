"""
C09 demo: syscall / trap arguments are rendered from the matching START argument, in order.

Run as:  cd /tmp/seed10_C09 && /venv/bin/python /tmp/seed_out10/C09/demo.py

The oracle is derived from the statement only:
  * the text is name(p0, p1, ...)[, result]; every pk that is a numeric literal must be the k-th START argument in
    decimal, signed (two's complement of the 64 bit word) or hexadecimal form, never another argument and never a
    word of another event (the END record, a foreign event in between);
  * the call part does not change when only the END record changes.
It does not pin WHICH of the three allowed forms a decoder picks.
"""
import os, sys; sys.path.insert(0, os.getcwd())  # noqa: E401,E702

import re
import struct

import pykdebugparser
from pykdebugparser.kevent import Kevent
from pykdebugparser.trace_codes import default_trace_codes
from pykdebugparser.traces_parser import TracesParser

print('testing', pykdebugparser.__file__)

CODES = default_trace_codes()
NAME2CODE = {}
for _code, _name in CODES.items():
    NAME2CODE.setdefault(_name, _code)

START, END, NONE = 1, 2, 0
TID = 0x4d2

# Decoders without enum-valued arguments (any 4-tuple of 64 bit words is in the domain for them).
DECODERS = [
    'BSC_read', 'BSC_write', 'BSC_pread', 'BSC_pwrite', 'BSC_sys_close', 'BSC_kill', 'BSC_wait4',
    'BSC_lseek', 'BSC_sys_preadv', 'BSC_sys_pwritev', 'BSC_sys_preadv_nocancel', 'BSC_sys_pwritev_nocancel',
    'BSC_msgrcv', 'BSC_msgrcv_nocancel', 'BSC_msgsnd', 'BSC_mmap', 'BSC_munmap', 'BSC_mprotect',
    'BSC_truncate', 'BSC_ftruncate', 'BSC_sendto', 'BSC_setsockopt', 'BSC_getattrlistbulk', 'BSC_sysctl',
    'BSC_proc_uuid_policy', 'BSC_work_interval_ctl', 'BSC_ulock_wake', 'BSC_openat', 'BSC_fstatat', 'BSC_fchown',
    'BSC_mknod', 'BSC_setpgid', 'BSC_sys_dup2', 'BSC_listen', 'BSC_mincore', 'BSC_abort_with_payload',
    'MSC_mach_port_deallocate_trap', 'MSC_mach_vm_allocate_trap', 'MSC_mk_timer_arm', 'MSC_mach_port_request_notification_trap',
    'MSC_mach_vm_deallocate_trap',
]

# START tuples: pairwise distinct words (so that a swapped / foreign word is seen), with and without bit 63 set.
START_TUPLES = [
    (3, 0x16fdff000, 128, 77),
    (11, 12, 13, 14),
    (0xfffffffffffffffd, 0x7001, 2, 0xffffffffffffff9c),      # -3, ..., -100
    (5, 0xfffffffffffffffe, 0x8000000000000000, 0xfffffffffffffffb),  # -2, INT64_MIN, -5
    (0x7fffffffffffffff, 0xffffffff, 0x100000000, 0xffffffffffffffff),
    (0, 1, 0x8000000000000001, 0xfffffffffffffffd),
]
# END tuples: words that never occur in a START tuple above (nor as one of their signed readings).
END_TUPLES = [(0, 4242, 4343, 4444), (2, 5151, 5252, 5353)]
FOREIGN = (9191, 9292, 9393, 9494)
FOREIGN_CODE = 0x7fff0000  # an event id without a name: no decoder runs for it

NUMERIC = re.compile(r'^(-?\d+|0x[0-9a-f]+)$')


def kevent(code, qual, values, timestamp, tid=TID):
    return Kevent(timestamp, struct.pack('<QQQQ', *values), tuple(values), tid, code | qual, code, qual)


def render(name, start, end):
    """ Text of the call, rendered the way the tool does: START record, a foreign record in between, END record. """
    parser = TracesParser(CODES, {}, {})
    code = NAME2CODE[name]
    assert parser.feed(kevent(code, START, start, 100)) is None
    # A record of another event class on the same thread (it is appended to the syscall's event list) ...
    assert FOREIGN_CODE not in CODES
    parser.feed(kevent(FOREIGN_CODE, NONE, FOREIGN, 101))
    # ... and the same syscall on another thread.
    parser.feed(kevent(code, START, FOREIGN, 102, tid=TID + 1))
    parsed = parser.feed(kevent(code, END, end, 103))
    assert parsed is not None, name
    return str(parsed)


def split_call(text):
    """ -> (name, [p0, p1, ...], rest) of 'name(p0, p1, ...)rest' ; commas inside quotes / parentheses don't split. """
    name, _, tail = text.partition('(')
    depth, quoted, params, current = 1, False, [], ''
    for index, char in enumerate(tail):
        if char == '"':
            quoted = not quoted
        if not quoted:
            if char == '(':
                depth += 1
            elif char == ')':
                depth -= 1
                if depth == 0:
                    if current.strip() or params:
                        params.append(current.strip())
                    return name, params, tail[index + 1:]
            elif char == ',' and depth == 1:
                params.append(current.strip())
                current = ''
                continue
        current += char
    raise AssertionError(f'unbalanced call text: {text!r}')


def signed64(word):
    return word - (1 << 64) if word >> 63 else word


def allowed_forms(word):
    return {str(word), str(signed64(word)), hex(word)}


def check(name, start, text):
    problems = []
    _, params, _ = split_call(text)
    if len(params) > 4:
        problems.append(f'{len(params)} parameters, only 4 words are recorded')
    for position, param in enumerate(params[:4]):
        if NUMERIC.match(param) and param not in allowed_forms(start[position]):
            problems.append(f'p{position}={param} is not argument {position} ({start[position]:#x}) of the START record')
    return problems


def main():
    failures = 0
    checked = 0
    for name in DECODERS:
        if name not in NAME2CODE:
            print('SKIP (no trace code):', name)
            continue
        for start in START_TUPLES:
            texts = [render(name, start, end) for end in END_TUPLES]
            calls = []
            for text in texts:
                checked += 1
                func, params, _ = split_call(text)
                calls.append((func, params))
                for problem in check(name, start, text):
                    failures += 1
                    print(f'VIOLATION {name} start={start}: {problem}: {text}')
            if calls[0] != calls[1]:
                failures += 1
                print(f'VIOLATION {name} start={start}: call part depends on the END record: {texts}')

    # The observable difference of the change (both forms are allowed by the statement).
    msgtyp = (1 << 64) - 3
    text = render('BSC_msgrcv', (5, 0x16fdff000, 128, msgtyp), (0, 64, 0, 0))
    shown = split_call(text)[1][3]
    form = {str(msgtyp): 'unsigned decimal (unchanged code)', '-3': 'signed decimal (changed code)'}.get(shown, '?')
    print(f'observable: msgrcv with msgtyp word {msgtyp:#x} renders as: {text}   [p3 in {form}]')

    print(f'{checked} rendered calls checked, {failures} violation(s)')
    return 1 if failures else 0


if __name__ == '__main__':
    sys.exit(main())
