import os, sys; sys.path.insert(0, os.getcwd())  # noqa: E401,E702

import copy
import dataclasses
import itertools
import random
import types
from datetime import datetime, timezone

import pykdebugparser
from pykdebugparser import os_log_event as ole
from pykdebugparser.os_log_event import OsLogEvent

print('testing', pykdebugparser.__file__)

# ---------------------------------------------------------------- string index
STRINGS = {i: f'string-{i}' for i in range(1, 60)}

# ---------------------------------------------------------------- oracle tables (derived from the statement)
MANDATORY = {
    'cm': ('composed_message', 'str'), 't': ('type_', 'raw'), 's': ('size', 'raw'),
    'tid': ('thread_identifier', 'raw'), 'ns': ('continuous_nanoseconds_since_boot', 'raw'),
    'mct': ('mach_continuous_timestamp', 'raw'), 'b': ('boot_uuid', 'raw'),
    'piu': ('process_image_uuid', 'raw'), 'ud': ('unix_date', 'date'), 'utz': ('unix_timezone', 'tz'),
}
OPTIONAL = {
    'ti': ('trace_identifier', 'ti'), 'pip': ('process_image_path', 'str'), 'p': ('process', 'str'),
    'sip': ('sender_image_path', 'str'), 'send': ('sender', 'str'), 'sio': ('sender_image_offset', 'raw'),
    'siu': ('sender_image_uuid', 'raw'), 'lt': ('log_type', 'lt'), 'ttl': ('time_to_live', 'raw'),
    'pid': ('process_identifier', 'raw'), 'aid': ('activity_identifier', 'raw'),
    'paid': ('parent_activity_identifier', 'raw'), 'tai': ('transition_activity_identifier', 'raw'),
    'sub': ('subsystem', 'str'), 'cat': ('category', 'str'), 'f': ('format_string', 'str'),
    'cai': ('creator_activity_identifier', 'raw'), 'cpui': ('creator_process_unique_identifier', 'raw'),
    'si': ('signpost_identifier', 'raw'), 'sn': ('signpost_name', 'str'), 'st': ('signpost_type', 'raw'),
    'ss': ('signpost_scope', 'raw'), 'lsmct': ('loss_start_mach_continuous_timestamp', 'raw'),
    'lemct': ('loss_end_mach_continuous_timestamp', 'raw'), 'lsud': ('loss_start_unix_date', 'raw'),
    'leud': ('loss_end_unix_date', 'raw'), 'lsutz': ('loss_start_unix_timezone', 'tz'),
    'leutz': ('loss_end_unix_timezone', 'tz'), 'bt': ('backtrace', 'bt'), 'lc': ('loss_count', 'lc'),
    'dm': ('decomposed_message', 'dm'),
}
assert len(OPTIONAL) == 31

DEFAULTS = {}
for f in dataclasses.fields(OsLogEvent):
    if f.default is not dataclasses.MISSING:
        DEFAULTS[f.name] = f.default
    elif f.default_factory is not dataclasses.MISSING:
        DEFAULTS[f.name] = f.default_factory()


# ---------------------------------------------------------------- trace identifier packing
def pack_ti(namespace, type_, large_offset, unique_pid, pc_style, current_aid, flags, code):
    trace_flags = (large_offset << 5) | (unique_pid << 4) | (pc_style << 1) | current_aid
    return namespace | (type_ << 8) | (trace_flags << 16) | (flags << 24) | (code << 32)


def as_int(value):
    return value.value if hasattr(value, 'value') else int(value)


def check_ti(decoded, fields):
    namespace, type_, large_offset, unique_pid, pc_style, current_aid, flags, code = fields
    assert decoded.namespace == ole.FirehoseTracepointNamespace(namespace), decoded
    assert as_int(decoded.type_) == type_, (decoded, type_)
    if namespace in (2, 3, 4, 5):
        assert isinstance(decoded.type_, ole.tracepoint_types[decoded.namespace])
    assert decoded.has_large_offset == bool(large_offset) and decoded.has_unique_pid == bool(unique_pid)
    assert decoded.pc_style == ole.FirehoseTracepointFlagsPcStyle(pc_style)
    assert decoded.has_current_aid == bool(current_aid)
    if namespace in (3, 4):  # namespaces for which the package defines a flag set
        assert as_int(decoded.flags) == flags, (decoded, flags)
    assert decoded.code == code


TYPES = {0: [0], 2: [1, 2, 3], 3: [0, 1, 2, 0x10, 0x11], 4: [0, 1, 2, 0x10, 0x11], 5: [1, 2, 3, 4],
         6: [a | b for a in (0, 1, 2) for b in (0, 0x40, 0x80, 0xc0)], 7: [0]}
FLAGS = {3: [0, 1, 2, 4, 8, 0x10, 0x80, 0x9f, 0x83], 4: [0, 1, 2, 4, 8, 0x10, 0x1f, 0x0b]}


def ti_cases(rnd):
    for namespace, type_list in TYPES.items():
        for type_ in type_list:
            for flags in FLAGS.get(namespace, [0]):
                yield (namespace, type_, rnd.randint(0, 1), rnd.randint(0, 1), rnd.randint(0, 7),
                       rnd.randint(0, 1), flags, rnd.choice([0, 1, 0xffffffff, rnd.getrandbits(32)]))


# ---------------------------------------------------------------- decomposed messages
def oracle_segment(seg):
    out = {}
    if 'lp' in seg:
        out['literal_prefix'] = STRINGS[seg['lp']]
    if 'p' in seg:
        p, ph = seg['p'], {}
        if 'rs' in p:
            ph['raw_string'] = STRINGS[p['rs']]
        if p.get('t'):
            ph['tokens'] = [STRINGS[t] for t in p['t']]
        if 'tn' in p:
            ph['type_namespace'] = STRINGS[p['tn']]
        if 'ty' in p:
            ph['type'] = STRINGS[p['ty']]
        ph['width'], ph['precision'] = p['w'], p['p']
        out['placeholder'] = ph
    if 'a' in seg:
        a, arg = seg['a'], {}
        if 'a' in a:
            arg['availability'] = a['a']
        if 'p' in a:
            arg['privacy'] = a['p']
        arg['category'] = a['c']
        if a['c'] == 1:
            if 'sc' in a:
                arg['scalar_category'] = a['sc']
            if 'st' in a:
                arg['scalar_type'] = a['st']
        if a.get('a', 3) == 3 and 'or' in a:
            arg['object_representation'] = STRINGS[a['or']] if a['c'] == 2 else a['or']
        out['arg'] = arg
    return out


def oracle_dm(dm):
    out = {'placeholder_count': dm['pc'], 'state': dm['s']}
    if dm['pc']:
        out['segments'] = [oracle_segment(seg) for seg in dm['seg']]
    return out


DM_SHAPES = [
    {'pc': 0, 's': 1},
    {'pc': 0, 's': 2, 'seg': []},
    {'pc': 1, 's': 1, 'seg': [{'lp': 5}]},
    {'pc': 1, 's': 1, 'seg': [{'p': {'w': 0, 'p': 0}}]},
    {'pc': 1, 's': 1, 'seg': [{'lp': 7, 'p': {'rs': 8, 't': [9, 10], 'tn': 11, 'ty': 12, 'w': 3, 'p': 4},
                               'a': {'a': 3, 'p': 1, 'c': 2, 'or': 13}}]},
    {'pc': 2, 's': 1, 'seg': [{'lp': 14, 'p': {'rs': 15, 't': [], 'w': 0, 'p': 0},
                               'a': {'p': 2, 'c': 1, 'sc': 1, 'st': 6, 'or': 4242}},
                              {'lp': 16}]},
    {'pc': 3, 's': 4, 'seg': [{'p': {'rs': 17, 'ty': 18, 'w': 1, 'p': 2}, 'a': {'a': 1, 'p': 3, 'c': 2, 'or': 19}},
                              {'p': {'rs': 20, 'w': 0, 'p': 0}, 'a': {'a': 3, 'c': 3, 'or': b'\x01\x02'}},
                              {'lp': 21, 'a': {'c': 1, 'sc': 2, 'st': 3}},
                              {'lp': 22}]},
    {'pc': 1, 's': 1, 'seg': [{'a': {'c': 2}}]},
]


# ---------------------------------------------------------------- raw record generation
def optional_value(key, rnd, ti_fields, dm):
    kind = OPTIONAL[key][1]
    if kind == 'str':
        return rnd.choice(list(STRINGS))
    if kind == 'tz':
        return {'mw': rnd.randint(-720, 840), 'dt': rnd.randint(0, 1)}
    if kind == 'lt':
        return rnd.choice([0, 1, 2, 0x10, 0x11])
    if kind == 'ti':
        return pack_ti(*ti_fields)
    if kind == 'bt':
        return [{'iu': rnd.randbytes(16), 'io': rnd.getrandbits(32)} for _ in range(rnd.randint(0, 4))]
    if kind == 'lc':
        return {'c': rnd.getrandbits(16), 's': rnd.getrandbits(8)}
    if kind == 'dm':
        return copy.deepcopy(dm)
    if key in ('siu',):
        return rnd.randbytes(16)
    if key in ('lsud', 'leud'):
        return {'sec': rnd.getrandbits(31), 'usec': rnd.randint(0, 999999)}
    return rnd.getrandbits(48)


def make_record(keys, rnd, ti_fields, dm):
    raw = {
        'cm': rnd.choice(list(STRINGS)), 't': rnd.choice([0x400, 0x600, 0x700]), 's': rnd.getrandbits(16),
        'tid': rnd.getrandbits(32), 'ns': rnd.getrandbits(48), 'mct': rnd.getrandbits(48),
        'b': rnd.randbytes(16), 'piu': rnd.randbytes(16),
        'ud': {'sec': rnd.randint(0, 2 ** 32 - 1), 'usec': rnd.randint(0, 999999)},
        'utz': {'mw': rnd.randint(-720, 840), 'dt': rnd.randint(0, 1)},
    }
    for key in keys:
        raw[key] = optional_value(key, rnd, ti_fields, dm)
    items = list(raw.items())
    rnd.shuffle(items)  # the key order of a plist dict means nothing
    return dict(items)


def check_record(raw, ti_fields):
    pristine = copy.deepcopy(raw)
    decoded = OsLogEvent.from_raw_log_event(raw, dict(STRINGS))
    assert isinstance(decoded, OsLogEvent)
    for key, (name, kind) in itertools.chain(MANDATORY.items(), OPTIONAL.items()):
        got = getattr(decoded, name)
        if key not in pristine:
            assert got == DEFAULTS[name], (name, got)
            continue
        value = pristine[key]
        if kind == 'raw':
            assert got == value, (name, got, value)
        elif kind == 'str':
            assert got == STRINGS[value], (name, got)
        elif kind == 'date':
            assert got.tzinfo is not None and got.utcoffset().total_seconds() == 0
            want = datetime.fromtimestamp(value['sec'] + value['usec'] / 10 ** 6, tz=timezone.utc)
            assert got == want and abs(got.timestamp() - (value['sec'] + value['usec'] / 1e6)) < 1e-3, (got, value)
        elif kind == 'tz':
            assert got == {'minutes_west': value['mw'], 'dst_time': value['dt']}, (name, got)
        elif kind == 'lt':
            assert got == ole.OsLogType(value)
        elif kind == 'ti':
            check_ti(got, ti_fields)
        elif kind == 'bt':
            assert list(got) == [{'image_uuid': lv['iu'], 'image_offset': lv['io']} for lv in value]
        elif kind == 'lc':
            assert got == {'count': value['c'], 'unknown': value['s']}
        elif kind == 'dm':
            assert got == oracle_dm(value), (got, value)
    return decoded


def main():
    rnd = random.Random(16)
    all_keys = list(OPTIONAL)
    tis = list(ti_cases(rnd))
    subsets = [[], all_keys] + [[k] for k in all_keys] + [[k for k in all_keys if k != k2] for k2 in all_keys]
    subsets += [[k for k in all_keys if rnd.random() < q] for q in (0.2, 0.5, 0.8) for _ in range(15)]
    count = 0
    for i, keys in enumerate(subsets):
        ti_fields, dm = tis[i % len(tis)], DM_SHAPES[i % len(DM_SHAPES)]
        check_record(make_record(keys, rnd, ti_fields, dm), ti_fields)
        count += 1
    for dm in DM_SHAPES:  # every decomposed-message shape
        check_record(make_record(['dm', 'f'], rnd, tis[0], dm), tis[0])
        count += 1
    for ti_fields in tis:  # every defined namespace / type, with flag combinations
        check_ti(OsLogEvent.parse_trace_identifier(pack_ti(*ti_fields)), ti_fields)
        check_record(make_record(['ti'], rnd, ti_fields, DM_SHAPES[0]), ti_fields)
        count += 1
    print(f'property C16 held on {count} records ({len(subsets)} key subsets, {len(DM_SHAPES)} message shapes, '
          f'{len(tis)} trace identifier words)')

    # ------------------------------------------------------------ behaviour the statement does not pin down
    raw = make_record(all_keys, rnd, tis[3], DM_SHAPES[4])
    before = len(raw)
    OsLogEvent.from_raw_log_event(raw, dict(STRINGS))
    try:
        OsLogEvent.from_raw_log_event(types.MappingProxyType(make_record([], rnd, tis[0], DM_SHAPES[0])),
                                      dict(STRINGS))
        read_only = 'decodes'
    except Exception as e:
        read_only = f'raises {type(e).__name__}'
    try:
        OsLogEvent.from_raw_log_event({'cm': 1, 't': 0x400}, dict(STRINGS))
        missing = 'no error'
    except Exception as e:
        missing = f'{type(e).__name__}({e})'
    print(f'observable difference: caller\'s raw dict had {before} keys, has {len(raw)} after decoding; '
          f'a read-only mapping {read_only}; a record without its mandatory fields gives {missing}')


if __name__ == '__main__':
    main()
