import os, sys; sys.path.insert(0, os.getcwd())  # noqa: E702  (test the worktree copy, not the editable install)

"""
C04 demo: START/END pairing delivers exactly each operation's per-thread event window.

Run as:  cd /tmp/seed10_C04 && /venv/bin/python /tmp/seed_out10/C04/demo.py
Exits 0 on both the unchanged and the changed code.  The oracle below is written from the statement of C04 only,
it never looks at the parser's private state.
"""
import random
import struct

import pykdebugparser
from pykdebugparser.kevent import Kevent
from pykdebugparser.trace_codes import default_trace_codes
from pykdebugparser.traces_parser import TracesParser

print('testing', pykdebugparser.__file__)

NONE, START, END, ALL = 0, 1, 2, 3
QNAME = {NONE: 'NONE', START: 'START', END: 'END', ALL: 'ALL'}

CODES = default_trace_codes()
NAMES = {name: code for code, name in CODES.items()}

# decodable, syscall-like: the handler returns an object for any window
DEC = [NAMES['MSC_mach_reply_port'], NAMES['MSC_thread_self_trap'], NAMES['BSC_getpid']]
# kernel trace-string / data records: their own pairing domain
TRC = [NAMES['TRACE_DATA_NEWTHREAD'], NAMES['TRACE_STRING_PROC_EXIT']]
# a string whose continuation fragments (records without the START bit that come on their own) are swallowed
TRC_CONT = [NAMES['TRACE_STRING_THREADNAME']]
UNKNOWN = [0xdead0000, 0xdead0004]

_probe = TracesParser(CODES, {}, {})
UNDECODED = [code for code, name in sorted(CODES.items()) if name not in _probe.handlers][:2]
assert len(UNDECODED) == 2
for c in DEC + TRC + TRC_CONT:
    assert CODES[c] in _probe.handlers
TRACE_DOMAIN_NAMES = {name for name in _probe.handlers if name.startswith('TRACE_')}
for c in TRC + TRC_CONT:
    assert CODES[c] in TRACE_DOMAIN_NAMES

ALL_CODES = DEC + TRC + TRC_CONT + UNDECODED + UNKNOWN

_ts = [0]


def ev(tid, code, qual):
    _ts[0] += 1
    # every event is distinct (timestamp, payload); the payload is ASCII so that the string handlers can decode it
    data = (b'n%d' % _ts[0]).ljust(32, b'\x00')
    values = struct.unpack('<QQQQ', data)
    return Kevent(_ts[0], data, values, tid, code | qual, code, qual)


def domain(code):
    return 'trace' if CODES.get(code) in TRACE_DOMAIN_NAMES else 'other'


def decodable(code):
    return CODES.get(code) in _probe.handlers


def fmt(e):
    return f'{e.tid}:{CODES.get(e.eventid, hex(e.eventid))}:{QNAME[e.func_qualifier]}'


class Violation(Exception):
    pass


def check_stream(stream):
    """ Feed the stream to a fresh real parser and compare every step with what the statement says. """
    parser = TracesParser(CODES, {}, {})
    # oracle bookkeeping, from the statement: per (domain, tid) the position of the most recent open START per code
    open_starts = {}
    stray_positions = set()
    n_traces = 0
    for pos, e in enumerate(stream):
        out = list(parser.feed_generator(iter([e])))
        key = (domain(e.eventid), e.tid)
        opened = open_starts.setdefault(key, {})
        q = e.func_qualifier
        where = f'at #{pos} {fmt(e)} in [{", ".join(map(fmt, stream))}]'
        if q == START:
            if out:
                raise Violation(f'START emitted a trace {where}')
            opened[e.eventid] = pos
        elif q == END:
            if e.eventid not in opened:
                stray_positions.add(pos)
                if out:
                    raise Violation(f'END without open START emitted a trace {where}')
                continue
            start_pos = opened.pop(e.eventid)
            if not decodable(e.eventid):
                if out:
                    raise Violation(f'trace for an undecodable code {where}')
                continue
            if len(out) != 1:
                raise Violation(f'expected exactly one trace, got {len(out)} {where}')
            got = list(out[0].ktraces)
            must = [x for p, x in enumerate(stream[start_pos:pos + 1], start_pos)
                    if x.tid == e.tid and domain(x.eventid) == key[0] and p not in stray_positions]
            may = [x for p, x in enumerate(stream[start_pos:pos + 1], start_pos)
                   if x.tid == e.tid and domain(x.eventid) == key[0]]
            if got[0] is not stream[start_pos] or got[-1] is not e:
                raise Violation(f'window does not run from the most recent START to the END {where}')
            if len(set(map(id, got))) != len(got):
                raise Violation(f'duplicates in the window {where}')
            # got must be a subsequence of may (stream order, same thread, same domain, inside the interval) ...
            it = iter(may)
            if not all(any(g is m for m in it) for g in got):
                raise Violation(f'window has a foreign / out of interval / out of order event {where}: '
                                f'{list(map(fmt, got))}')
            # ... that leaves out nothing but stray ENDs
            if [g for g in got if any(g is m for m in must)] != must or \
                    any(not any(g is m for m in must) and g.func_qualifier != END for g in got):
                raise Violation(f'window misses an event {where}: {list(map(fmt, got))} vs {list(map(fmt, must))}')
            n_traces += 1
        else:  # NONE / ALL
            if not decodable(e.eventid):
                if out:
                    raise Violation(f'trace for an undecodable code {where}')
                continue
            swallow_ok = e.eventid in TRC_CONT and q == NONE
            if len(out) == 0 and swallow_ok:
                continue
            if len(out) != 1:
                raise Violation(f'expected exactly one single-event trace, got {len(out)} {where}')
            got = list(out[0].ktraces)
            if len(got) != 1 or got[0] is not e:
                raise Violation(f'single event trace is not the event alone {where}')
            n_traces += 1
    return n_traces


def S(*triples):
    return [ev(t, c, q) for t, c, q in triples]


A, B, C = DEC
T1, T2 = TRC
TN = TRC_CONT[0]
U = UNDECODED[0]
X = UNKNOWN[0]

HAND = [
    # plain pair, pair with content, unmatched, repeated, nested, crossing
    S((1, A, START), (1, A, END)),
    S((1, A, START), (1, B, NONE), (1, U, NONE), (1, X, ALL), (1, A, END)),
    S((1, A, END)),
    S((1, A, START)),
    S((1, A, START), (1, A, START), (1, A, END), (1, A, END)),
    S((1, A, START), (1, B, START), (1, B, END), (1, A, END)),
    S((1, A, START), (1, B, START), (1, A, END), (1, B, END)),
    S((1, A, START), (1, B, START), (1, C, START), (1, A, END), (1, C, END), (1, B, END)),
    S((1, A, START), (1, B, START), (1, C, START), (1, C, END), (1, B, END), (1, A, END), (1, A, END)),
    # the oldest open operation closes first, then later ones: what is logged before them must not leak in
    S((1, A, START), (1, C, NONE), (1, B, START), (1, C, NONE), (1, A, END), (1, C, NONE), (1, B, END)),
    S((1, A, START), (1, C, NONE), (1, B, START), (1, A, END), (1, A, START), (1, B, END), (1, A, END)),
    S((1, A, START), (1, B, START), (1, A, START), (1, C, NONE), (1, B, END), (1, A, END)),
    # stray ENDs inside a window
    S((1, A, START), (1, B, END), (1, X, END), (1, U, END), (1, T1, END), (1, A, END)),
    # other threads interleaved
    S((1, A, START), (2, A, START), (2, B, NONE), (1, B, NONE), (2, A, END), (1, A, END)),
    S((1, A, START), (2, A, END), (1, A, END)),
    S((1, A, START), (2, B, ALL), (3, C, ALL), (1, A, END), (2, A, END)),
    # same thread opens again after everything was closed
    S((1, A, START), (1, A, END), (1, B, NONE), (1, A, START), (1, C, NONE), (1, A, END)),
    S((1, A, START), (1, A, END), (1, A, END), (1, B, START), (1, B, END)),
    # the trace domain pairs only among itself
    S((1, A, START), (1, T1, NONE), (1, T2, ALL), (1, A, END)),
    S((1, T1, START), (1, A, NONE), (1, T2, NONE), (1, T1, END)),
    S((1, A, START), (1, T1, START), (1, B, NONE), (1, T2, NONE), (1, A, END), (1, T1, END)),
    S((1, T1, START), (1, A, START), (1, T1, END), (1, A, END)),
    S((1, T1, START), (2, T2, NONE), (1, T1, END)),
    # strings with continuation fragments
    S((1, TN, START), (1, TN, NONE), (1, B, NONE), (1, TN, END)),
    S((1, TN, NONE), (1, TN, ALL), (1, TN, END)),
    S((1, A, START), (1, TN, START), (1, TN, NONE), (1, TN, END), (1, A, END)),
    # undecoded / unknown codes open and close too, they just never produce anything
    S((1, U, START), (1, A, NONE), (1, U, END)),
    S((1, X, START), (1, A, START), (1, X, END), (1, A, END), (1, X, END)),
    S((1, A, START), (1, U, START), (1, X, START), (1, U, END), (1, X, END), (1, A, END)),
    # singles only
    S((1, A, NONE), (1, B, ALL), (2, C, NONE), (1, U, ALL), (1, X, NONE), (1, T1, NONE), (1, T2, ALL)),
    # tid 0 and a huge tid
    S((0, A, START), (2 ** 64 - 1, A, START), (0, B, NONE), (2 ** 64 - 1, A, END), (0, A, END)),
]


def random_stream(rng):
    tids = rng.sample([0, 1, 2, 7, 2 ** 40], rng.randint(1, 3))
    codes = rng.sample(ALL_CODES, rng.randint(1, 5))
    return [ev(rng.choice(tids), rng.choice(codes), rng.choice([NONE, START, START, END, END, ALL]))
            for _ in range(rng.randint(1, 40))]


def observable_difference():
    """ Private bookkeeping, not part of C04: what the parser keeps for a thread while / after it has open operations. """
    parser = TracesParser(CODES, {}, {})
    s, n, e = S((5, A, START), (5, B, NONE), (5, A, END))
    parser.feed(s)
    parser.feed(n)
    during = repr(parser.on_going_events).replace(repr(s), 'S').replace(repr(n), 'N')
    parser.feed(e)
    after = repr(parser.on_going_events)
    return f'on_going_events with START,NONE fed: {during} ; after the END: {after}'


def main():
    total = 0
    streams = list(HAND)
    rng = random.Random(404)
    streams += [random_stream(rng) for _ in range(600)]
    for stream in streams:
        try:
            total += check_stream(stream)
        except Violation as exc:
            print('C04 VIOLATION:', exc)
            return 1
    print(f'{len(streams)} streams ({len(HAND)} hand written), {total} traces checked: C04 holds')
    print('observable difference (private state only):', observable_difference())
    return 0


if __name__ == '__main__':
    sys.exit(main())
