"""
Demo for property C20 (composite traces reflect exactly the records nested in their window).

Run as:  cd /tmp/seed10_C20 && /venv/bin/python /tmp/seed_out10/C20/demo.py

Exits 0 on both the unchanged and the changed worktree.  Prints one line ("TIE-ORDER ...") which shows the only
observable difference introduced by the change: the relative order of launch mappings which share a load address.
"""
import os, sys; sys.path.insert(0, os.getcwd())  # noqa: E401,E702

import random
import struct
from uuid import UUID

import pykdebugparser
from pykdebugparser.kevent import Kevent
from pykdebugparser.trace_codes import default_trace_codes
from pykdebugparser.traces_parser import TracesParser
from pykdebugparser.trace_handlers.dyld import DyldLaunchExecutable, DyldUuidMapA, DyldUuidSharedCacheA
from pykdebugparser.trace_handlers.mach import MachVmfault, DbgVmFaultType, to_vm_prot
from pykdebugparser.trace_handlers.perf import PerfEvent, SamplerAction, to_callstack_flags

print('testing', pykdebugparser.__file__)

NONE, START, END = 0, 1, 2
TID = 4242

MACH_VMFAULT = 0x1300008
REAL_INTERNAL, REAL_PURGEABLE, REAL_EXTERNAL, REAL_SHARED = 0x1320008, 0x132000c, 0x1320010, 0x1320014
DECODED_REAL = (REAL_INTERNAL, REAL_EXTERNAL, REAL_SHARED)
MAP_A, MAP_B, UNMAP_A, SHARED_A, SHARED_B = 0x1f050000, 0x1f050004, 0x1f050014, 0x1f050028, 0x1f05002c
LAUNCH = 0x1f070004
PERF_EVENT, THD_DATA, STK_UDATA, STK_UHDR = 0x25000000, 0x25010004, 0x25020010, 0x25020018
MACH_SCHED = 0x1400000

_ts = [1000]


def ev(eventid, values, qual=NONE, tid=TID):
    _ts[0] += 7
    values = tuple(v & 0xffffffffffffffff for v in values)
    return Kevent(timestamp=_ts[0], data=struct.pack('<QQQQ', *values), values=values, tid=tid,
                  debugid=eventid | qual, eventid=eventid, func_qualifier=qual)


def noise(rnd):
    """ Records of the same thread that are unrelated to all three composites. """
    kind = rnd.randrange(3)
    if kind == 0:
        return ev(MACH_SCHED, (1, rnd.randrange(1000), 4, 81))
    if kind == 1:
        return ev(MAP_B, (rnd.getrandbits(60), 0, 0, 0))
    return ev(0x7fff0000, (1, 2, 3, 4))  # not in trace.codes at all


def run(events):
    return list(TracesParser(default_trace_codes(), {}, {}).feed_generator(events))


failures = []


def check(cond, msg):
    if not cond:
        failures.append(msg)


# ---------------------------------------------------------------------------------------------------------------
# 1. page fault
# ---------------------------------------------------------------------------------------------------------------
def vmfault_case(rnd):
    addr = rnd.getrandbits(40)
    result = rnd.choice([0, 0, 0, 1, 5])
    ftype = rnd.randrange(1, 12)
    nested = []
    for _ in range(rnd.randrange(0, 5)):
        if rnd.random() < 0.6:
            eid = rnd.choice([REAL_INTERNAL, REAL_PURGEABLE, REAL_EXTERNAL, REAL_SHARED])
            prot = rnd.getrandbits(8)
            arg1 = (rnd.getrandbits(8) << 16) | (prot << 8) | rnd.randrange(1, 12)
            nested.append(ev(eid, (rnd.getrandbits(40), arg1, rnd.getrandbits(20), rnd.randrange(1, 5000))))
        else:
            nested.append(noise(rnd))
    events = [ev(MACH_VMFAULT, (1, addr, rnd.randrange(2), 0), START)] + nested + \
             [ev(MACH_VMFAULT, (1, addr, result, ftype), END)]
    faults = [r for r in run(events) if isinstance(r, MachVmfault)]
    check(len(faults) == 1, f'vmfault: expected one composite, got {len(faults)}')
    fault = faults[0]
    check(fault.result == result, 'vmfault: result not taken from END record')
    if result == 0:
        check(fault.fault_type == DbgVmFaultType(ftype), 'vmfault: fault type not taken from END record')
        real = [e for e in nested if REAL_INTERNAL <= e.eventid <= REAL_SHARED]
        if real and real[0].eventid in DECODED_REAL:
            check(fault.pid == real[0].values[3], 'vmfault: pid not from first real-fault-address record')
            check(fault.caller_prot == to_vm_prot((real[0].values[1] >> 8) & 0xff),
                  'vmfault: protection not from first real-fault-address record')
        else:
            check(fault.pid is None and fault.caller_prot is None, 'vmfault: pid/prot should be omitted')
    str(fault)


# ---------------------------------------------------------------------------------------------------------------
# 2. launch
# ---------------------------------------------------------------------------------------------------------------
def mapping_key(kind, e):
    return (kind, UUID(bytes=e.data[:16]), e.values[2], e.values[3])


def launch_case(rnd, addr_pool):
    nested = []
    for _ in range(rnd.randrange(0, 9)):
        r = rnd.random()
        if r < 0.35:
            nested.append(ev(MAP_A, (rnd.getrandbits(64), rnd.getrandbits(64), rnd.choice(addr_pool), rnd.randrange(3))))
        elif r < 0.7:
            nested.append(ev(SHARED_A, (rnd.getrandbits(64), rnd.getrandbits(64), rnd.choice(addr_pool),
                                        rnd.randrange(3))))
        elif r < 0.8:
            nested.append(ev(UNMAP_A, (rnd.getrandbits(64), rnd.getrandbits(64), rnd.choice(addr_pool), 0)))
        else:
            nested.append(noise(rnd))
    mh = rnd.getrandbits(36)
    events = [ev(LAUNCH, (1, mh, 0, 0), START)] + nested + [ev(LAUNCH, (1, 0, 0, 3), END)]
    launches = [r for r in run(events) if isinstance(r, DyldLaunchExecutable)]
    check(len(launches) == 1, f'launch: expected one composite, got {len(launches)}')
    launch = launches[0]
    check(launch.main_executable_mh == mh, 'launch: main_executable_mh')
    expected = sorted([mapping_key('map', e) for e in nested if e.eventid == MAP_A] +
                      [mapping_key('shared', e) for e in nested if e.eventid == SHARED_A], key=repr)
    got = []
    for m in launch.uuid_map_a:
        check(type(m) in (DyldUuidMapA, DyldUuidSharedCacheA), f'launch: foreign record {type(m).__name__} listed')
        got.append(('map' if type(m) is DyldUuidMapA else 'shared', m.uuid, m.load_addr, m.fsid))
    # every nested image-map / shared-cache-map record is listed, nothing else is (multiset equality) ...
    check(sorted(got, key=repr) == expected, 'launch: listed records differ from the nested mapping records')
    # ... sorted by load address.
    addrs = [m.load_addr for m in launch.uuid_map_a]
    check(all(a <= b for a, b in zip(addrs, addrs[1:])), 'launch: not sorted by load address')
    str(launch)
    return launch


# ---------------------------------------------------------------------------------------------------------------
# 3. sampler
# ---------------------------------------------------------------------------------------------------------------
def perf_case(rnd, flags):
    nested = []
    for _ in range(rnd.randrange(0, 8)):
        r = rnd.random()
        if r < 0.2:
            nested.append(ev(THD_DATA, (rnd.randrange(1, 999), TID, rnd.getrandbits(36), rnd.getrandbits(7))))
        elif r < 0.4:
            nested.append(ev(STK_UHDR, (rnd.getrandbits(9), rnd.randrange(0, 10), 0, 0)))
        elif r < 0.75:
            nested.append(ev(STK_UDATA, tuple(rnd.getrandbits(40) for _ in range(4))))
        else:
            nested.append(noise(rnd))
    events = [ev(PERF_EVENT, (flags, 32, 0, 0), START)] + nested + [ev(PERF_EVENT, (flags, 0, 0, 0), END)]
    samples = [r for r in run(events) if isinstance(r, PerfEvent)]
    check(len(samples) == 1, f'perf: expected one composite, got {len(samples)}')
    sample = samples[0]
    thd = [e for e in nested if e.eventid == THD_DATA]
    hdr = [e for e in nested if e.eventid == STK_UHDR]
    data = [e for e in nested if e.eventid == STK_UDATA]
    if flags & SamplerAction.SAMPLER_TH_INFO.value and thd:
        check(sample.th_info is not None and (sample.th_info.pid, sample.th_info.tid) == thd[0].values[:2],
              'perf: thread info missing / wrong')
    else:
        check(sample.th_info is None, 'perf: thread info must be absent')
    if flags & SamplerAction.SAMPLER_USTACK.value and hdr:
        frames = [f for e in data for f in e.values][:hdr[0].values[1]]
        check(sample.cs_frames == frames, 'perf: user stack frames missing / wrong')
        check(sample.cs_flags == to_callstack_flags(hdr[0].values[0]), 'perf: user stack flags missing / wrong')
    else:
        check(sample.cs_frames is None and sample.cs_flags is None, 'perf: user stack must be absent')
    str(sample)


def main():
    rnd = random.Random(20)
    for _ in range(60):
        vmfault_case(rnd)
    for i in range(60):
        # a small pool makes equal load addresses frequent, a large one makes them rare
        pool = [0x180000000 + 0x4000 * k for k in range(3 if i % 2 else 64)]
        launch_case(rnd, pool)
    for i in range(64):
        perf_case(rnd, [0x0, 0x1, 0x8, 0x9, 0x4, 0x1 | 0x4, 0x8 | 0x10, 0x9 | 0x2][i % 8])

    # The observable difference: a shared-cache map emitted BEFORE an image map with the same load address.
    rnd = random.Random(1)
    nested = [ev(SHARED_A, (0x1111, 0x2222, 0x180000000, 0)), ev(MAP_A, (0x3333, 0x4444, 0x180000000, 0))]
    events = [ev(LAUNCH, (1, 0x100000000, 0, 0), START)] + nested + [ev(LAUNCH, (1, 0, 0, 3), END)]
    launch = [r for r in run(events) if isinstance(r, DyldLaunchExecutable)][0]
    print('TIE-ORDER for [shared_cache_a@0x180000000, map_a@0x180000000] emitted in that order ->',
          [type(m).__name__ for m in launch.uuid_map_a])

    if failures:
        print(f'{len(failures)} FAILURES')
        for f in sorted(set(failures)):
            print('  ', f)
        sys.exit(1)
    print('C20 holds on all 184 generated windows')


if __name__ == '__main__':
    main()
