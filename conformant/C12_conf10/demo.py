import os, sys; sys.path.insert(0, os.getcwd())  # noqa: E401,E702

"""
C12 demo: event filters select exactly the matching subsequence.

Run as:  cd /tmp/seed10_C12 && /venv/bin/python /tmp/seed_out10/C12/demo.py

Exits 0 on the unchanged and on the changed code.  The oracle is derived from the statement only:
  filtered listing == [r for r in unfiltered listing if r satisfies the filter]   (order, multiplicity kept)
and never looks at implementation details (return type, private helpers, laziness).
"""

import itertools
import plistlib
import struct
import tempfile
from io import BytesIO

from click.testing import CliRunner

import pykdebugparser
from pykdebugparser.__main__ import cli
from pykdebugparser.kd_buf_parser import (KdBufParser, kd_header_v3, kd_threadmap, RAW_VERSION2_BYTES,
                                          RAW_VERSION3_BYTES, TRACEV3_STACKSHOT_END, TRACEV3_THREADMAP_TAG,
                                          TRACEV3_EVENTS_TAG, TRACEV3_MORE_EVENTS, TRACEV3_LOG_EVENTS,
                                          TRACEV3_LOG_STRINGS, TRACEV3_PROCESSES)
from pykdebugparser.kevent import KD_BUF_FORMAT
from pykdebugparser.os_log_event import OsLogEvent
from pykdebugparser.pykdebugparser import PyKdebugParser
from construct import Aligned, Int64ul

print('testing', pykdebugparser.__file__)


# ----------------------------------------------------------------------------------------------------------------------
# stream builders
# ----------------------------------------------------------------------------------------------------------------------

def kd_buf(timestamp, tid, debugid, args=(0, 0, 0, 0)):
    assert timestamp & 0xff, 'low byte must not be zero (v2 header padding is greedy)'
    return struct.pack(KD_BUF_FORMAT, timestamp, struct.pack('<QQQQ', *args), tid, debugid, 0, 0)


def threadmap_bytes(threads):
    return b''.join(kd_threadmap.build(dict(tid=tid, pid=pid, process=name)) for tid, pid, name in threads)


def build_v2(threads, events):
    header = struct.pack('<I', len(threads)) + b'\x00' * 8 + b'\x00' * 4 + struct.pack('<IQ', 1, 24000000)
    header += b'\x00' * 0x100
    return RAW_VERSION2_BYTES + header + threadmap_bytes(threads) + b''.join(events)


def block(tag, data):
    pad = (-(8 + len(data))) % 8
    return tag + struct.pack('<Q', len(data)) + data + b'\x00' * pad


def build_v3(threads, event_chunks, raw_logs, strings):
    header = Aligned(8, kd_header_v3).build(dict(
        tag=0x00001000, sub_tag=0, length=0, timebase_numer=125, timebase_denom=3, timestamp=1, walltime_secs=1,
        walltime_usecs=0, timezone_minuteswest=0, timezone_dst=0, flags=0, tag2=0, cpu_info={'n': 1}))
    out = RAW_VERSION3_BYTES + header + b'\x00' * 4
    out += b'junkjunk' + TRACEV3_STACKSHOT_END
    tm = threadmap_bytes(threads)
    out += TRACEV3_THREADMAP_TAG + Int64ul.build(len(tm)) + tm
    for i, chunk in enumerate(event_chunks):
        data = b''.join(chunk)
        if i:
            out += TRACEV3_MORE_EVENTS
        out += TRACEV3_EVENTS_TAG + Int64ul.build(len(data)) + b'\x00' * 8 + data
    out += block(TRACEV3_PROCESSES, plistlib.dumps({'demo': 1}))
    out += block(TRACEV3_LOG_STRINGS, plistlib.dumps({'StringIndex': {s: i for i, s in strings.items()}}))
    half = len(raw_logs) // 2
    out += block(TRACEV3_LOG_EVENTS, plistlib.dumps({'Events': raw_logs[:half]}))
    out += block(TRACEV3_LOG_EVENTS, plistlib.dumps({'Events': raw_logs[half:]}))
    return out


def raw_log(cm, tid, p=None, pid=None, sec=1633872873):
    event = {'cm': cm, 't': 1024, 's': 10, 'tid': tid, 'ns': 5, 'mct': 7, 'b': b'B' * 16, 'piu': b'P' * 16,
             'ud': {'sec': sec, 'usec': 250000}, 'utz': {'mw': 0, 'dt': 0}}
    if p is not None:
        event['p'] = p
    if pid is not None:
        event['pid'] = pid
    return event


def dbg(klass, subclass, code, qual=0):
    return (klass << 24) | (subclass << 16) | (code << 2) | qual


T1, T2, T3 = 0x111, 0x222, 645241
THREADS = [(T1, 70, 'locationd'), (T2, 71, 'launchd'), (T3, 72, 'kernel_task')]

EVENTS = [
    kd_buf(0x101, T1, dbg(4, 0x0c, 3, 1)),              # BSC read start
    kd_buf(0x102, T2, dbg(4, 0x0c, 3, 1)),
    kd_buf(0x103, T1, dbg(4, 0x0c, 3, 2)),              # BSC read end
    kd_buf(0x103, T1, dbg(4, 0x0c, 3, 2)),              # exact duplicate (multiplicity)
    kd_buf(0x104, T1, dbg(1, 0x40, 0, 0)),              # MACH sched
    kd_buf(0x105, T3, dbg(1, 0x0c, 5, 0)),              # MACH excp-ish: subclass byte 0x0c like BSC, other class
    kd_buf(0x106, T2, dbg(4, 0x01, 9, 3)),              # BSD subclass 1
    kd_buf(0x107, T1, dbg(3, 0x01, 36, 0)),             # FSYSTEM
    kd_buf(0x108, T1, dbg(0xff, 0xff, 0x3fff, 3)),      # highest class / subclass
    kd_buf(0x109, T2, dbg(0, 0, 1, 0)),                 # class 0
    kd_buf(0x10a, 0, dbg(7, 1, 2, 0)),                  # tid 0, TRACE class
    kd_buf(0x10b, T3, dbg(37, 0, 1, 0)),                # PERF
    kd_buf(0x10c, T2, dbg(4, 0x0c, 3, 2)),
    kd_buf(0x10d, 0xffffffffffffffff, dbg(4, 0x0c, 1, 0)),  # largest tid
    kd_buf(0x10e, T1, dbg(0x31, 0xca, 1, 0)),
    kd_buf(0x102, T2, dbg(4, 0x0c, 3, 1)),              # duplicate of the 2nd, far apart
]

STRINGS = {1: 'hello', 2: 'world', 3: 'locationd', 4: 'launchd', 5: '70', 6: 'same text', 7: ''}
LOGS = [
    raw_log(1, T1, p=3, pid=70),
    raw_log(2, T2, p=4, pid=71),
    raw_log(6, T1, p=3, pid=70),
    raw_log(6, T1, p=3, pid=70),       # exact duplicate
    raw_log(1, T2, p=5, pid=5),        # process literally named '70'
    raw_log(2, 0x999),                 # neither a process nor a pid
    raw_log(1, T3, pid=70),            # a pid, no name
    raw_log(6, T1, p=4, pid=71),       # T1 logging for another process
    raw_log(2, T2, p=7, pid=0),        # empty name
]

STREAMS = {
    'v2': build_v2(THREADS, EVENTS),
    'v2-empty': build_v2([], []),
    'v3-one-chunk': build_v3(THREADS, [EVENTS], LOGS, STRINGS),
    'v3-chunks': build_v3(THREADS, [EVENTS[:5], EVENTS[5:6], EVENTS[6:]], LOGS[::-1], STRINGS),
    'v3-no-logs': build_v3(THREADS, [EVENTS[::-1]], [], STRINGS),
    'v3-no-events': build_v3(THREADS, [[]], LOGS, STRINGS),
}

TIDS = [None, T1, T2, T3, 0, 0x999, 0xffffffffffffffff, 12345]
CLASSES = [[], [4], [4, 4], [1, 4], [0xff], [0], [2], (4, 3), [7, 37, 1, 3, 4, 0, 0xff, 0x31]]
SUBCLASSES = [[], [0x040c], [0x040c, 0x040c], [0x0401, 0x040c], [0x010c], [0xffff], [0x0000], (0x0140,), [0x0c04]]
PROCESSES = [None, 'locationd', 'launchd', '70', '71', '5', '0', '', 'nobody', 'location']

failures = []
checks = 0


def check(cond, *what):
    global checks
    checks += 1
    if not cond:
        failures.append(what)


def make_parser(tid=None, classes=None, subclasses=None, process=None):
    parser = PyKdebugParser()
    parser.filter_tid = tid
    parser.filter_process = process
    if classes is not None:     # None: attribute left at its default ("absent" filter)
        parser.filter_class = classes
    if subclasses is not None:
        parser.filter_subclass = subclasses
    return parser


def event_ok(event, tid, classes, subclasses):
    """The filter of the statement."""
    classes = classes or []
    subclasses = subclasses or []
    if tid is not None and event.tid != tid:
        return False
    if classes or subclasses:
        return (event.eventid >> 24) in classes or (event.eventid >> 16) in subclasses
    return True


def log_ok(log, tid, process):
    if tid is not None and log.thread_identifier != tid:
        return False
    if process is not None:
        return process == log.process or process == str(log.process_identifier)
    return True


# ----------------------------------------------------------------------------------------------------------------------
# library level
# ----------------------------------------------------------------------------------------------------------------------

for name, data in STREAMS.items():
    records = list(KdBufParser({}, {}).parse(BytesIO(data)))
    all_events = list(make_parser().kevents(BytesIO(data)))
    all_logs = list(make_parser().os_log_events(BytesIO(data)))
    all_events_fmt = list(make_parser().formatted_kevents(BytesIO(data)))
    all_logs_fmt = list(make_parser().formatted_logs(BytesIO(data)))

    # the two listings partition the records: no log among the events, no event among the logs
    check(all(not isinstance(e, OsLogEvent) for e in all_events), name, 'log record in the event listing')
    check(all(isinstance(e, OsLogEvent) for e in all_logs), name, 'event in the log listing')
    check(all_events == [r for r in records if not isinstance(r, OsLogEvent)], name, 'unfiltered events')
    check(all_logs == [r for r in records if isinstance(r, OsLogEvent)], name, 'unfiltered logs')
    check(len(all_events_fmt) == len(all_events) and len(all_logs_fmt) == len(all_logs), name, 'formatted lengths')
    if name == 'v2':
        check(len(all_events) == len(EVENTS), name, 'event count')
    if name == 'v3-one-chunk':
        check(len(all_events) == len(EVENTS) and len(all_logs) == len(LOGS), name, 'record counts')

    configs = list(itertools.product(TIDS, CLASSES, SUBCLASSES))
    configs += [(tid, None, None) for tid in TIDS]                       # absent lists
    configs += [(tid, None, sc) for tid in TIDS[:3] for sc in SUBCLASSES[:1]]
    configs += [(tid, c, None) for tid in TIDS[:3] for c in CLASSES]
    for tid, classes, subclasses in configs:
        keep = [i for i, e in enumerate(all_events) if event_ok(e, tid, classes, subclasses)]
        got = list(make_parser(tid, classes, subclasses).kevents(BytesIO(data)))
        check(got == [all_events[i] for i in keep], name, 'kevents', tid, classes, subclasses)
        check(all(not isinstance(e, OsLogEvent) for e in got), name, 'log in filtered events', tid)
        got_fmt = list(make_parser(tid, classes, subclasses).formatted_kevents(BytesIO(data)))
        check(got_fmt == [all_events_fmt[i] for i in keep], name, 'formatted_kevents', tid, classes, subclasses)

    for tid, process in itertools.product(TIDS, PROCESSES):
        keep = [i for i, e in enumerate(all_logs) if log_ok(e, tid, process)]
        # class / subclass filters are not part of the log filter: set them to show they are ignored
        got = list(make_parser(tid, [4], [0x010c], process).os_log_events(BytesIO(data)))
        check(got == [all_logs[i] for i in keep], name, 'os_log_events', tid, process)
        check(all(isinstance(e, OsLogEvent) for e in got), name, 'event in filtered logs', tid, process)
        got_fmt = list(make_parser(tid, None, None, process).formatted_logs(BytesIO(data)))
        check(got_fmt == [all_logs_fmt[i] for i in keep], name, 'formatted_logs', tid, process)

    # the same parser object used for several listings, consumed one after the other
    parser = make_parser(T1, [4], [0x0140])
    first = list(parser.kevents(BytesIO(data)))
    parser.filter_tid, parser.filter_class, parser.filter_subclass = T2, [], [0x040c]
    second = list(parser.kevents(BytesIO(data)))
    check(first == [e for e in all_events if event_ok(e, T1, [4], [0x0140])], name, 'reuse 1')
    check(second == [e for e in all_events if event_ok(e, T2, [], [0x040c])], name, 'reuse 2')

# ----------------------------------------------------------------------------------------------------------------------
# command line level (the other code anchor)
# ----------------------------------------------------------------------------------------------------------------------

runner = CliRunner()
with tempfile.TemporaryDirectory() as tmp:
    for name in ('v2', 'v3-chunks'):
        path = os.path.join(tmp, name + '.bin')
        with open(path, 'wb') as f:
            f.write(STREAMS[name])
        all_events = list(make_parser().kevents(BytesIO(STREAMS[name])))
        all_logs = list(make_parser().os_log_events(BytesIO(STREAMS[name])))

        def run(*args):
            result = runner.invoke(cli, list(args))
            check(result.exit_code == 0, name, 'cli exit', args, result.exception)
            return result.output.splitlines()

        base = run('kevents', path)
        check(len(base) == len(all_events), name, 'cli kevents unfiltered length')
        cli_configs = [(None, [4], []), (T1, [], []), (T1, [4], [0x010c]), (T2, [4, 4], [0x040c]),
                       (None, [], [0x040c, 0x0401]), (T3, [1], []), (12345, [], []), (None, [2], [0x0c04]),
                       (0, [7], [])]
        for tid, classes, subclasses in cli_configs:
            args = ['kevents', path]
            if tid is not None:
                args += ['--tid', str(tid)]
            for c in classes:
                args += ['-cf', hex(c)]
            for sc in subclasses:
                args += ['-sf', hex(sc)]
            keep = [i for i, e in enumerate(all_events) if event_ok(e, tid, classes, subclasses)]
            check(run(*args) == [base[i] for i in keep], name, 'cli kevents', tid, classes, subclasses)

        base = run('logs', path)
        check(len(base) == len(all_logs), name, 'cli logs unfiltered length')
        for tid, process in [(None, 'locationd'), (T1, None), (T1, '71'), (T2, '70'), (None, '70'), (T3, 'nobody')]:
            args = ['logs', path]
            if tid is not None:
                args += ['--tid', str(tid)]
            if process is not None:
                args += ['--process', process]
            keep = [i for i, e in enumerate(all_logs) if log_ok(e, tid, process)]
            check(run(*args) == [base[i] for i in keep], name, 'cli logs', tid, process)

# ----------------------------------------------------------------------------------------------------------------------
# what the statement leaves open (reported, never checked)
# ----------------------------------------------------------------------------------------------------------------------

data = STREAMS['v3-one-chunk']
parser = make_parser(None, [], [0x040c])
listing = parser.kevents(BytesIO(data))
kind = type(listing).__name__
parser.filter_subclass = []                 # changed after the listing was requested, before it is consumed
late = len(list(listing))
try:
    parser = PyKdebugParser()
    parser.filter_class = None
    parser.filter_subclass = [0x040c]
    none_class = '%d events' % len(list(parser.kevents(BytesIO(data))))
except TypeError:
    none_class = 'TypeError'
print(f'observable difference: kevents() returns a {kind}; subclass filter emptied between the call and the '
      f'consumption -> {late} events (7 = filter as it was at the call, 0 = half applied); '
      f'filter_class=None with a subclass filter -> {none_class}; '
      f'private _is_eventid_allowed present: {hasattr(PyKdebugParser, "_is_eventid_allowed")}')

print(f'{checks} checks, {len(failures)} failures')
for failure in failures[:20]:
    print('FAIL', failure)
sys.exit(1 if failures else 0)
