import os, sys; sys.path.insert(0, os.getcwd())  # noqa: E401,E702  (test the worktree copy, not the editable install)

"""
Demo for property C14 (lines name the process the dump declares for the thread; columns compose).

Run as:  cd /tmp/seed10_C14 && /venv/bin/python /tmp/seed_out10/C14/demo.py

The oracle is derived from the statement only:
 * composition: the text of a column is what the line shows when ONLY that column is enabled; every one of the 2^6
   configurations must then be the concatenation, in the fixed order timestamp, name, qualifier, thread id, process,
   body, of the texts of its enabled columns (so switching a column off removes exactly that column);
 * colouring: the line with the escape sequences removed is the uncoloured line;
 * content: the process column (padding removed) is "name(pid)" of the process that the dump declares for the
   emitting thread at that point of the stream - the thread map, superseded by the new-thread, terminate-pid and
   sampler records up to that point - and a thread that was never declared is not shown as any "name(pid)".
The widths / padding / separators of the columns are NOT part of the statement and are not checked.
"""
import itertools
import random
import re
import struct
from datetime import timezone, timedelta
from io import BytesIO

import pykdebugparser
from pykdebugparser.kd_buf_parser import RAW_VERSION2_BYTES
from pykdebugparser.kevent import DgbFuncQual
from pykdebugparser.pykdebugparser import PyKdebugParser
from pykdebugparser.trace_codes import default_trace_codes

print('testing', pykdebugparser.__file__)

CODES = default_trace_codes()
NEWTHREAD = 0x7000004
THREAD_TERMINATE = 0x700000c
TERMINATE_PID = 0x7000010
STRING_NEWTHREAD = 0x7010004
PERF_THD_DATA = 0x25010004
PERF_THD_CSWITCH = 0x25010014
UNKNOWN_CODE = 0x2bad0000  # not in trace.codes: shown by kevents, no trace
assert UNKNOWN_CODE not in CODES

FLAGS = ['show_timestamp', 'show_name', 'show_func_qual', 'show_tid', 'show_process', 'show_args']
ANSI = re.compile(r'\x1b\[[0-9;]*m')


def kd_buf(timestamp, tid, debugid, args=(0, 0, 0, 0), data=None):
    payload = struct.pack('<QQQQ', *args) if data is None else data.ljust(32, b'\x00')
    return struct.pack('<Q32sQIIQ', timestamp, payload, tid, debugid, 0, 0)


def dump_v2(threadmap, records):
    """ threadmap: [(tid, pid, name)], records: [bytes] """
    buf = RAW_VERSION2_BYTES + struct.pack('<I', len(threadmap)) + b'\x00' * (0x11c - 4)
    for tid, pid, name in threadmap:
        buf += struct.pack('<QI', tid, pid) + name.encode().ljust(0x14, b'\x00')
    return buf + b''.join(records)


class Model:
    """ What the dump declares: statement, second sentence. """

    def __init__(self, threadmap):
        self.thread_pid = {}
        self.pid_name = {}
        for tid, pid, name in threadmap:
            self.thread_pid[tid] = pid
            self.pid_name[pid] = name
        self.last_newthread_pid = {}

    def apply(self, ev):
        code, tid, args = ev['code'], ev['tid'], ev['args']
        if code == NEWTHREAD:
            self.thread_pid[args[0]] = args[1]
            self.last_newthread_pid[tid] = args[1]
        elif code == TERMINATE_PID:
            self.thread_pid[tid] = args[0]
        elif code == PERF_THD_DATA:
            self.thread_pid[args[1]] = args[0]
        elif code == STRING_NEWTHREAD and tid in self.last_newthread_pid:
            self.pid_name[self.last_newthread_pid[tid]] = ev['name']

    def process(self, tid):
        """ None: never declared. """
        if tid not in self.thread_pid:
            return None
        pid = self.thread_pid[tid]
        return f'{self.pid_name.get(pid, "")}({pid})'


def check_process_text(text, expected, tid, where):
    if expected is not None:
        assert text == expected, f'{where}: process column {text!r}, the dump declares {expected!r}'
    else:
        assert not re.search(r'\(\d+\)$', text), f'{where}: undeclared thread {tid} attributed to {text!r}'
        assert str(tid) in text or hex(tid) in text, f'{where}: undeclared thread {tid} not identified: {text!r}'


def configure(parser, cfg, color, timebase):
    for flag, value in zip(FLAGS, cfg):
        setattr(parser, flag, value)
    parser.color = color
    if timebase:
        parser.numer, parser.denom = 125, 3
        parser.mach_absolute_time = 1000
        parser.usecs_since_epoch = 1_700_000_000_000_000
        parser.timezone = timezone(timedelta(hours=2))


def render(method, dump, cfg, color, timebase):
    parser = PyKdebugParser()
    configure(parser, cfg, color, timebase)
    return list(getattr(parser, method)(BytesIO(dump)))


def only(*names):
    return tuple(f in names for f in FLAGS)


ALL_CFGS = list(itertools.product([False, True], repeat=len(FLAGS)))


def check_kevents(threadmap, events, dump, timebase):
    singles = {f: render('formatted_kevents', dump, only(f), False, timebase) for f in FLAGS}
    for f in FLAGS:
        assert len(singles[f]) == len(events), 'one line per event'
    model = Model(threadmap)  # kevents: no trace parsing, only the thread map is declared
    for i, ev in enumerate(events):
        where = f'kevents line {i}'
        if not timebase:
            assert singles['show_timestamp'][i].strip() == str(ev['timestamp']), where
        assert hex(ev['code']) in singles['show_name'][i], where
        if ev['code'] in CODES:
            assert CODES[ev['code']] in singles['show_name'][i], where
        assert singles['show_func_qual'][i].strip() == DgbFuncQual(ev['qual']).name, where
        assert singles['show_tid'][i].strip() == hex(ev['tid']), where
        check_process_text(singles['show_process'][i].strip(), model.process(ev['tid']), ev['tid'], where)
        assert singles['show_args'][i].strip() == str(ev['data']), where
    for cfg in ALL_CFGS:
        plain = render('formatted_kevents', dump, cfg, False, timebase)
        colored = render('formatted_kevents', dump, cfg, True, timebase)
        assert len(plain) == len(colored) == len(events)
        for i in range(len(events)):
            expected = ''.join(singles[f][i] for f, on in zip(FLAGS, cfg) if on)
            assert plain[i] == expected, f'kevents line {i} cfg {cfg}: {plain[i]!r} != {expected!r}'
            assert ANSI.sub('', colored[i]) == plain[i], f'kevents line {i} cfg {cfg}: colouring changed the text'


def check_traces(threadmap, events, dump, timebase):
    traced = [ev for ev in events if ev['code'] in CODES]  # every such record here is a single-record trace
    bodies = render('formatted_traces', dump, only(), False, timebase)
    assert len(bodies) == len(traced), 'one line per traced record'
    prefix_flags = ['show_timestamp', 'show_tid', 'show_process']
    singles = {}
    for f in prefix_flags:
        lines = render('formatted_traces', dump, only(f), False, timebase)
        assert len(lines) == len(traced)
        singles[f] = []
        for line, body in zip(lines, bodies):
            assert line.endswith(body), f'traces: body altered by {f}'
            singles[f].append(line[:len(line) - len(body)])
    model = Model(threadmap)
    pending = iter(events)
    for i, ev in enumerate(traced):
        # the declarations up to this point of the stream (records without a trace line included)
        for earlier in pending:
            model.apply(earlier)
            if earlier is ev:
                break
        where = f'traces line {i}'
        if not timebase:
            assert singles['show_timestamp'][i].strip() == str(ev['timestamp']), where
        assert singles['show_tid'][i].strip() == str(ev['tid']), where
        check_process_text(singles['show_process'][i].strip(), model.process(ev['tid']), ev['tid'], where)
    for cfg in ALL_CFGS:
        plain = render('formatted_traces', dump, cfg, False, timebase)
        colored = render('formatted_traces', dump, cfg, True, timebase)
        assert len(plain) == len(colored) == len(traced)
        for i in range(len(traced)):
            expected = ''.join(singles[f][i] for f, on in zip(FLAGS, cfg) if on and f in prefix_flags) + bodies[i]
            assert plain[i] == expected, f'traces line {i} cfg {cfg}: {plain[i]!r} != {expected!r}'
            assert ANSI.sub('', colored[i]) == plain[i], f'traces line {i} cfg {cfg}: colouring changed the text'


NAMES = ['launchd', 'kernel_task', 'a', 'x' * 19, 'my proc', 'p(1)', 'Error: tid 7', '', 'SpringBoard', 'logd']
LONG_NAMES = ['com.apple.WebKit.WebContent.XYZ', 'n' * 32, 'short']


def make_input(rnd):
    tids = rnd.sample([1, 2, 7, 258, 0x1000, 645241, 0xabcdef0123, 0x123456789abcdef0, 2 ** 64 - 1, 99, 100, 101], 7)
    pids = rnd.sample([0, 1, 5, 77, 454, 65535, 123456, 4000000000, 2 ** 32 - 1], 5)
    threadmap = [(rnd.choice(tids[:5]), rnd.choice(pids), rnd.choice(NAMES)) for _ in range(rnd.randrange(0, 6))]
    events = []
    timestamp = 1001
    for _ in range(rnd.randrange(4, 11)):
        tid = rnd.choice(tids)
        kind = rnd.choice(['newthread', 'newthread+string', 'terminate_pid', 'sampler', 'cswitch', 'terminate',
                           'unknown_code'])
        qual = 0
        name = None
        if kind.startswith('newthread'):
            # pids that the thread map does not name are declared too, some of them wider than 32 bits
            code, args = NEWTHREAD, (rnd.choice(tids), rnd.choice(pids + [31337, 2 ** 40 + 5]), 0, rnd.randrange(999))
        elif kind == 'terminate_pid':
            code, args = TERMINATE_PID, (rnd.choice(pids), rnd.randrange(999), 0, 0)
        elif kind == 'sampler':
            code, args = PERF_THD_DATA, (rnd.choice(pids), rnd.choice(tids), 0xffffff8000001000, rnd.randrange(128))
        elif kind == 'cswitch':
            code, args = PERF_THD_CSWITCH, (rnd.choice(tids), rnd.choice(pids), 0, 0)
        elif kind == 'terminate':
            code, args = THREAD_TERMINATE, (rnd.choice(tids), 0, 0, 0)
        else:
            code, args, qual = UNKNOWN_CODE, tuple(rnd.randrange(2 ** 64) for _ in range(4)), rnd.randrange(4)
        events.append(dict(timestamp=timestamp, tid=tid, code=code, qual=qual, args=args, name=name))
        timestamp += rnd.randrange(1, 5000)
        if kind == 'newthread+string':
            name = rnd.choice(LONG_NAMES)
            events.append(dict(timestamp=timestamp, tid=tid, code=STRING_NEWTHREAD, qual=0, args=None, name=name))
            timestamp += rnd.randrange(1, 5000)
    records = []
    for ev in events:
        if ev['args'] is None:
            ev['data'] = ev['name'].encode().ljust(32, b'\x00')
            ev['args'] = struct.unpack('<QQQQ', ev['data'])
        else:
            ev['data'] = struct.pack('<QQQQ', *ev['args'])
        records.append(kd_buf(ev['timestamp'], ev['tid'], ev['code'] | ev['qual'], data=ev['data']))
    return threadmap, events, dump_v2(threadmap, records)


def main():
    rnd = random.Random(14)
    count = 36
    for n in range(count):
        threadmap, events, dump = make_input(rnd)
        timebase = n % 3 == 2
        check_kevents(threadmap, events, dump, timebase)
        check_traces(threadmap, events, dump, timebase)
    print(f'{count} dumps x 64 configurations x colour on/off x (formatted_kevents, formatted_traces): property holds')

    # The observable difference (not pinned by the statement): a column text wider than its column.
    tid = 0x123456789abcdef0
    dump = dump_v2([(tid, 4000000000, 'x' * 19)], [kd_buf(1001, tid, PERF_THD_CSWITCH, (1, 2, 0, 0))])
    parser = PyKdebugParser()
    parser.show_timestamp = parser.show_name = parser.show_func_qual = False
    parser.show_tid = True
    line = next(iter(parser.formatted_kevents(BytesIO(dump))))
    print('observable difference, kevent line with a 64-bit tid and a long process (tid|process|args):', repr(line[:72]))


if __name__ == '__main__':
    main()
