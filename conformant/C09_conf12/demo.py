import os, sys; sys.path.insert(0, os.getcwd())  # noqa: E401,E702  (the worktree copy, not the editable install)
"""
C09 demo: syscall / Mach trap arguments are rendered from the matching START argument, in order.

Run as:  cd /tmp/seed12_C09 && /venv/bin/python /tmp/seed_out12/C09/demo.py

The oracle is derived from the statement only:
  * the call part is  name(p0, p1, ...)  -- everything up to the parenthesis that closes the first one;
  * every parameter p_k that is a number (decimal, negative decimal or 0x...) must be one of the forms of the k-th word
    of the START record (unsigned 64, signed 64, unsigned 32, signed 32) -- hence never another argument and never a
    word of another record (the words are chosen pairwise different in all forms);
  * enum valued parameters must be the name of the member whose value is the k-th START word;
  * the call part must be the same whatever the END record (and unrelated interleaved records) contain.
What follows the call part (", result: ...", ", errno: ...", ", count: ...") is NOT constrained by C09 and is ignored.
"""
import re

import pykdebugparser
from pykdebugparser.kevent import Kevent
from pykdebugparser.trace_codes import default_trace_codes
from pykdebugparser.traces_parser import TracesParser

print('testing', pykdebugparser.__file__)

CODES = default_trace_codes()
IDS = {}
for _id, _name in CODES.items():
    IDS.setdefault(_name, _id)

TID = 0x4d2
M64 = (1 << 64) - 1


def kevent(name, qual, values, ts, data=None):
    eventid = IDS[name]
    if data is None:
        data = b''.join(v.to_bytes(8, 'little') for v in values)
    return Kevent(timestamp=ts, data=data, values=tuple(values), tid=TID, debugid=eventid | qual, eventid=eventid,
                  func_qualifier=qual)


def lookup(path, ts):
    raw = (0x1234).to_bytes(8, 'little') + path.encode().ljust(24, b'\x00')
    return kevent('VFS_LOOKUP', 3, (0x1234, 0, 0, 0), ts, data=raw[:32])


def render(name, start_args, end_values, path=None, noise=False):
    parser = TracesParser(CODES, {}, {})
    events = [kevent(name, 1, start_args, 1000)]
    if path is not None:
        events.append(lookup(path, 1001))
    if noise:
        # a record of the same thread that has nothing to do with the call
        events.append(kevent('MACH_Pageout', 0, (0x5151515151, 0x6161616161, 0x7171717171, 0x8181818181), 1002))
    events.append(kevent(name, 2, end_values, 1003))
    out = [r for r in parser.feed_generator(events) if r is not None and r.ktraces[0].eventid == IDS[name]]
    assert len(out) == 1, (name, out)
    return str(out[0])


def split_call(text):
    """ -> (name, [params], rest) ; quote aware """
    start = text.index('(')
    depth, in_quote, params, cur = 0, False, [], ''
    for i in range(start, len(text)):
        c = text[i]
        if c == '"':
            in_quote = not in_quote
        if not in_quote:
            if c == '(':
                depth += 1
                if depth == 1:
                    continue
            elif c == ')':
                depth -= 1
                if depth == 0:
                    if cur or params:
                        params.append(cur)
                    return text[:start], [p.strip() for p in params], text[i + 1:]
            elif c == ',' and depth == 1:
                params.append(cur)
                cur = ''
                continue
        cur += c
    raise AssertionError('unbalanced: ' + text)


def forms(word):
    word &= M64
    s64 = word - (1 << 64) if word >> 63 else word
    u32 = word & 0xffffffff
    s32 = u32 - (1 << 32) if u32 >> 31 else u32
    return {word, s64, u32, s32}


NUMBER = re.compile(r'^-?(0x[0-9a-fA-F]+|\d+)$')


def check(name, start_args, enums=None, path=None):
    enums = enums or {}
    ends = [(0, 0, 0, 0), (5, 7777777, 8888888, 9999999), (0xdeadbeef00, 1, 2, 3), (M64, M64, M64, M64)]
    texts = [render(name, start_args, e, path) for e in ends]
    texts.append(render(name, start_args, ends[1], path, noise=True))
    calls = []
    for text in texts:
        fname, params, rest = split_call(text)
        calls.append((fname, tuple(params)))
        assert len(params) <= 4, text
        for k, p in enumerate(params):
            if NUMBER.match(p):
                value = int(p, 0)
                assert value in forms(start_args[k]), \
                    f'{text!r}: parameter {k} is {p}, START word {k} is {start_args[k]:#x}'
            elif k in enums:
                assert p == enums[k](start_args[k]).name, f'{text!r}: parameter {k} is {p}'
            elif p.startswith('"'):
                assert path is not None and p == f'"{path}"', text
    assert len(set(calls)) == 1, f'{name}: the call part depends on something else than START: {set(calls)}'
    return texts


from pykdebugparser.trace_handlers import bsd, mach  # noqa: E402

A = (0x203, 0x16bc02308, 0xa6fa0, 0x31)
B = (M64 - 28, 0xfffffff007134848, 0x8000000000000001, 0xffffffff)
C = (3, 4, 0x1122334455, 0x66778899aa)


def with_enum(args, **at):
    args = list(args)
    for k, v in at.items():
        args[int(k[1:])] = v
    return tuple(args)


CASES = []
for args in (A, B):
    CASES += [
        ('MSC_mach_vm_allocate_trap', args, None, None),
        ('MSC_kern_mach_vm_purgable_control_trap', args, None, None),
        ('MSC_mach_vm_deallocate_trap', args, None, None),
        ('MSC_mach_vm_protect_trap', args, None, None),
        ('MSC_mach_vm_map_trap', args, None, None),
        ('MSC_mach_port_deallocate_trap', args, None, None),
        ('MSC_mach_port_insert_member_trap', args, None, None),
        ('MSC_mach_port_extract_member_trap', args, None, None),
        ('MSC_mach_port_construct_trap', args, None, None),
        ('MSC_mach_port_destruct_trap', args, None, None),
        ('MSC_mach_port_guard_trap', args, None, None),
        ('MSC_mach_port_unguard_trap', args, None, None),
        ('MSC_mach_port_type_trap', args, None, None),
        ('MSC_mach_port_request_notification_trap', args, None, None),
        ('MSC_mach_msg2_trap', args, None, None),
        ('MSC_iokit_user_client', args, None, None),
        ('MSC_host_create_mach_voucher_trap', args, None, None),
        ('MSC_mk_timer_arm', args, None, None),
        ('BSC_read', args, None, None),
        ('BSC_write', args, None, None),
        ('BSC_pread', args, None, None),
        ('BSC_kill', args, None, None),
        ('BSC_select', args, None, None),
        ('BSC_wait4', args, None, None),
        ('BSC_mprotect', args, None, None),
        ('BSC_kevent', args, None, None),
        ('BSC_getdirentries64', args, None, None),
        ('BSC_workq_kernreturn', args, None, None),
        ('BSC_mknod', args, None, '/dev/some(thing), odd'),
    ]
for right in mach.MachPortRight:
    CASES.append(('MSC_mach_port_allocate_trap', with_enum(B, a1=right.value), {1: mach.MachPortRight}, None))
    CASES.append(('MSC_mach_port_mod_refs_trap', with_enum(A, a2=right.value), {2: mach.MachPortRight}, None))
for poly in mach.MachMsgTypeName:
    CASES.append(('MSC_mach_port_insert_right_trap', with_enum(B, a3=poly.value), {3: mach.MachMsgTypeName}, None))
for flavor in mach.MachPortFlavor:
    CASES.append(('MSC_mach_port_get_attributes_trap', with_enum(A, a2=flavor.value), {2: mach.MachPortFlavor}, None))
for option in mach.SwitchOption:
    CASES.append(('MSC_thread_switch', with_enum(C, a1=option.value), {1: mach.SwitchOption}, None))
for flags in mach.MkTimerFlags:
    CASES.append(('MSC_mk_timer_arm_leeway', with_enum(B, a1=flags.value), {1: mach.MkTimerFlags}, None))
for cmd in (bsd.FcntlCmd.F_GETFD, bsd.FcntlCmd.F_SETLKW, bsd.FcntlCmd.F_GETSIGSINFO):
    CASES.append(('BSC_sys_fcntl', with_enum(B, a1=cmd.value), {1: bsd.FcntlCmd}, None))
for which in bsd.PriorityWhich:
    CASES.append(('BSC_setpriority', with_enum(A, a0=which.value), {0: bsd.PriorityWhich}, None))
CASES.append(('BSC_socket', (bsd.AddressFamily.AF_INET6.value, bsd.SocketKind.SOCK_DGRAM.value, 17, 0x99),
              {0: bsd.AddressFamily, 1: bsd.SocketKind}, None))

failures = 0
for name, args, enums, path in CASES:
    try:
        check(name, args, enums, path)
    except AssertionError as e:
        failures += 1
        print('C09 VIOLATED:', e)

# the same record opening and closing the list (DBG_FUNC_ALL): the arguments are still the ones of that record
parser = TracesParser(CODES, {}, {})
lone = [r for r in parser.feed_generator([kevent('MSC_mach_vm_map_trap', 3, A, 5)])]
fname, params, rest = split_call(str(lone[0]))
if [int(p, 0) for p in params] != list(A):
    failures += 1
    print('C09 VIOLATED (lone record):', str(lone[0]))

print(f'{len(CASES) + 1} cases x 5 END/noise variants checked, {failures} violation(s) of C09')

sample = render('MSC_mach_vm_allocate_trap', (515, 0x16bc02308, 0xa6fa0, 1), (0, 0, 0, 0))
sample2 = render('MSC_mach_port_deallocate_trap', (515, 0x1703, 0, 0), (15, 0, 0, 0))
sample3 = render('MSC_mach_vm_map_trap', (515, 0x16bc02308, 0xa6fa0, 0), (0x10000003, 0, 0, 0))
print('observable difference (text AFTER the call part; unchanged code prints nothing there for these traps):')
print('   ', sample, '|', sample2, '|', sample3, '| lone record:', str(lone[0]))

sys.exit(1 if failures else 0)
