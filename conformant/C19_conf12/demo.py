"""
C19 demo: code-table text maps every 'hex-id name' line; a supplied table is honoured.

Run as:  cd /tmp/seed12_C19 && /venv/bin/python /tmp/seed_out12/C19/demo.py
Exits 0 on the unchanged and on the changed tree; prints one DIFFERENCE line.
"""
import os, sys; sys.path.insert(0, os.getcwd())  # noqa: E401,E702

import io
import random
import re
import struct
from types import MappingProxyType

import pykdebugparser
from pykdebugparser.kevent import Kevent
from pykdebugparser.pykdebugparser import PyKdebugParser
from pykdebugparser.trace_codes import from_trace_codes_text, default_trace_codes
from pykdebugparser.traces_parser import TracesParser

print('testing', pykdebugparser.__file__)

rnd = random.Random(1912)
failures = []
checks = 0


def check(cond, message):
    global checks
    checks += 1
    if not cond:
        failures.append(message)


# --------------------------------------------------------------------------------------------------------------------
# helpers: dumps and events
# --------------------------------------------------------------------------------------------------------------------

def kd_buf(timestamp, values, tid, debugid):
    return struct.pack('<Q32sQIIQ', timestamp, struct.pack('<QQQQ', *values), tid, debugid, 0, 0)


def v2_dump(records, threads=((0x111, 42, 'proc'),)):
    """ records: (timestamp, values, tid, debugid). Timestamps keep a non-zero low byte (header padding is greedy). """
    out = b'\x00\x02\xaa\x55'
    out += struct.pack('<I', len(threads)) + b'\x00' * 8 + b'\x00' * 4 + struct.pack('<I', 1) + struct.pack('<Q', 24000000)
    out += b'\x00' * 0x100
    for tid, pid, name in threads:
        out += struct.pack('<QI', tid, pid) + name.encode().ljust(0x14, b'\x00')
    for r in records:
        out += kd_buf(*r)
    return io.BytesIO(out)


def kevent(timestamp, values, tid, debugid):
    return Kevent(timestamp, struct.pack('<QQQQ', *values), tuple(values), tid, debugid, debugid & 0xfffffffc,
                  debugid & 3)


# --------------------------------------------------------------------------------------------------------------------
# part 1: text -> mapping, against an oracle written from the statement
# --------------------------------------------------------------------------------------------------------------------

NAME_ALPHABET = 'ABCDEFGHIJKLMNOPQRSTUVWXYZabcdefghijklmnopqrstuvwxyz0123456789_-.:/#()[]%'


def random_name():
    return ''.join(rnd.choice(NAME_ALPHABET) for _ in range(rnd.randint(1, 70)))


def random_hex(value):
    digits = '%x' % value
    if rnd.random() < 0.3:
        digits = digits.zfill(8)
    digits = ''.join(c.upper() if rnd.random() < 0.5 else c for c in digits)
    return rnd.choice(['0x', '0X', '', '0x']) + digits


def oracle(text):
    """ Each line is: hex-id, whitespace, name, optionally whitespace and anything. Last occurrence wins. """
    out = {}
    for line in text.splitlines():
        m = re.match(r'^\s*(?:0[xX])?([0-9a-fA-F]+)\s+(\S+)(?:\s.*)?$', line)
        assert m, line
        out[int(m.group(1), 16)] = m.group(2)
    return out


def random_table_text(n_lines, id_pool=None):
    lines = []
    ids = []
    for _ in range(n_lines):
        if ids and rnd.random() < 0.25:
            value = rnd.choice(ids)  # duplicate id
        elif id_pool and rnd.random() < 0.7:
            value = rnd.choice(id_pool)
        else:
            value = rnd.choice([rnd.getrandbits(32), rnd.getrandbits(16), 0, 0xffffffff, rnd.getrandbits(32) & ~3])
        ids.append(value)
        line = random_hex(value) + rnd.choice(['\t', ' ', '   ', '\t\t', ' \t ']) + random_name()
        if rnd.random() < 0.4:
            line += rnd.choice(['\t\t', ' ']) + rnd.choice(['#Params: flow band page size\t\t#Matchby: Arg1',
                                                           'comment', '0x1234 OTHER', '# 0xdead beef  '])
        if rnd.random() < 0.15:
            line += rnd.choice([' ', '\t'])
        lines.append(line)
    return rnd.choice(['\n', '\n', '\r\n']).join(lines) + rnd.choice(['', '\n'])


for case in range(40):
    text = random_table_text(rnd.randint(0, 30))
    got = from_trace_codes_text(text)
    want = oracle(text)
    check(dict(got) == want and len(got) == len(want), f'part 1 case {case}: mapping differs from the oracle')

check(dict(from_trace_codes_text('0x40c0548\tBSC_stat64\n40C0548 other # x\n0X40c054c third'))
      == {0x40c0548: 'other', 0x40c054c: 'third'}, 'part 1: fixed example')

# --------------------------------------------------------------------------------------------------------------------
# part 2: listings under a supplied table
# --------------------------------------------------------------------------------------------------------------------


def listing_parser():
    parser = PyKdebugParser()
    parser.show_timestamp = False
    parser.show_func_qual = False
    parser.show_process = False
    parser.show_args = False
    parser.show_tid = False
    return parser


bundled = default_trace_codes()
bundled_ids = list(bundled)

for case in range(12):
    event_ids = [rnd.getrandbits(32) & ~3 for _ in range(6)] + rnd.sample(bundled_ids, 6)
    event_ids = [e & 0xfffffffc for e in event_ids]
    table = from_trace_codes_text(random_table_text(rnd.randint(0, 12), id_pool=event_ids))
    if case == 0:
        table = {}
    if case == 1:
        table = MappingProxyType(dict(table))
    records = [(0x100 * (i + 1) + 1, (1, 2, 3, 4), 0x111, eid | rnd.choice([0, 1, 2, 3]))
               for i, eid in enumerate(event_ids)]
    lines = list(listing_parser().formatted_kevents(v2_dump(records), table))
    check(len(lines) == len(event_ids), f'part 2 case {case}: number of lines')
    for eid, line in zip(event_ids, lines):
        if eid in table:
            fields = line.split()
            check(fields[0] == table[eid] and hex(eid) in line, f'part 2 case {case}: {eid:#x} not shown by name')
        else:
            # Even when the bundled table names it.
            check(line.strip() == hex(eid), f'part 2 case {case}: {eid:#x} absent from the table, shown {line!r}')

# --------------------------------------------------------------------------------------------------------------------
# part 3: decoding under a supplied table
# --------------------------------------------------------------------------------------------------------------------

name_to_bundled_id = {}
for eid, name in bundled.items():
    name_to_bundled_id.setdefault(name, eid)

CANDIDATES = ['BSC_read', 'BSC_write', 'BSC_getpid', 'BSC_getppid', 'BSC_sys_close', 'MSC_mach_reply_port',
              'MSC_task_self_trap', 'MSC_thread_self_trap', 'TRACE_DATA_THREAD_TERMINATE', 'DecrTrap']
START_VALUES = (7, 0x11bf1c000, 25558, 0x16d3ad868)
END_VALUES = (0, 25558, 0, 144)


def stream_for(eid, tid, t0):
    """ A start / end pair and a lone record of that event id. """
    return [(t0 + 1, START_VALUES, tid, eid | 1), (t0 + 0x101, END_VALUES, tid, eid | 2),
            (t0 + 0x201, START_VALUES, tid, eid | 0)]


def decode_direct(records, table):
    parser = TracesParser(table, {}, {})
    return list(parser.feed_generator(kevent(*r) for r in records))


def summary(traces):
    return [(type(t).__name__, str(t)) for t in traces]


reference = {}
for name in CANDIDATES:
    if name not in name_to_bundled_id:
        continue
    try:
        ref = summary(decode_direct(stream_for(name_to_bundled_id[name], 0x111, 0x1000), bundled))
    except Exception:  # the generic arguments do not suit this decoder
        continue
    if ref:
        reference[name] = ref
decodable = sorted(reference)
check(len(decodable) >= 5, f'part 3: only {decodable} usable')
check(reference.get('BSC_read', [(None, None)])[0][1] == 'read(7, 0x11bf1c000, 25558), count: 25558',
      'part 3: read is not decoded as the test-suite of the project expects')

for case in range(16):
    chosen = rnd.sample(decodable, rnd.randint(1, len(decodable)))
    used = set()

    def fresh_id():
        while True:
            v = rnd.getrandbits(32) & 0xfffffffc
            if v not in used:
                used.add(v)
                return v

    lines = []
    plan = []  # (event id, expected summaries)
    for name in chosen:
        style = rnd.random()
        if style < 0.2:
            eid = name_to_bundled_id[name]  # kept where the bundled table has it
            used.add(eid)
        elif style < 0.4:
            # takes the place of another decodable name of the bundled table
            eid = name_to_bundled_id[rnd.choice(decodable)]
            if eid in used:
                eid = fresh_id()
            used.add(eid)
        else:
            eid = fresh_id()
        lines.append(f'{random_hex(eid)}\t{name}')
        plan.append((eid, reference[name]))
        if rnd.random() < 0.3:  # the same name under a second id
            eid2 = fresh_id()
            lines.append(f'{random_hex(eid2)} {name}   # alias')
            plan.append((eid2, reference[name]))
    # named, but nothing decodes that name
    undecoded_id = fresh_id()
    lines.append(f'{random_hex(undecoded_id)} {random_name()}_nobody_decodes_this')
    plan.append((undecoded_id, []))
    # ids that can never be the id of an event (function qualifier bits set) next to a decodable name
    lines.append(f'{random_hex(fresh_id() | rnd.choice([1, 2, 3]))} BSC_read')
    # a duplicate: the first occurrence names a decodable event, the last one wins
    dup_id = fresh_id()
    lines.insert(0, f'{random_hex(dup_id)} BSC_read')
    lines.append(f'{random_hex(dup_id)} {chosen[0]}')
    plan.append((dup_id, reference[chosen[0]]))
    # absent from the supplied table: fresh ids, and the bundled ids of decodable names that were moved away
    absent = [fresh_id() for _ in range(2)]
    absent += [name_to_bundled_id[n] for n in decodable if name_to_bundled_id[n] not in used]
    for eid in absent:
        plan.append((eid, []))

    rnd.shuffle(plan)
    text = '\n'.join(lines)
    table = from_trace_codes_text(text)
    check(dict(table) == oracle(text), f'part 3 case {case}: table')
    for eid in absent:
        check(eid not in table, f'part 3 case {case}: test bug, {eid:#x} is in the table')
    if case % 4 == 1:
        table = MappingProxyType(dict(table))

    records = []
    expected = []
    for i, (eid, exp) in enumerate(plan):
        # One thread per id: the records of one do not end up in the other's.
        records += stream_for(eid, 0x200 + i, 0x10000 * (i + 1))
        expected += exp

    got_direct = decode_direct(records, table)
    check(summary(got_direct) == expected, f'part 3 case {case}: TracesParser decodes {summary(got_direct)}, '
                                           f'expected {expected}')
    for t in got_direct:
        check(t.ktraces[0].eventid in table, f'part 3 case {case}: trace out of an id absent from the table')

    api = PyKdebugParser()
    got_api = list(api.traces(v2_dump(records, threads=tuple((0x200 + i, 42, 'proc') for i in range(len(plan)))),
                              table))
    check(summary(got_api) == expected, f'part 3 case {case}: PyKdebugParser.traces decodes {summary(got_api)}, '
                                        f'expected {expected}')

# The empty table is a table: nothing is decoded, nothing is named.
records = stream_for(name_to_bundled_id['BSC_read'], 0x111, 0x1000)
check(decode_direct(records, {}) == [], 'part 3: empty table decodes')
check(list(PyKdebugParser().traces(v2_dump(records), {})) == [], 'part 3: empty table decodes through the API')
# Without a table the bundled one is used.
check(summary(PyKdebugParser().traces(v2_dump(records))) == reference['BSC_read'], 'part 3: bundled table')

# --------------------------------------------------------------------------------------------------------------------
# the observable difference: how often the supplied table is consulted while events are decoded
# --------------------------------------------------------------------------------------------------------------------


class CountingTable(dict):
    lookups = 0

    def __getitem__(self, key):
        CountingTable.lookups += 1
        return dict.__getitem__(self, key)

    def __contains__(self, key):
        CountingTable.lookups += 1
        return dict.__contains__(self, key)


counting = CountingTable({0x5550000: 'BSC_read', 0x5550004: 'SOMETHING_ELSE'})
records = stream_for(0x5550000, 0x111, 0x1000) + stream_for(0x5550004, 0x112, 0x9000) + \
    stream_for(0x5550008, 0x113, 0x11000)
counting_parser = TracesParser(counting, {}, {})
CountingTable.lookups = 0
counted = summary(counting_parser.feed_generator(kevent(*r) for r in records))
check(counted == reference['BSC_read'], 'counting table: decoding differs')
print(f'DIFFERENCE: decoding {len(records)} events under a supplied table {{0x5550000: BSC_read, ...}} looked the '
      f'table up by [] / in {CountingTable.lookups} times (unchanged code: 25, once or twice per event fed and per '
      f'record closed; changed code: 0, the table is resolved through .items() when the parser is built); '
      f'TracesParser has attribute "decoders": {hasattr(counting_parser, "decoders")}')

print(f'{checks} checks, {len(failures)} failures')
for f in failures[:20]:
    print('FAIL', f)
sys.exit(1 if failures else 0)
