"""
C10 demo: syscall results - errors take precedence and come only from the END record.

Run as:  cd /tmp/seed10_C10 && /venv/bin/python /tmp/seed_out10/C10/demo.py
Exits 0 when the property holds on every exercised input (both on the unchanged and on the changed code),
1 otherwise.  Prints one line showing the observable difference introduced by the change.
"""
import os, sys; sys.path.insert(0, os.getcwd())  # noqa: E401,E702

import ctypes
import re
import struct

import pykdebugparser
from pykdebugparser.kevent import Kevent
from pykdebugparser.trace_codes import default_trace_codes
from pykdebugparser.trace_handlers.bsd import handlers
from pykdebugparser.traces_parser import TracesParser

print('testing', pykdebugparser.__file__)

# The syscalls the statement excludes (cannot fail / do not return).
EXCLUDED = {
    'BSC_getpid', 'BSC_getuid', 'BSC_geteuid', 'BSC_getppid', 'BSC_getegid', 'BSC_getgid', 'BSC_getpgrp',
    'BSC_umask', 'BSC_sync', 'BSC_sys_getdtablesize', 'BSC_getlogin', 'BSC_execve', 'BSC_vfork',
    'BSC_bsdthread_create', 'BSC_abort_with_payload',
}

# A few Darwin errno names, from bsd/sys/errno.h (independent of the package's table).
KNOWN_NAMES = {1: 'EPERM', 2: 'ENOENT', 9: 'EBADF', 35: 'EAGAIN', 60: 'ETIMEDOUT', 106: 'EQFULL'}

CODES = default_trace_codes()
EVENTID = {}
for code, name in CODES.items():
    EVENTID.setdefault(name, code)

M64 = 2 ** 64 - 1
STARTS = [
    (0, 0, 0, 0),
    (1, 2, 3, 4),
    (3, 0x7ffe1000, 0x20, 1),
    (M64, M64, M64, M64),
]
ERRORS = [0, 1, 2, 9, 35, 60, 106, 107, 255, 4096, 2 ** 32 + 2, M64]
RETURNS = [0, 1, 3, 0x10a3f4000, 2 ** 63, M64]
ENDS = [(err, ret, (ret * 7 + err + 6) & M64, (err ^ ret) & 0xffff) for err in ERRORS for ret in RETURNS]
REFERENCE_END = (2, 5, 6, 7)
REFERENCE_SUFFIX = ', errno: ENOENT(2)'

ERRNO_RE = re.compile(r'^, errno: (?:(?P<name>[A-Z][A-Z0-9]*)\((?P<named>\d+)\)|(?P<bare>\d+))$')
SUCCESS_RE = re.compile(r'^, (?P<label>[A-Za-z_ ]+): (?P<value>[^,]*)(?:, .*)?$')


def kevent(eventid, qualifier, values, tid=7):
    return Kevent(1, struct.pack('<QQQQ', *values), tuple(values), tid, eventid | qualifier, eventid, qualifier)


def decode(parser, name, start, end):
    eventid = EVENTID[name]
    assert parser.feed(kevent(eventid, 1, start)) is None
    return str(parser.feed(kevent(eventid, 2, end)))


def renderings(ret):
    """ Texts accepted as 'a rendering of the END record's return word'. """
    signed = ctypes.c_int64(ret).value
    return {str(ret), hex(ret), str(signed), hex(signed), str(bool(ret)), str(ctypes.c_int32(ret & 0xffffffff).value),
            oct(ret), f'{ret:#018x}', f'{ret:x}'}


def main():
    parser = TracesParser(CODES, {}, {})
    failures = []
    checked = skipped = syscalls = 0
    for name in handlers:
        if not name.startswith('BSC_') or name in EXCLUDED or name not in EVENTID:
            continue
        syscalls += 1
        results_by_end = {}
        for start in STARTS:
            # The call part is whatever precedes the errno text of a failed call; START tuples the syscall's decoder
            # rejects (enum arguments) are outside the domain ('decodable').
            try:
                reference = decode(parser, name, start, REFERENCE_END)
            except Exception:
                skipped += 1
                continue
            if not reference.endswith(REFERENCE_SUFFIX):
                failures.append(f'{name} {start}: failed call does not end with its errno: {reference!r}')
                continue
            call = reference[:-len(REFERENCE_SUFFIX)]
            for end in ENDS:
                err, ret = end[:2]
                try:
                    text = decode(parser, name, start, end)
                except Exception as e:
                    failures.append(f'{name} {start} {end}: raised {e!r}')
                    continue
                checked += 1
                # the call part does not depend on the END record
                if not text.startswith(call):
                    failures.append(f'{name} {start} {end}: call part changed with the END record: {text!r}')
                    continue
                result = text[len(call):]
                # the result part depends only on the END record
                if results_by_end.setdefault(end, result) != result:
                    failures.append(f'{name} {end}: result part depends on START: {result!r} / {results_by_end[end]!r}')
                if err:
                    m = ERRNO_RE.match(result)
                    if m is None:
                        failures.append(f'{name} {end}: not an errno-only result: {result!r}')
                        continue
                    if int(m.group('named') or m.group('bare')) != err:
                        failures.append(f'{name} {end}: wrong errno code: {result!r}')
                    if err in KNOWN_NAMES and m.group('name') != KNOWN_NAMES[err]:
                        failures.append(f'{name} {end}: wrong errno name: {result!r}')
                else:
                    if 'errno' in result:
                        failures.append(f'{name} {end}: errno shown for a successful call: {result!r}')
                    if result:
                        m = SUCCESS_RE.match(result)
                        if m is None:
                            failures.append(f'{name} {end}: unrecognised success text: {result!r}')
                        elif m.group('value') not in renderings(ret):
                            failures.append(f'{name} {end}: success value is not the return word: {result!r}')

    for line in failures[:40]:
        print('VIOLATION', line)
    print(f'{syscalls} syscalls, {checked} decoded (START, END) pairs checked, {skipped} START tuples outside the '
          f'domain skipped, {len(failures)} violations')

    # The observable difference (allowed by the statement: how a success value is labelled / rendered is left open).
    mmap = decode(parser, 'BSC_mmap', (0, 0x4000, 3, 0x1002), (0, 0x10a3f4000, 0, 0))
    shmat = decode(parser, 'BSC_shmat', (5, 0, 0, 0), (0, 0x10a3f4000, 0, 0))
    print(f'observable difference: {mmap!r} ; {shmat!r}   '
          f'(unchanged code: "count: 0x10a3f4000" / "address: 4466884608", '
          f'changed code: "address: 0x10a3f4000" for both)')
    return 1 if failures else 0


if __name__ == '__main__':
    sys.exit(main())
