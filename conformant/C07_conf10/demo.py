"""
C07 demo: missing or unexpected context never aborts the trace stream.

Run as:  cd /tmp/seed10_C07 && /venv/bin/python /tmp/seed_out10/C07/demo.py

Builds a few hundred event histories out of individually in-domain events (dropped prefixes, dropped nested
records, repetitions, self nesting, interleaving with another thread, thread-terminate records inserted at every
position) and checks, against an oracle derived from the statement only, that the pipeline consumes the whole
history and renders every trace it emits without raising, and that missing pieces show up as empty / omitted
fields.  Exits 0 on both the unchanged and the changed code.  The last line printed shows the behaviour that the
change alters (and that the statement does not pin down).
"""
import os, sys; sys.path.insert(0, os.getcwd())  # noqa: E401,E702

import struct

import pykdebugparser
from pykdebugparser.kevent import Kevent
from pykdebugparser.pykdebugparser import PyKdebugParser
from pykdebugparser.trace_codes import default_trace_codes
from pykdebugparser.traces_parser import TracesParser

print('testing', pykdebugparser.__file__)

CODES = default_trace_codes()
BY_NAME = {}
for code, name in CODES.items():
    BY_NAME.setdefault(name, code)

NONE, START, END, ALL = 0, 1, 2, 3
_clock = [1000]


def ev(name, qual, tid, values=None, data=None):
    """One kdebug record, built the way kevent.from_kd_buf builds it (data and values describe the same 32 bytes)."""
    eventid = BY_NAME[name] if isinstance(name, str) else name
    if data is None:
        data = struct.pack('<QQQQ', *(tuple(values) + (0,) * (4 - len(values))))
    data = data.ljust(32, b'\x00')
    assert len(data) == 32
    _clock[0] += 7
    return Kevent(_clock[0], data, struct.unpack('<QQQQ', data), tid, eventid | qual, eventid, qual)


def lookup(tid, path, vnode=0x1234):
    """The VFS_LOOKUP records of one path lookup: vnode id + first chunk, then 32 byte chunks."""
    raw = path.encode()
    chunks = [raw[:24]] + [raw[i:i + 32] for i in range(24, len(raw), 32)]
    records = []
    for i, chunk in enumerate(chunks):
        qual = (START if i == 0 else 0) | (END if i == len(chunks) - 1 else 0)
        data = struct.pack('<Q', vnode) + chunk if i == 0 else chunk
        records.append(ev('VFS_LOOKUP', qual, tid, data=data))
    return records


def global_string(tid, str_id, text):
    raw = text.encode()
    chunks = [raw[:16]] + [raw[i:i + 32] for i in range(16, len(raw), 32)]
    records = []
    for i, chunk in enumerate(chunks):
        qual = (START if i == 0 else 0) | (END if i == len(chunks) - 1 else 0)
        data = struct.pack('<QQ', 0x1f080000, str_id) + chunk if i == 0 else chunk
        records.append(ev('TRACE_STRING_GLOBAL', qual, tid, data=data))
    return records


T = 7        # the thread of the scenarios
OTHER = 9    # another thread
STR_ID = 0x70ac00000000da0f
UNKNOWN_CODE = 0x0bad0000  # not in trace.codes
assert UNKNOWN_CODE not in CODES


def scenarios(tid):
    """name -> list of records of one complete, in-domain operation (with its nested records)."""
    return {
        'open': ([ev('BSC_open', START, tid, (0x7000, 0x0, 0o644))]
                 + lookup(tid, '/System/Library/CoreServices/WiFiAgent.app/Contents/_CodeSignature')
                 + [ev('BSC_open', END, tid, (0, 5))]),
        'open_fails_early': [ev('BSC_open', START, tid, (0x7000, 0x0, 0)), ev('BSC_open', END, tid, (14, 0))],
        'rename': ([ev('BSC_rename', START, tid, (0x1, 0x2))]
                   + lookup(tid, '/tmp/a') + lookup(tid, '/private/var/tmp/some/longer/target/name', vnode=0x99)
                   + [ev('BSC_rename', END, tid, (0, 0))]),
        'link': ([ev('BSC_link', START, tid, (0x1, 0x2))]
                 + lookup(tid, '/tmp/a') + lookup(tid, '/tmp/a')
                 + [ev('BSC_link', END, tid, (0, 0))]),
        'lookup_alone': lookup(tid, '/usr/lib/dyld'),
        'dlopen': (global_string(tid, STR_ID, '/System/Library/PrivateFrameworks/Foo.framework/Foo')
                   + [ev('DBG_DYLD_TIMING_DLOPEN', START, tid, (0x80000828, STR_ID, 0x100)),
                      ev('DBG_DYLD_TIMING_DLOPEN', END, tid, (0x80000828, 0xdfafd81))]),
        'dlsym': (global_string(tid, STR_ID, 'malloc')
                  + [ev('DBG_DYLD_TIMING_DLSYM', START, tid, (0x80000828, 0xdfafd81, STR_ID)),
                     ev('DBG_DYLD_TIMING_DLSYM', END, tid, (0x80000828, 0x1000))]),
        'vmfault': [ev('MACH_vmfault', START, tid, (1, 0x16b99c000, 0, 0)),
                    ev('RealFaultAddressInternal', NONE, tid, (0x16b99c000, 1966849, 524288, 95)),
                    ev('MACH_vmfault', END, tid, (1, 0x16b99c000, 0, 1))],
        'perf': [ev('PERF_Event', START, tid, (9, 32)),
                 ev('PERF_STK_UHdr', NONE, tid, (69, 5)),
                 ev('PERF_STK_UData', NONE, tid, (7344249840, 6769009876, 4334590256, 7802850108)),
                 ev('PERF_STK_UData', NONE, tid, (6769010388, 0, 0, 0)),
                 ev('PERF_THD_Data', NONE, tid, (149, tid, 6133428608, 4294705155)),
                 ev('PERF_Event', END, tid, (9, 0))],
        'newthread': [ev('TRACE_DATA_NEWTHREAD', NONE, tid, (4242, 61, 0, 77)),
                      ev('TRACE_STRING_NEWTHREAD', NONE, tid, data=b'launchd')],
        'exec': [ev('TRACE_DATA_EXEC', NONE, tid, (61, 3, 4)),
                 ev('TRACE_STRING_EXEC', NONE, tid, data=b'ls')],
        'threadname': [ev('TRACE_STRING_THREADNAME', START, tid, data=b'com.apple.a.very.long.thread.nam'),
                       ev('TRACE_STRING_THREADNAME', END, tid, data=b'e.indeed')],
        'terminate_self': [ev('TRACE_DATA_THREAD_TERMINATE', NONE, tid, (tid, 0, 0, 0)),
                           ev('TRACE_DATA_THREAD_TERMINATE_PID', NONE, tid, (61, 77))],
        'undecoded': [ev(UNKNOWN_CODE, START, tid, (1, 2, 3, 4)), ev(UNKNOWN_CODE, NONE, tid, (5, 6)),
                      ev(UNKNOWN_CODE, END, tid, (0, 0))],
        'open_around_undecoded': ([ev('BSC_open', START, tid, (0x7000, 0x0, 0))]
                                  + [ev(UNKNOWN_CODE, START, tid, (1,)), ev(UNKNOWN_CODE, END, tid, (1,))]
                                  + lookup(tid, '/etc/hosts')
                                  + [ev('BSC_open', END, tid, (0, 3))]),
    }


def histories():
    base = scenarios(T)
    other = scenarios(OTHER)
    for name, records in base.items():
        yield f'{name}/complete', records
        for k in range(1, len(records) + 1):
            yield f'{name}/dropped-prefix-{k}', records[k:]
        for k in range(len(records)):
            yield f'{name}/dropped-record-{k}', records[:k] + records[k + 1:]
        for k in range(len(records)):
            yield f'{name}/repeated-record-{k}', records[:k + 1] + records[k:]
        yield f'{name}/twice', records + records
        yield f'{name}/nested-in-itself', records[:1] + records + records[1:]
        yield f'{name}/interleaved', [r for pair in zip(records, other[name]) for r in pair]
        for k in range(len(records) + 1):
            # The thread is reported as terminated (by another thread / by itself) in the middle of the operation.
            yield (f'{name}/terminate-at-{k}',
                   records[:k] + [ev('TRACE_DATA_THREAD_TERMINATE', NONE, OTHER, (T, 0, 0, 0))] + records[k:])
    names = list(base)
    for a in names:
        for b in names:
            if a != b:
                # An operation of another kind nested right after the first record.
                yield f'{a}/around/{b}', base[a][:1] + base[b] + base[a][1:]


def run(history):
    """The trace pipeline on one history: every event is consumed, every emitted trace is rendered."""
    parser = TracesParser(CODES, {}, {})
    formatter = PyKdebugParser()
    formatter.threads_pids, formatter.pids_names = parser.threads_pids, parser.pids_names
    formatter.color, formatter.show_tid = False, True
    consumed = [0]

    def counted():
        for event in history:
            consumed[0] += 1
            yield event

    traces = []
    for trace in parser.feed_generator(counted()):
        rendered = str(trace)
        line = formatter._format_trace(trace)
        assert isinstance(rendered, str) and isinstance(line, str) and line.endswith(rendered)
        # what the pipeline itself relies on: a trace carries at least one record, records of the stream
        assert len(trace.ktraces) > 0 and all(any(k is h for h in history) for k in trace.ktraces)
        traces.append(trace)
    assert consumed[0] == len(history), 'the stream was not processed to its end'
    return parser, traces


failures = 0
count = 0
for label, history in histories():
    count += 1
    try:
        run(history)
    except Exception as e:  # the property: nothing raises
        failures += 1
        print(f'VIOLATION {label}: {type(e).__name__}: {e}')

# "A missing piece shows up as an empty or omitted field" on the cases the statement names.
S = scenarios(T)


def only(traces, cls_name):
    found = [t for t in traces if type(t).__name__ == cls_name]
    assert len(found) == 1, (cls_name, [type(t).__name__ for t in traces])
    return found[0]


try:
    # a syscall that fails before any path lookup happens
    t = only(run(S['open_fails_early'])[1], 'BscOpen')
    assert t.path == '' and 'errno' in str(t)
    # every nested record of the syscall dropped
    t = only(run([S['rename'][0], S['rename'][-1]])[1], 'BscRename')
    assert 'rename("", "")' in str(t), str(t)
    # a string id announced before the dump began
    t = only(run(S['dlopen'][-2:])[1], 'Dlopen')
    assert t.path == '' and str(t).startswith('dlopen("", ')
    t = only(run(S['dlsym'][-2:])[1], 'Dlsym')
    assert t.symbol == ''
    # a dump that starts in the middle of an operation: the end record alone emits nothing and raises nothing
    assert run(S['open'][-1:])[1] == []
    # the thread was never announced: pid and name are omitted
    t = only(run(S['terminate_self'][:1])[1], 'TraceDataThreadTerminate')
    assert str(t) == f'Thread terminated tid: {T}'
    # nested records of a kind the tool does not decode
    t = only(run(S['open_around_undecoded'])[1], 'BscOpen')
    assert t.path == '/etc/hosts'
    # the complete operations decode as before
    t = only(run(S['open'])[1], 'BscOpen')
    assert t.path == '/System/Library/CoreServices/WiFiAgent.app/Contents/_CodeSignature'
    t = only(run(S['dlopen'])[1], 'Dlopen')
    assert t.path == '/System/Library/PrivateFrameworks/Foo.framework/Foo'
    t = only(run(S['threadname'] + S['terminate_self'][:1])[1], 'TraceDataThreadTerminate')
    assert str(t) == f'Thread terminated tid: {T}, name: com.apple.a.very.long.thread.name.indeed'
except AssertionError as e:
    failures += 1
    print('VIOLATION (missing piece not empty/omitted):', repr(e))

print(f'{count} histories checked, {failures} violations')

# The behaviour the statement leaves open: what happens to an operation that a thread left open when its
# terminate record arrives.
history = [S['open'][0], ev('TRACE_DATA_THREAD_TERMINATE', NONE, OTHER, (T, 0, 0, 0))] + S['open'][1:]
parser, traces = run(history)
print('DIFFERENCE open START, thread-terminate(tid of the open), lookup, open END -> traces emitted:',
      [type(t).__name__ for t in traces],
      '| per-thread state left in parser.on_going_events:', dict(parser.on_going_events),
      '| TracesParser.forget_thread exists:', hasattr(parser, 'forget_thread'))

sys.exit(1 if failures else 0)
