"""
C15 demo: callstacks take the sampled frames and attribute each to the right image.

Run as:  cd /tmp/seed10_C15 && /venv/bin/python /tmp/seed_out10/C15/demo.py

The oracle below is written from the statement of the property only (a dict of "first identity per load
address" and a linear max() search); it never looks at the internals of the package.
Exits 0 when every scenario agrees with the oracle, 1 otherwise.
"""
import os, sys; sys.path.insert(0, os.getcwd())

import io
import itertools
import random
import struct
from uuid import UUID

import pykdebugparser
from pykdebugparser.callstacks_parser import CallstacksParser
from pykdebugparser.kevent import Kevent
from pykdebugparser.pykdebugparser import PyKdebugParser
from pykdebugparser.trace_codes import default_trace_codes
from pykdebugparser.traces_parser import TracesParser

print('testing', pykdebugparser.__file__)

PERF_EVENT = 0x25000000
PERF_STK_UDATA = 0x25020010
PERF_STK_UHDR = 0x25020018
DYLD_UUID_MAP_A = 0x1f050000
DYLD_UUID_SHARED_CACHE_A = 0x1f050028
DYLD_LAUNCH_EXECUTABLE = 0x1f070004
SAMPLER_USTACK = 0x8
U64 = 2 ** 64 - 1
TRACE_CODES = default_trace_codes()


# ---------------------------------------------------------------------------------------------------------------
# Scenario language.  A scenario is a list of steps:
#   ('image', tid, load_addr, uuid_int)                      a stand-alone image announcement (DYLD_uuid_map_a)
#   ('launch', tid, [(kind, load_addr, uuid_int), ...])      a launch span announcing images, kind 'map'/'cache'
#   ('sample', tid, nframes, [record, ...])                  a user-stack sample, record = 4 words
#   ('samples', [(tid, nframes, records), ...])              samples of several threads, spans interleaved
# ---------------------------------------------------------------------------------------------------------------

class Clock:
    def __init__(self):
        self.now = 1000

    def tick(self):
        self.now += random.randint(1, 50)
        if self.now & 0xff == 0:
            self.now += 1  # the zero padding that follows the v2 header must not swallow the first timestamp
        return self.now


def kevent(clock, eventid, qual, tid, values):
    values = tuple(values)
    return Kevent(timestamp=clock.tick(), data=struct.pack('<QQQQ', *values), values=values, tid=tid,
                  debugid=eventid | qual, eventid=eventid, func_qualifier=qual)


def uuid_of(uuid_int):
    # The way the image record carries it: the first 16 bytes of the arguments.
    return UUID(bytes=struct.pack('<QQ', uuid_int & U64, uuid_int >> 64))


def image_event(clock, tid, load_addr, uuid_int, eventid=DYLD_UUID_MAP_A):
    return kevent(clock, eventid, 0, tid, (uuid_int & U64, uuid_int >> 64, load_addr, 0))


def build(scenario):
    """ :return: (kevents, expected) - expected is a list of (timestamp, tid, [(address, uuid, offset)]). """
    clock = Clock()
    events = []
    expected = []
    images = {}  # load address -> uuid, the first announcement wins

    def announce(load_addr, uuid_int):
        images.setdefault(load_addr, uuid_of(uuid_int))

    def attribute(frame):
        below = [a for a in images if a <= frame]
        if not below:
            return frame, None, None
        load_addr = max(below)
        return frame, images[load_addr], frame - load_addr

    def expect(start, tid, nframes, records):
        words = [w for record in records for w in record]
        expected.append((start.timestamp, tid, [attribute(w) for w in words[:nframes]]))

    for step in scenario:
        if step[0] == 'image':
            _, tid, load_addr, uuid_int = step
            events.append(image_event(clock, tid, load_addr, uuid_int))
            announce(load_addr, uuid_int)
        elif step[0] == 'launch':
            _, tid, announced = step
            events.append(kevent(clock, DYLD_LAUNCH_EXECUTABLE, 1, tid, (1, 0x100000000, 0, 0)))
            for kind, load_addr, uuid_int in announced:
                eventid = DYLD_UUID_MAP_A if kind == 'map' else DYLD_UUID_SHARED_CACHE_A
                events.append(image_event(clock, tid, load_addr, uuid_int, eventid))
            events.append(kevent(clock, DYLD_LAUNCH_EXECUTABLE, 2, tid, (1, 0, 0, 3)))
            # No sample lies inside the span and the addresses of a span are distinct (see the generators), so
            # the order within the span does not matter to the oracle.
            for kind, load_addr, uuid_int in announced:
                announce(load_addr, uuid_int)
        elif step[0] == 'sample':
            _, tid, nframes, records = step
            start = kevent(clock, PERF_EVENT, 1, tid, (SAMPLER_USTACK, 7, 0, 0))
            events.append(start)
            events.append(kevent(clock, PERF_STK_UHDR, 0, tid, (0x45, nframes, 0, 0)))
            events.extend(kevent(clock, PERF_STK_UDATA, 0, tid, record) for record in records)
            events.append(kevent(clock, PERF_EVENT, 2, tid, (SAMPLER_USTACK, 0, 0, 0)))
            expect(start, tid, nframes, records)
        elif step[0] == 'samples':
            # Spans of different threads interleaved record by record; no announcement in between, callstacks
            # come out in the order in which the samples END.
            group = step[1]
            starts = [kevent(clock, PERF_EVENT, 1, tid, (SAMPLER_USTACK, 7, 0, 0)) for tid, _, _ in group]
            events.extend(starts)
            for tid, nframes, _ in reversed(group):
                events.append(kevent(clock, PERF_STK_UHDR, 0, tid, (0x45, nframes, 0, 0)))
            longest = max(len(records) for _, _, records in group)
            for i in range(longest):
                for tid, _, records in group:
                    if i < len(records):
                        events.append(kevent(clock, PERF_STK_UDATA, 0, tid, records[i]))
            for start, (tid, nframes, records) in reversed(list(zip(starts, group))):
                events.append(kevent(clock, PERF_EVENT, 2, tid, (SAMPLER_USTACK, 0, 0, 0)))
                expect(start, tid, nframes, records)
        else:
            raise AssertionError(step)
    return events, expected


def normalise(callstacks):
    out = []
    for cs in callstacks:
        out.append((cs.timestamp, cs.tid, [(f.address, f.uuid, f.offset) for f in cs.frames]))
    return out


def run_objects(events):
    traces = TracesParser(TRACE_CODES, {}, {}).feed_generator(iter(events))
    return normalise(CallstacksParser([], []).feed_generator(traces))


def run_dump(events, parser=None):
    """ The same events as a RAW_VERSION2 dump through the public entry point. """
    dump = b'\x00\x02\xaa\x55' + struct.pack('<I8x4xIQ', 0, 1, 24000000) + b'\x00' * 0x100
    for e in events:
        dump += struct.pack('<Q32sQIIQ', e.timestamp, e.data, e.tid, e.debugid, 0, 0)
    parser = PyKdebugParser() if parser is None else parser
    return normalise(parser.callstacks(io.BytesIO(dump)))


# ---------------------------------------------------------------------------------------------------------------
# Scenarios
# ---------------------------------------------------------------------------------------------------------------

def probes(addresses):
    """ Frames below / at / above every load address, in records of 4 words. """
    words = []
    for a in addresses:
        words += [w for w in (a - 1, a, a + 1) if 0 <= w <= U64]
    words += [0, 1, U64]
    while len(words) % 4:
        words.append(0)
    return [tuple(words[i:i + 4]) for i in range(0, len(words), 4)]


def handcrafted():
    scenarios = {}
    A, B, C = 0x1000, 0x2000, 0x3000
    # no image at all
    scenarios['no images'] = [('sample', 5, 5, probes([A]))]
    # depth: header count below / equal / above the data supplied, zero, no data records
    recs = [(11, 12, 13, 14), (15, 16, 0, 0)]
    for n in (0, 1, 3, 4, 5, 6, 7, 8, 9, 1000, U64):
        scenarios[f'depth N={n}'] = [('image', 1, 12, 0xaa), ('sample', 5, n, recs)]
    scenarios['depth no data'] = [('image', 1, 12, 0xaa), ('sample', 5, 4, [])]
    # order of announcement of distinct images
    for order in itertools.permutations([(A, 1), (B, 2), (C, 3)]):
        name = 'order ' + ','.join(hex(a) for a, _ in order)
        scenarios[name] = [('image', 1, a, u) for a, u in order] + [('sample', 5, 99, probes([A, B, C]))]
    # an address announced twice keeps its first identity, also when other images come in between / after
    scenarios['dup adjacent'] = [('image', 1, B, 1), ('image', 1, B, 2), ('sample', 5, 99, probes([B]))]
    scenarios['dup apart'] = [('image', 1, B, 1), ('image', 1, A, 3), ('image', 2, C, 4), ('image', 1, B, 2),
                              ('sample', 5, 99, probes([A, B, C])), ('image', 1, B, 5), ('image', 1, A, 6),
                              ('sample', 6, 99, probes([A, B, C]))]
    scenarios['dup same uuid other address'] = [('image', 1, B, 1), ('image', 1, A, 1), ('image', 1, C, 1),
                                                ('sample', 5, 99, probes([A, B, C]))]
    # adjacent addresses, address 0, greatest address
    scenarios['adjacent'] = [('image', 1, 0x5001, 1), ('image', 1, 0x5000, 2), ('image', 1, 0x5002, 3),
                             ('sample', 5, 99, probes([0x5000, 0x5001, 0x5002]))]
    scenarios['extremes'] = [('image', 1, U64, 1), ('image', 1, 0, 2), ('image', 1, 1, 3),
                             ('sample', 5, 99, probes([0, 1, U64]))]
    # images announced between samples only count for the later samples; descending announcements
    scenarios['growing table'] = [('sample', 5, 99, probes([A, B, C])), ('image', 1, C, 3),
                                  ('sample', 5, 99, probes([A, B, C])), ('image', 1, B, 2),
                                  ('sample', 6, 99, probes([A, B, C])), ('image', 1, A, 1), ('image', 1, C, 9),
                                  ('sample', 5, 99, probes([A, B, C])), ('image', 1, 0x2800, 4),
                                  ('sample', 5, 99, probes([A, B, C, 0x2800]))]
    # interleaved spans of several threads
    scenarios['interleaved threads'] = [('image', 1, B, 2), ('image', 1, A, 1),
                                        ('samples', [(5, 6, probes([A])), (6, 3, probes([B, C])),
                                                     (7, 99, [])]),
                                        ('image', 1, C, 3),
                                        ('samples', [(6, 99, probes([A, B, C])), (5, 2, probes([C]))])]
    # launch spans (main executable + shared cache), unsorted inside the span
    scenarios['launch'] = [('image', 1, 0x9000, 9),
                           ('launch', 3, [('map', C, 3), ('cache', 0x8000, 8), ('map', A, 1), ('map', B, 2)]),
                           ('sample', 5, 99, probes([A, B, C, 0x8000, 0x9000])),
                           ('launch', 4, [('map', 0x2800, 4), ('cache', 0x500, 5)]),
                           ('sample', 5, 99, probes([A, B, C, 0x500, 0x2800, 0x8000, 0x9000]))]
    scenarios['launch re-announces'] = [('image', 1, B, 2), ('launch', 3, [('map', B, 7), ('map', A, 1)]),
                                        ('sample', 5, 99, probes([A, B]))]
    return scenarios


def randomised(count, seed):
    rnd = random.Random(seed)
    scenarios = {}
    for i in range(count):
        pool = rnd.sample(range(0, 64), rnd.randint(1, 8))  # small space: many equal and adjacent addresses
        if rnd.random() < 0.3:
            pool = [p * 0x1000 + 0x100000000 for p in pool]
        steps = []
        uuid_counter = itertools.count(1)
        for _ in range(rnd.randint(2, 14)):
            roll = rnd.random()
            if roll < 0.5:
                steps.append(('image', rnd.choice([1, 2, 5]), rnd.choice(pool), next(uuid_counter) << 60))
            elif roll < 0.6:
                span = rnd.sample(pool, rnd.randint(1, len(pool)))
                steps.append(('launch', rnd.choice([3, 5]),
                              [(rnd.choice(['map', 'cache']), a, next(uuid_counter) << 60) for a in span]))
            else:
                words = [max(0, rnd.choice(pool) + rnd.choice([-2, -1, 0, 0, 1, 2, 0x800]))
                         for _ in range(rnd.randint(0, 11))]
                while len(words) % 4:
                    words.append(0)
                records = [tuple(words[j:j + 4]) for j in range(0, len(words), 4)]
                nframes = rnd.choice([0, 1, len(words) - 1, len(words), len(words) + 1, rnd.randint(0, 16)])
                steps.append(('sample', rnd.choice([5, 6]), max(0, nframes), records))
        steps.append(('sample', 5, 99, probes(pool)))
        scenarios[f'random #{i}'] = steps
    return scenarios


def main():
    random.seed(15)
    scenarios = handcrafted()
    scenarios.update(randomised(40, seed=1515))
    failures = 0
    shared_parser = PyKdebugParser()  # one parser for all the dumps: images of a previous dump must not leak
    for name, scenario in scenarios.items():
        events, expected = build(scenario)
        for how, got in (('objects', run_objects(events)), ('dump', run_dump(events)),
                         ('dump, reused parser', run_dump(events, shared_parser))):
            if got != expected:
                failures += 1
                print(f'MISMATCH [{how}] {name}')
                for g, e in itertools.zip_longest(got, expected):
                    if g != e:
                        print('   got     ', g)
                        print('   expected', e)
                        break
    # Independence of the order of announcement, stated directly: all the permutations give one result.
    results = set()
    for order in itertools.permutations([(0x1000, 1), (0x1001, 2), (0x3000, 3), (0x2fff, 4)]):
        events, _ = build([('image', 1, a, u) for a, u in order] +
                          [('sample', 5, 99, probes([0x1000, 0x1001, 0x2fff, 0x3000]))])
        got = run_objects(events)
        results.add(repr([frames for _, _, frames in got]))
    if len(results) != 1:
        failures += 1
        print('MISMATCH order of announcement changes the attribution')

    print(f'{len(scenarios)} scenarios x 3 entry points + 24 permutations checked, {failures} failures')

    # The observable difference (nothing the property talks about): the raw image table right after two
    # announcements in descending order, before any sample looked anything up.
    p = CallstacksParser([], [])
    p.insert_image(0x2000, uuid_of(2))
    p.insert_image(0x1000, uuid_of(1))
    p.insert_image(0x2000, uuid_of(3))
    print('observable difference: dyld_addresses after insert_image(0x2000), insert_image(0x1000) =',
          [hex(a) for a in p.dyld_addresses],
          '(old code: sorted at once; new code: announcement order until the first lookup);',
          'has resolve()/sort_images():', hasattr(p, 'resolve'), hasattr(p, 'sort_images'))
    return 1 if failures else 0


if __name__ == '__main__':
    sys.exit(main())
