"""
Demo for property C03 (version-3 dumps: chunked events, then logs, plus metadata sections).

Run as:   cd /tmp/seed12_C03 && /venv/bin/python /tmp/seed_out12/C03/demo.py

Builds a few dozen synthetic version-3 dumps, parses them with KdBufParser and compares what comes out with an
oracle that is derived from the statement of the property only (own struct decoding of the event records, own
resolution of the string ids, own concatenation of the list-valued sections, own thread/process tables).
Exits 0 on the unchanged and on the changed code; prints one line that shows the observable difference.
"""
import os, sys; sys.path.insert(0, os.getcwd())  # noqa: E702

import io
import plistlib
import random
import struct
from datetime import datetime, timezone

import pykdebugparser
from pykdebugparser.kd_buf_parser import KdBufParser
from pykdebugparser.os_log_event import OsLogEvent

print('testing', pykdebugparser.__file__)

VERSION3 = b'\x00\x03\xaa\x55'
STACKSHOT_END = b'stackshot_out_fl'
THREADMAP_TAG = b'\x00\x1d\x00\x00\x00\x00\x00\x00'
EVENTS_TAG = b'\x00\x1e\x00\x00\x00\x00\x00\x00'
MORE_EVENTS = b'\x00\x20\x00\x00\x00\x00\x00\x00'
DYLD_MODULES = b'\x01\x80\x00\x00\x00\x00\x00\x00'
TRACE_CODES = b'\x0f\x80\x00\x00\x00\x00\x00\x00'
PROCESSES = b'\x10\x80\x00\x00\x00\x00\x00\x00'
LOG_EVENTS = b'\x11\x80\x00\x00\x00\x00\x00\x00'
LOG_STRINGS = b'\x12\x80\x00\x00\x00\x00\x00\x00'
KERNEL_EXTENSIONS = b'\x05\x80\x00\x00\x00\x00\x00\x00'
IMAGES = b'\x04\x80\x00\x00\x01\x00\x00\x00'

STRING_KEYS = {  # raw key -> attribute, the value is an id of the string index
    'cm': 'composed_message', 'p': 'process', 'pip': 'process_image_path', 'sip': 'sender_image_path',
    'send': 'sender', 'sub': 'subsystem', 'cat': 'category', 'f': 'format_string', 'sn': 'signpost_name',
}
PLAIN_KEYS = {  # raw key -> attribute, the value is taken as it is
    't': 'type_', 's': 'size', 'tid': 'thread_identifier', 'ns': 'continuous_nanoseconds_since_boot',
    'mct': 'mach_continuous_timestamp', 'b': 'boot_uuid', 'piu': 'process_image_uuid', 'pid': 'process_identifier',
    'sio': 'sender_image_offset', 'siu': 'sender_image_uuid', 'ttl': 'time_to_live', 'aid': 'activity_identifier',
    'paid': 'parent_activity_identifier', 'si': 'signpost_identifier',
}
DEFAULTS = {
    'process': '', 'process_image_path': '', 'sender_image_path': '', 'sender': '', 'subsystem': '', 'category': '',
    'format_string': '', 'signpost_name': '', 'process_identifier': 0, 'sender_image_offset': 0,
    'sender_image_uuid': b'', 'time_to_live': 0, 'activity_identifier': 0, 'parent_activity_identifier': 0,
    'signpost_identifier': 0,
}


def header(rnd):
    cpu_info = plistlib.dumps({'cpus': rnd.randrange(1, 9), 'arch': rnd.choice(['arm64e', 'x86_64'])},
                              fmt=rnd.choice([plistlib.FMT_BINARY, plistlib.FMT_XML]))
    body = struct.pack('<IIQIIQQIIIII', rnd.getrandbits(32), rnd.getrandbits(32), rnd.getrandbits(64),
                       rnd.getrandbits(32), rnd.getrandbits(32), rnd.getrandbits(64), rnd.getrandbits(64),
                       rnd.getrandbits(32), rnd.getrandbits(32), rnd.getrandbits(32), rnd.getrandbits(32),
                       rnd.getrandbits(32))
    body += struct.pack('<Q', len(cpu_info)) + cpu_info
    body += b'\x00' * (-len(body) % 8)  # the header is aligned to 8 from its own start ...
    return VERSION3 + body + b'\xee' * 4  # ... and the reader then to 8 from the start of the file


def no_zero_bytes(rnd, n):
    return bytes(rnd.randrange(1, 256) for _ in range(n))


def stackshot(rnd, kind):
    if kind == 0:
        filler = b''
    elif kind == 1:  # the tags of the later chunks appear inside the stackshot
        filler = no_zero_bytes(rnd, 11) + THREADMAP_TAG + EVENTS_TAG + MORE_EVENTS + bytes(rnd.randrange(256) for _ in range(37))
    elif kind == 2:  # prefixes of the end marker, also right in front of it
        filler = b'stackshot_out' + b'stack' + STACKSHOT_END[:-1] + b'stackshot_out_f'[:rnd.randrange(1, 15)] + b'stacksho'
    else:
        filler = bytes(rnd.randrange(256) for _ in range(rnd.randrange(1, 300)))
    assert STACKSHOT_END not in filler
    data = filler + STACKSHOT_END
    assert data.index(STACKSHOT_END) == len(filler)
    return data + no_zero_bytes(rnd, rnd.choice([0, 0, 5, 8, 16]))  # e.g. the rest of the key name


def threadmap(rnd):
    entries = []
    names = ['kernel_task', 'launchd', 'SpringBoard', 'logd', 'a', 'x' * 19, 'caféd']
    pids = [rnd.randrange(0, 40) for _ in range(6)]
    tids = [rnd.randrange(1, 60) for _ in range(12)]
    for _ in range(rnd.choice([0, 1, 3, 10, 25])):
        entries.append((rnd.choice(tids), rnd.choice(pids), rnd.choice(names)))
    raw = b''
    for tid, pid, name in entries:
        encoded = name.encode()
        raw += struct.pack('<QI', tid, pid) + encoded + b'\x00' * (0x14 - len(encoded))
    return THREADMAP_TAG + struct.pack('<Q', len(raw)) + raw, entries


def event_record(rnd):
    return struct.pack('<Q32sQIIQ', rnd.getrandbits(64), bytes(rnd.randrange(256) for _ in range(32)),
                       rnd.getrandbits(64), rnd.getrandbits(32), rnd.getrandbits(32), rnd.getrandbits(64))


def decode_record(record):
    """ What the statement calls the decoding of a record, done here with struct only. """
    timestamp, args, tid, debugid, _cpu, _unused = struct.unpack('<Q32sQIIQ', record)
    return timestamp, args, struct.unpack('<QQQQ', args), tid, debugid, debugid & 0xfffffffc, debugid & 3


def chunks(rnd, records, count):
    """ Split the records into `count` chunks (empty ones are possible) and lay them out. """
    cuts = sorted(rnd.randrange(len(records) + 1) for _ in range(count - 1))
    parts = [records[a:b] for a, b in zip([0] + cuts, cuts + [len(records)])]
    assert sum(parts, []) == records and len(parts) == count
    out = b''
    for i, part in enumerate(parts):
        if i:
            out += MORE_EVENTS
        out += no_zero_bytes(rnd, rnd.choice([0, 0, 8, 3]))  # something between the chunk header and the events tag
        data = b''.join(part)
        out += EVENTS_TAG + struct.pack('<Q', len(data)) + b'\x00' * 8 + data
    return out


def block(tag, data, pad=True):
    return tag + struct.pack('<Q', len(data)) + data + (b'\x00' * (-len(data) % 8) if pad else b'')


def plist(rnd, value):
    return plistlib.dumps(value, fmt=rnd.choice([plistlib.FMT_BINARY, plistlib.FMT_XML]))


def raw_log(rnd, index, strings, with_unknown):
    """ A raw log record; `strings` is id -> string. """
    ids = list(strings)
    record = {
        'cm': rnd.choice(ids), 't': rnd.choice([1024, 768, 1536]), 's': rnd.randrange(0, 500),
        'tid': rnd.randrange(1, 60), 'ns': rnd.getrandbits(40), 'mct': rnd.getrandbits(40),
        'b': bytes(rnd.randrange(256) for _ in range(16)), 'piu': bytes(rnd.randrange(256) for _ in range(16)),
        'ud': {'sec': 1600000000 + index * 17 + rnd.randrange(1000), 'usec': rnd.randrange(1000000)},
        'utz': {'mw': rnd.choice([0, 480, -120]), 'dt': rnd.randrange(2)},
    }
    if rnd.random() < 0.7:  # the record names a process (and a thread, tid is never 0 here)
        record['p'] = rnd.choice(ids)
        if rnd.random() < 0.9:
            record['pid'] = rnd.randrange(0, 40)
    for key in ('pip', 'sip', 'send', 'sub', 'cat', 'f', 'sn'):
        if rnd.random() < 0.4:
            record[key] = rnd.choice(ids)
    for key in ('sio', 'ttl', 'aid', 'paid', 'si'):
        if rnd.random() < 0.3:
            record[key] = rnd.getrandbits(31)
    if rnd.random() < 0.3:
        record['siu'] = bytes(rnd.randrange(256) for _ in range(16))
    if with_unknown and rnd.random() < 0.5:  # keys that no decoder knows, newer systems add such
        record[rnd.choice(['zz', 'xq', 'newkey'])] = rnd.choice([7, 'text', b'\x01\x02', {'k': [1, 2]}])
    return record


def make_case(rnd, number):
    expect = {}
    data = header(rnd) + stackshot(rnd, number % 4)
    tm_bytes, tm_entries = threadmap(rnd)
    data += tm_bytes
    records = [event_record(rnd) for _ in range(rnd.choice([0, 1, 2, 7, 20, 41]))]
    chunk_count = 1 if number % 5 == 0 else rnd.randrange(1, 7)
    data += chunks(rnd, records, chunk_count)
    expect['events'] = [decode_record(r) for r in records]

    strings = {i * 3 + 1: s for i, s in enumerate(
        ['launchd', 'logd', 'SpringBoard', '/usr/libexec/logd', 'com.apple.sub', 'cat', 'hello %d world',
         'message one', 'message two é', 'backboardd', 'Sign post', '/sbin/launchd'])}
    blocks = []
    shape = number % 6  # 0: no additional blocks at all
    log_groups = []
    if shape:
        with_unknown = number % 2 == 0
        total = 0
        for _ in range(rnd.choice([0, 1, 2, 4])):
            group = [raw_log(rnd, total + i, strings, with_unknown) for i in range(rnd.choice([0, 1, 3, 6]))]
            total += len(group)
            log_groups.append(group)
            blocks.append(('log', block(LOG_EVENTS, plist(rnd, {'Events': group}))))
        if log_groups:
            blocks.append(('strings', block(LOG_STRINGS, plist(rnd, {'StringIndex': {s: i for i, s in strings.items()}}))))
        for _ in range(rnd.choice([0, 1, 2, 3])):
            binaries = [{'Name': f'com.apple.kext{rnd.randrange(99)}', 'Address': rnd.getrandbits(40)}
                        for _ in range(rnd.randrange(0, 4))]
            blocks.append(('kext', block(KERNEL_EXTENSIONS, plist(rnd, {'Binaries': binaries})), binaries))
        for _ in range(rnd.choice([0, 1, 2, 3])):
            binaries = [{'Path': f'/usr/lib/lib{rnd.randrange(99)}.dylib', 'UUID': bytes(rnd.randrange(256) for _ in range(16))}
                        for _ in range(rnd.randrange(1, 4))]
            blocks.append(('dyld', block(DYLD_MODULES, plist(rnd, {'Binaries': binaries})), binaries))
        for _ in range(rnd.choice([0, 1, 2, 3])):
            text = ''.join(f'{rnd.getrandbits(32):#x}\tCODE_{rnd.randrange(999)}µ\n' for _ in range(rnd.randrange(0, 5)))
            blocks.append(('codes', block(TRACE_CODES, text.encode()), text))
        if rnd.random() < 0.7:
            payload = {'Processes': [{'Name': 'launchd', 'PID': 1}, {'Name': 'logd', 'PID': rnd.randrange(2, 99)}]}
            raw = block(PROCESSES, plist(rnd, payload))
            for _ in range(rnd.choice([1, 1, 2])):  # the same payload twice is still that payload
                blocks.append(('processes', raw, payload))
        if rnd.random() < 0.7:
            payload = {'Images': {'SharedCache': {'UUID': bytes(rnd.randrange(256) for _ in range(16)), 'Slide': rnd.getrandbits(30)}}}
            blocks.append(('images', block(IMAGES, plist(rnd, payload)), payload))
        rnd.shuffle(blocks)  # only the order inside a kind matters, it is read back from the shuffled list below
        if blocks and number % 7 == 3:  # last block of the file without its padding
            last = blocks[-1]
            tag, body = last[1][:8], last[1][16:16 + struct.unpack('<Q', last[1][8:16])[0]]
            blocks[-1] = (last[0], block(tag, body, pad=False)) + last[2:]
    data += b''.join(b[1] for b in blocks)

    for kind, attribute in (('kext', 'kernel_extensions'), ('dyld', 'dyld_modules')):
        lists = [b[2] for b in blocks if b[0] == kind]
        if lists:
            expect[attribute] = {'Binaries': sum(lists, [])}
    texts = [b[2] for b in blocks if b[0] == 'codes']
    if texts:
        expect['trace_codes'] = ''.join(texts)
    for kind in ('processes', 'images'):
        payloads = [b[2] for b in blocks if b[0] == kind]
        if payloads:
            expect[kind] = payloads[-1]

    # The log blocks in the order of the file.
    ordered_groups = []
    for b in blocks:
        if b[0] == 'log':
            ordered_groups.append(plistlib.loads(b[1][16:16 + struct.unpack('<Q', b[1][8:16])[0]])['Events'])
    expect['logs'] = [record for group in ordered_groups for record in group]
    expect['strings'] = strings

    threads_pids, pids_names = {}, {}
    for tid, pid, name in tm_entries:
        threads_pids[tid] = pid
        pids_names[pid] = name
    for record in expect['logs']:
        if 'p' in record and record['tid']:
            pid = record.get('pid', 0)
            threads_pids[record['tid']] = pid
            pids_names[pid] = strings[record['p']]
    expect['threads_pids'], expect['pids_names'] = threads_pids, pids_names
    return data, expect


def check_log(log, record, strings, where):
    assert isinstance(log, OsLogEvent), where
    for key, attribute in STRING_KEYS.items():
        wanted = strings[record[key]] if key in record else DEFAULTS[attribute]
        assert getattr(log, attribute) == wanted, (where, attribute, getattr(log, attribute), wanted)
    for key, attribute in PLAIN_KEYS.items():
        wanted = record[key] if key in record else DEFAULTS[attribute]
        assert getattr(log, attribute) == wanted, (where, attribute, getattr(log, attribute), wanted)
    wanted = datetime.fromtimestamp(record['ud']['sec'] + record['ud']['usec'] / 10 ** 6, tz=timezone.utc)
    assert log.unix_date == wanted, (where, 'unix_date')
    assert log.unix_timezone == {'minutes_west': record['utz']['mw'], 'dst_time': record['utz']['dt']}, where


def run_case(number):
    rnd = random.Random(1200 + number)
    data, expect = make_case(rnd, number)
    if number % 3 == 0:  # tables of the caller, with leftovers of an earlier dump
        threads_pids, pids_names = {9999: 1}, {1: 'stale'}
        parser = KdBufParser(threads_pids, pids_names)
    else:
        parser = KdBufParser()
        threads_pids, pids_names = parser.threads_pids, parser.pids_names
    produced = list(parser.parse(io.BytesIO(data)))
    where = f'case {number}'

    n_events = len(expect['events'])
    kevents, logs = produced[:n_events], produced[n_events:]
    # all events, in file order, each equal to the decoding of its record, before any log record
    assert len(produced) == n_events + len(expect['logs']), (where, len(produced))
    assert not any(isinstance(e, OsLogEvent) for e in kevents), where
    assert [tuple(e) for e in kevents] == expect['events'], where
    assert all(e._fields == ('timestamp', 'data', 'values', 'tid', 'debugid', 'eventid', 'func_qualifier')
               for e in kevents), where
    # every log record of every log block, in order, strings resolved through the string index
    for i, (log, record) in enumerate(zip(logs, expect['logs'])):
        check_log(log, record, expect['strings'], f'{where} log {i}')
    # thread map populates the tables, the naming logs extend them
    assert threads_pids == expect['threads_pids'], (where, threads_pids, expect['threads_pids'])
    assert pids_names == expect['pids_names'], (where, pids_names, expect['pids_names'])
    assert parser.threads_pids is threads_pids and parser.pids_names is pids_names, where
    # metadata sections equal to their payloads, the list-valued ones concatenated in file order
    for attribute in ('kernel_extensions', 'dyld_modules', 'trace_codes', 'processes', 'images'):
        if attribute in expect:
            assert getattr(parser, attribute) == expect[attribute], (where, attribute)
    return len(kevents), len(logs)


def show_difference():
    strings = {1: 'launchd', 2: 'hello'}
    record = {'cm': 2, 't': 1024, 's': 10, 'tid': 5, 'ns': 1, 'mct': 2, 'b': b'B' * 16, 'piu': b'P' * 16,
              'ud': {'sec': 1600000000, 'usec': 0}, 'utz': {'mw': 0, 'dt': 0}, 'p': 1, 'pid': 1, 'zz': 7}
    rnd = random.Random(1)
    tm_bytes, _ = threadmap(rnd)
    data = (header(rnd) + stackshot(rnd, 0) + tm_bytes + chunks(rnd, [event_record(rnd)], 1)
            + block(LOG_EVENTS, plistlib.dumps({'Events': [record]}))
            + block(LOG_STRINGS, plistlib.dumps({'StringIndex': {s: i for i, s in strings.items()}})))
    log = list(KdBufParser().parse(io.BytesIO(data)))[-1]
    check_log(log, record, strings, 'difference')
    print("DIFFERENCE: log record with the unknown key 'zz': 7 ->  log.undecoded =",
          repr(getattr(log, 'undecoded', '<OsLogEvent has no such attribute, the key is dropped>')),
          '; repr(log) ends with', repr(repr(log)[-28:]))


def main():
    total_events = total_logs = 0
    cases = 72
    for number in range(cases):
        n_events, n_logs = run_case(number)
        total_events += n_events
        total_logs += n_logs
    print(f'{cases} dumps parsed, {total_events} events and {total_logs} log records checked: property C03 holds')
    show_difference()


if __name__ == '__main__':
    main()
